#!/usr/bin/env python3
"""
Developer tool for seeded changes (not a check).

  tools/seed.py confirm <src_dir> <name>   confirm a candidate (patch.diff + demo.py + meta.json) in a fresh scratch worktree:
                                           demo passes on the pristine tree, the 405 tests pass with the patch, demo fails with
                                           the patch; on success copy it to /verif/seeded/<name>/ with what was run.
  tools/seed.py detect <name> [--all]      apply /verif/seeded/<name>/patch.diff to /repo, run the checks (the seeded property's,
                                           or all with --all), record which fire, and undo the patch (git checkout -- .).
  tools/seed.py detect-all                 the same for every directory under /verif/seeded.
"""
import json
import os
import shutil
import subprocess
import sys
import tempfile
from pathlib import Path

VERIF = Path(__file__).resolve().parent.parent
REPO = Path("/repo")
PY = "/venv/bin/python"


def sh(cmd, cwd=None, env=None, timeout=1200):
    e = dict(os.environ)
    e.update(env or {})
    p = subprocess.run(cmd, cwd=cwd, env=e, shell=isinstance(cmd, str), capture_output=True, text=True, timeout=timeout)
    return p.returncode, (p.stdout + p.stderr)


def confirm(src: str, name: str) -> int:
    srcd = Path(src)
    patch = srcd / "patch.diff"
    demo = srcd / "demo.py"
    if not patch.exists() or not demo.exists():
        print("missing patch.diff / demo.py in", srcd)
        return 2
    wt = Path(tempfile.mkdtemp(prefix="confirm-seed-"))
    shutil.rmtree(wt)
    rc, out = sh(["git", "-C", str(REPO), "worktree", "add", "-q", "--detach", str(wt), "HEAD"])
    if rc:
        print(out)
        return 2
    ran = []
    try:
        env = {"PYTHONPATH": str(wt), "PYTHONDONTWRITEBYTECODE": "1"}
        rc0, out0 = sh([PY, str(demo)], cwd=wt, env=env)
        ran.append({"cmd": "demo.py on pristine HEAD", "exit": rc0})
        rca, outa = sh(["git", "apply", str(patch)], cwd=wt)
        if rca:
            print("patch does not apply:", outa)
            return 2
        rct, outt = sh([PY, "-m", "pytest", "-q", "-p", "no:cacheprovider", "--timeout=900", "-x"], cwd=wt, env={"PYTHONDONTWRITEBYTECODE": "1"})
        tail = outt.strip().splitlines()[-1] if outt.strip() else ""
        ran.append({"cmd": "pytest (405 pinned tests) with the patch", "exit": rct, "tail": tail})
        rc1, out1 = sh([PY, str(demo)], cwd=wt, env=env)
        ran.append({"cmd": "demo.py with the patch", "exit": rc1, "tail": out1.strip().splitlines()[-3:]})
        ok = rc0 == 0 and rct == 0 and "405 passed" in tail and rc1 != 0
        print(json.dumps(ran, indent=1))
        if not ok:
            print("NOT CONFIRMED")
            return 1
        dst = VERIF / "seeded" / name
        dst.mkdir(parents=True, exist_ok=True)
        shutil.copy(patch, dst / "patch.diff")
        shutil.copy(demo, dst / "demo.py")
        meta = {}
        if (srcd / "meta.json").exists():
            try:
                meta = json.loads((srcd / "meta.json").read_text())
            except Exception:
                meta = {"raw_meta": (srcd / "meta.json").read_text()[:2000]}
        head = sh(["git", "-C", str(REPO), "rev-parse", "--short", "HEAD"])[1].strip()
        out_meta = {
            "property": meta.get("property", name.split("-")[0]),
            "summary": meta.get("summary"),
            "needs_to_manifest": meta.get("needs_to_manifest") or meta.get("needs"),
            "files": meta.get("files"),
            "author": "independent sub-agent given only the property text and a scratch worktree",
            "confirmed_on_repo_head": head,
            "confirmation_runs": ran,
            "detected_by": None,
        }
        (dst / "meta.json").write_text(json.dumps(out_meta, indent=1) + "\n")
        print("CONFIRMED ->", dst)
        return 0
    finally:
        sh(["git", "-C", str(REPO), "worktree", "remove", "--force", str(wt)])
        shutil.rmtree(wt, ignore_errors=True)


def detect(name: str, all_props: bool) -> int:
    d = VERIF / "seeded" / name
    meta = json.loads((d / "meta.json").read_text())
    rc, out = sh(["git", "-C", str(REPO), "status", "--porcelain"])
    if out.strip():
        print("/repo is not clean; refusing")
        return 2
    rc, out = sh(["git", "-C", str(REPO), "apply", str(d / "patch.diff")])
    if rc:
        print("patch does not apply to /repo:", out)
        return 2
    results = {}
    try:
        man = json.loads((VERIF / "MANIFEST.json").read_text())
        claimed = [c["property_id"] for c in man["checks"]]
        props = claimed if all_props else [p for p in claimed if p == meta["property"]]
        for p in props:
            rc, out = sh(["./check", p, "--no-evidence"], cwd=VERIF)
            lines = [l for l in out.splitlines() if l.startswith("  ") or l.startswith("VIOLATION") or l.startswith("ANALYSIS-ERROR")]
            results[p] = {"exit": rc, "report": lines[:4]}
    finally:
        sh(["git", "-C", str(REPO), "checkout", "--", "."])
    fired = sorted(p for p, r in results.items() if r["exit"] == 1)
    errs = sorted(p for p, r in results.items() if r["exit"] == 2)
    meta["detected_by"] = {"fired": fired, "analysis_error": errs, "own_property_fired": meta["property"] in fired, "details": {p: results[p]["report"] for p in fired + errs}}
    (d / "meta.json").write_text(json.dumps(meta, indent=1) + "\n")
    print(name, "fired:", fired, "errors:", errs)
    for p in fired + errs:
        for l in results[p]["report"][:2]:
            print("   ", l[:220])
    return 0


if __name__ == "__main__":
    if len(sys.argv) >= 4 and sys.argv[1] == "confirm":
        sys.exit(confirm(sys.argv[2], sys.argv[3]))
    if len(sys.argv) >= 3 and sys.argv[1] == "detect":
        sys.exit(detect(sys.argv[2], "--all" in sys.argv))
    if len(sys.argv) >= 2 and sys.argv[1] == "detect-all":
        for x in sorted((VERIF / "seeded").iterdir()):
            if (x / "patch.diff").exists():
                detect(x.name, "--all" in sys.argv)
        sys.exit(0)
    print(__doc__)
    sys.exit(2)
