#!/usr/bin/env python3
"""Developer helper (not a check): print python sources without docstrings / unit tests, with line numbers."""
import ast, sys
def strip(path):
    src = open(path).read()
    tree = ast.parse(src)
    lines = src.splitlines()
    kill = set()
    for n in ast.walk(tree):
        if isinstance(n, ast.FunctionDef) and n.name.startswith("_unittest"):
            kill.update(range(n.lineno, n.end_lineno + 1))
        if isinstance(n, ast.Expr) and isinstance(n.value, ast.Constant) and isinstance(n.value.value, str):
            kill.update(range(n.lineno, n.end_lineno + 1))
    for i, l in enumerate(lines, 1):
        if i in kill or not l.strip():
            continue
        print(f"{i:4d} {l}")
for p in sys.argv[1:]:
    print("#######", p)
    strip(p)
