#!/usr/bin/env python3
"""
Developer tool for behaviour-preserving refactorings (not a check).

  tools/refac.py confirm <src_dir> <ID>      for every r*.diff in <src_dir>: apply to a fresh scratch worktree of /repo, run the
                                             405 pinned tests; the ones that pass are copied to /verif/refactorings/<ID>-rN/
                                             (patch.diff + meta.json)
  tools/refac.py run [name ...] [--props C01,C02]   apply each stored refactoring to a scratch copy of /repo/pydsdl (tempfile) and run
                                             the checks on it with --repo; print the status matrix; scratch copies are removed
                                             (a name like C07-agent4 is taken from /verif/seeded instead: the detection matrix of a
                                             seeded change without touching /repo)
"""
import json
import os
import shutil
import subprocess
import sys
import tempfile
from concurrent.futures import ProcessPoolExecutor
from pathlib import Path

VERIF = Path(__file__).resolve().parent.parent
REPO = Path("/repo")
PY = "/venv/bin/python"
PROPS = ["C%02d" % i for i in range(1, 20)]


def sh(cmd, cwd=None, env=None, timeout=1800):
    e = dict(os.environ)
    e.update(env or {})
    p = subprocess.run(cmd, cwd=cwd, env=e, capture_output=True, text=True, timeout=timeout)
    return p.returncode, p.stdout + p.stderr


def _confirm_one(args):
    diff, name, summary = args
    wt = Path(tempfile.mkdtemp(prefix="confirm-refac-"))
    shutil.rmtree(wt)
    rc, out = sh(["git", "-C", str(REPO), "worktree", "add", "-q", "--detach", str(wt), "HEAD"])
    if rc:
        return name, False, out
    try:
        rc, out = sh(["git", "apply", str(diff)], cwd=wt)
        if rc:
            return name, False, "does not apply: " + out[:200]
        rc, out = sh([PY, "-m", "pytest", "-q", "-p", "no:cacheprovider", "--timeout=900", "-x"], cwd=wt, env={"PYTHONDONTWRITEBYTECODE": "1"})
        tail = out.strip().splitlines()[-1] if out.strip() else ""
        ok = rc == 0 and "405 passed" in tail
        if ok:
            dst = VERIF / "refactorings" / name
            dst.mkdir(parents=True, exist_ok=True)
            shutil.copy(diff, dst / "patch.diff")
            head = sh(["git", "-C", str(REPO), "rev-parse", "--short", "HEAD"])[1].strip()
            (dst / "meta.json").write_text(json.dumps({"name": name, "summary": summary, "author": "independent sub-agent given only the property text and a scratch worktree; asked for behaviour-preserving refactorings", "repo_head": head, "confirmed": "405 pinned tests pass with the patch (%s)" % tail}, indent=1))
        return name, ok, tail
    finally:
        sh(["git", "-C", str(REPO), "worktree", "remove", "--force", str(wt)])
        shutil.rmtree(wt, ignore_errors=True)


def confirm(src, pid):
    srcd = Path(src)
    meta = {}
    try:
        meta = json.loads((srcd / "meta.json").read_text())
    except Exception:
        pass
    summ = {r.get("file"): r for r in meta.get("refactorings", []) if isinstance(r, dict)}
    jobs = []
    for d in sorted(list(srcd.glob("r*.diff")) + list(srcd.glob("s*.diff")) + list(srcd.glob("t*.diff")) + list(srcd.glob("u*.diff")) + list(srcd.glob("v*.diff"))):
        r = summ.get(d.name, {})
        jobs.append((d, "%s-%s" % (pid, d.stem), {"summary": r.get("summary"), "why_equivalent": r.get("why_equivalent")}))
    with ProcessPoolExecutor(max_workers=5) as ex:
        for name, ok, tail in ex.map(_confirm_one, jobs):
            print(name, "CONFIRMED" if ok else "REJECTED", tail)
    sh(["git", "-C", str(REPO), "worktree", "prune"])
    return 0


def _run_one(args):
    name, props = args
    tmp = Path(tempfile.mkdtemp(prefix="refac-run-"))
    try:
        shutil.copytree(REPO / "pydsdl", tmp / "pydsdl", ignore=shutil.ignore_patterns("__pycache__"))
        src = VERIF / ("seeded" if "-agent" in name else "refactorings") / name / "patch.diff"
        rc, out = sh(["git", "apply", "--include=pydsdl/*", str(src)], cwd=tmp)
        if rc:
            return name, {"*": "patch does not apply: " + out[:100]}
        res = {}
        for p in props:
            rc, out = sh([str(VERIF / "check"), p, "--tier", "quick", "--no-evidence", "--repo", str(tmp)])
            lines = [l for l in out.splitlines() if l.strip()]
            if rc == 0:
                res[p] = "ok"
            elif rc == 1:
                res[p] = "VIOLATION " + " | ".join(l.strip()[:400] for l in lines if "rule=" in l)[:1500]
            else:
                res[p] = "ERROR " + " | ".join(l.strip()[:400] for l in lines if "ANALYSIS-ERROR" in l)[:800]
        return name, res
    finally:
        shutil.rmtree(tmp, ignore_errors=True)


def run(names, props):
    if not names:
        names = sorted(d.name for d in (VERIF / "refactorings").iterdir() if (d / "patch.diff").exists())
    bad = 0
    with ProcessPoolExecutor(max_workers=16) as ex:
        for name, res in ex.map(_run_one, [(n, props) for n in names]):
            viol = {p: r for p, r in res.items() if r.startswith("VIOLATION")}
            err = {p: r for p, r in res.items() if not r.startswith("VIOLATION") and r != "ok"}
            print("%-10s ok=%d violation=%s error=%s" % (name, sum(1 for r in res.values() if r == "ok"), sorted(viol), sorted(err)))
            for p, r in sorted(viol.items()):
                print("     %s %s" % (p, r))
                bad += 1
            for p, r in sorted(err.items()):
                print("     %s %s" % (p, r))
    return 1 if bad else 0


def main():
    a = sys.argv[1:]
    if len(a) >= 3 and a[0] == "confirm":
        return confirm(a[1], a[2])
    if a and a[0] == "run":
        props = PROPS
        names = []
        it = iter(a[1:])
        for x in it:
            if x == "--props":
                props = next(it).split(",")
            else:
                names.append(x)
        return run(names, props)
    print(__doc__)
    return 2


if __name__ == "__main__":
    sys.exit(main())
