#!/bin/sh
# tools/trypatch.sh <patch> <check args...>: run a check against a scratch clone of /repo with one stored patch applied
# (never touches /repo: thorough runs copy /repo while they work)
P="$1"; shift
S=$(mktemp -d /tmp/sc-try-XXXXXX)
git clone -q /repo "$S/r" && git -C "$S/r" apply "$P" && /verif/check "$@" --repo "$S/r" --no-evidence
E=$?
rm -rf "$S"
exit $E
