#!/usr/bin/env python3
"""Render /verif/MANIFEST.json from sa/registry.py (run after changing the registry)."""
import json, sys
from pathlib import Path

HERE = Path(__file__).resolve().parent.parent
sys.path.insert(0, str(HERE))
from sa.registry import CHECKS, NOT_APPLICABLE  # noqa: E402

props = [json.loads(l)["id"] for l in (HERE / "properties.jsonl").read_text().splitlines() if l.strip()]
checks = []
na = []
for p in props:
    if p in CHECKS:
        c = CHECKS[p]
        checks.append(
            {
                "property_id": p,
                "quick_cmd": "./check %s" % p,
                "thorough_cmd": "./check %s --tier thorough" % p,
                "evidence_file": "/verif/evidence/%s.json" % p,
                "replay_cmd_template": "./check %s --replay {path}" % p,
                "engine": "sa",
                "level_claimed": {"category": "other", "text": c["text"], "design_ref": "DESIGN.md section " + c["design"]},
                "level_note": c["note"],
                "technique": c["technique"],
            }
        )
    else:
        na.append({"property_id": p, "reason": NOT_APPLICABLE.get(p, "check not built yet (static rules designed in DESIGN.md section 3; listed here until the rule module exists)")})
m = {
    "version": 1,
    "setup_cmd": "true",
    "hooks": {
        "guard": "PYDSDL_VERIF",
        "enable": "no hooks: the checks are static analyses of /repo's sources and need no instrumentation",
        "baseline_off_cmd": "cd /repo && /venv/bin/python -m pytest -ra -q -p no:cacheprovider --timeout=900 --continue-on-collection-errors",
        "source_commits": [],
        "add_only": True,
    },
    "engines": [
        {
            "name": "sa",
            "path": "/verif/sa",
            "serves_properties": sorted(CHECKS),
            "kind_free_text": "repository-specific static analysis over Python ASTs (stdlib ast only): symbol table / MRO / call graph, "
            "path-condition extraction with truth-table and region comparison, constant folding of extracted expressions, "
            "exception-flow, typestate automata extracted from the code, PEG-grammar model; nothing is imported or executed",
        }
    ],
    "checks": checks,
    "not_applicable": na,
    "notes": "Technique family: static analysis. Exit 0 ok / 1 VIOLATION / 2 ANALYSIS-ERROR (anchor missing or unsupported shape). "
    "Genuine defects that are recorded rather than repaired are listed in /verif/known_findings.json and printed as KNOWN-FINDING.",
}
(HERE / "MANIFEST.json").write_text(json.dumps(m, indent=1) + "\n")
print("MANIFEST.json: %d checks, %d not_applicable" % (len(checks), len(na)))
