"""
Regular-expression model: sre AST (re._parser) -> epsilon-NFA -> DFA over an explicit finite alphabet, with language
equivalence / inclusion / emptiness decided by product construction.  Supports the regex subset used in the
repository (literals, classes, ranges, categories, ., greedy repeats, groups, alternation, ^ and $).
Anything else raises RxUnsupported (-> ANALYSIS-ERROR for the instance).
"""
from __future__ import annotations

import re
from typing import Dict, FrozenSet, Iterable, List, Optional, Sequence, Set, Tuple

try:
    import re._parser as sre_parse  # type: ignore
    import re._constants as sre_c  # type: ignore
except ImportError:  # pragma: no cover  (python < 3.11)
    import sre_parse  # type: ignore
    import sre_constants as sre_c  # type: ignore


class RxUnsupported(Exception):
    pass


OTHER = "￿"  # stands for "any character not otherwise in the alphabet" (never a newline / digit / letter / _)


class NFA:
    def __init__(self) -> None:
        self.n = 0
        self.eps: Dict[int, Set[int]] = {}
        self.tr: Dict[int, List[Tuple[FrozenSet[str], int]]] = {}

    def new(self) -> int:
        self.n += 1
        return self.n - 1

    def add_eps(self, a: int, b: int) -> None:
        self.eps.setdefault(a, set()).add(b)

    def add(self, a: int, chars: FrozenSet[str], b: int) -> None:
        self.tr.setdefault(a, []).append((chars, b))


def _category(cat: object, alphabet: Sequence[str]) -> Set[str]:
    name = str(cat)
    if name.endswith("CATEGORY_DIGIT"):
        return {c for c in alphabet if c != OTHER and c.isdigit()}
    if name.endswith("CATEGORY_NOT_DIGIT"):
        return {c for c in alphabet if c == OTHER or not c.isdigit()}
    if name.endswith("CATEGORY_WORD"):
        return {c for c in alphabet if c != OTHER and (c.isalnum() or c == "_")}
    if name.endswith("CATEGORY_NOT_WORD"):
        return {c for c in alphabet if c == OTHER or not (c.isalnum() or c == "_")}
    if name.endswith("CATEGORY_SPACE"):
        return {c for c in alphabet if c != OTHER and c.isspace()}
    if name.endswith("CATEGORY_NOT_SPACE"):
        return {c for c in alphabet if c == OTHER or not c.isspace()}
    raise RxUnsupported("category %s" % name)


def _class_set(items: Sequence[Tuple[object, object]], alphabet: Sequence[str]) -> FrozenSet[str]:
    neg = False
    out: Set[str] = set()
    for op, av in items:
        if op is sre_c.NEGATE:
            neg = True
        elif op is sre_c.LITERAL:
            ch = chr(av)  # type: ignore
            if ch in alphabet:
                out.add(ch)
        elif op is sre_c.RANGE:
            lo, hi = av  # type: ignore
            out |= {c for c in alphabet if c != OTHER and lo <= ord(c) <= hi}
        elif op is sre_c.CATEGORY:
            out |= _category(av, alphabet)
        else:
            raise RxUnsupported("class item %s" % (op,))
    if neg:
        out = set(alphabet) - out
    return frozenset(out)


def _build(nfa: NFA, items: Sequence[Tuple[object, object]], start: int, alphabet: Sequence[str], flags: int) -> int:
    cur = start
    for op, av in items:
        nxt = nfa.new()
        if op is sre_c.LITERAL:
            ch = chr(av)  # type: ignore
            chars = {ch}
            if flags & re.IGNORECASE:
                chars |= {ch.lower(), ch.upper()}
            nfa.add(cur, frozenset(c for c in chars if c in alphabet), nxt)
        elif op is sre_c.NOT_LITERAL:
            nfa.add(cur, frozenset(c for c in alphabet if c != chr(av)), nxt)  # type: ignore
        elif op is sre_c.ANY:
            nfa.add(cur, frozenset(c for c in alphabet if c != "\n" or (flags & re.DOTALL)), nxt)
        elif op is sre_c.IN:
            nfa.add(cur, _class_set(av, alphabet), nxt)  # type: ignore
        elif op in (sre_c.MAX_REPEAT, sre_c.MIN_REPEAT):
            lo, hi, sub = av  # type: ignore
            c2 = cur
            for _ in range(lo):
                c2 = _build(nfa, sub, c2, alphabet, flags)
            if hi is sre_c.MAXREPEAT:
                loop_s = nfa.new()
                nfa.add_eps(c2, loop_s)
                loop_e = _build(nfa, sub, loop_s, alphabet, flags)
                nfa.add_eps(loop_e, loop_s)
                nfa.add_eps(loop_s, nxt)
            else:
                if hi - lo > 64:
                    raise RxUnsupported("large bounded repeat")
                nfa.add_eps(c2, nxt)
                for _ in range(hi - lo):
                    c2 = _build(nfa, sub, c2, alphabet, flags)
                    nfa.add_eps(c2, nxt)
        elif op is sre_c.SUBPATTERN:
            sub = av[-1]  # type: ignore
            e = _build(nfa, sub, cur, alphabet, flags)
            nfa.add_eps(e, nxt)
        elif op is sre_c.BRANCH:
            _, alts = av  # type: ignore
            for alt in alts:
                s = nfa.new()
                nfa.add_eps(cur, s)
                e = _build(nfa, alt, s, alphabet, flags)
                nfa.add_eps(e, nxt)
        elif op is sre_c.AT:
            name = str(av)
            if name.endswith("AT_BEGINNING") or name.endswith("AT_BEGINNING_STRING"):
                nfa.add_eps(cur, nxt)  # only used at the start of whole-string matches
            elif name.endswith("AT_END") or name.endswith("AT_END_STRING"):
                # handled by the caller (must be the last item); inside: treat as epsilon and mark
                nfa.add_eps(cur, nxt)
                nfa.__dict__.setdefault("end_anchored", set()).add(nxt)
            else:
                raise RxUnsupported("anchor %s" % name)
        else:
            raise RxUnsupported("regex construct %s" % (op,))
        cur = nxt
    return cur


class DFA:
    def __init__(self, alphabet: Sequence[str], start: int, accept: Set[int], delta: Dict[Tuple[int, str], int], n: int):
        self.alphabet = list(alphabet)
        self.start = start
        self.accept = accept
        self.delta = delta
        self.n = n

    def accepts(self, s: str) -> bool:
        q = self.start
        for ch in s:
            c = ch if ch in self.alphabet else OTHER
            if (q, c) not in self.delta:
                return False
            q = self.delta[(q, c)]
        return q in self.accept


def compile_dfa(pattern: str, alphabet: Sequence[str], mode: str = "fullmatch", flags: int = 0) -> DFA:
    """
    mode 'fullmatch': language of whole-string matches.
    mode 'match'    : re.match semantics on whole strings: L . Sigma*  unless the pattern ends with '$'.
    """
    try:
        parsed = sre_parse.parse(pattern, flags)
    except re.error as ex:
        raise RxUnsupported("invalid regex: %s" % ex)
    items = list(parsed)
    end_anch = bool(items) and items[-1][0] is sre_c.AT and (str(items[-1][1]).endswith("AT_END") or str(items[-1][1]).endswith("AT_END_STRING"))
    if end_anch:
        items = items[:-1]
    for op, av in _walk(items):
        if op is sre_c.AT and (str(av).endswith("AT_END") or str(av).endswith("AT_END_STRING")):
            raise RxUnsupported("'$' in the middle of a pattern")
    nfa = NFA()
    s = nfa.new()
    e = _build(nfa, items, s, alphabet, flags | parsed.state.flags)
    if mode == "match" and not end_anch:
        loop = nfa.new()
        nfa.add_eps(e, loop)
        nfa.add(loop, frozenset(alphabet), loop)
        e = loop
    elif mode == "search":
        raise RxUnsupported("search mode")
    elif mode not in ("match", "fullmatch"):
        raise ValueError(mode)
    return _determinize(nfa, s, e, alphabet)


def _walk(items: Iterable[Tuple[object, object]]) -> Iterable[Tuple[object, object]]:
    for op, av in items:
        yield op, av
        if op in (sre_c.MAX_REPEAT, sre_c.MIN_REPEAT):
            yield from _walk(av[2])  # type: ignore
        elif op is sre_c.SUBPATTERN:
            yield from _walk(av[-1])  # type: ignore
        elif op is sre_c.BRANCH:
            for alt in av[1]:  # type: ignore
                yield from _walk(alt)


def _determinize(nfa: NFA, s: int, e: int, alphabet: Sequence[str]) -> DFA:
    def closure(states: Iterable[int]) -> FrozenSet[int]:
        seen = set(states)
        stack = list(seen)
        while stack:
            q = stack.pop()
            for r in nfa.eps.get(q, ()):
                if r not in seen:
                    seen.add(r)
                    stack.append(r)
        return frozenset(seen)

    start = closure([s])
    ids: Dict[FrozenSet[int], int] = {start: 0}
    work = [start]
    delta: Dict[Tuple[int, str], int] = {}
    accept: Set[int] = set()
    while work:
        S = work.pop()
        i = ids[S]
        if e in S:
            accept.add(i)
        for ch in alphabet:
            T: Set[int] = set()
            for q in S:
                for chars, r in nfa.tr.get(q, ()):
                    if ch in chars:
                        T.add(r)
            if not T:
                continue
            Tc = closure(T)
            if Tc not in ids:
                ids[Tc] = len(ids)
                work.append(Tc)
                if len(ids) > 20000:
                    raise RxUnsupported("DFA too large")
            delta[(i, ch)] = ids[Tc]
    return DFA(alphabet, 0, accept, delta, len(ids))


def literal_dfa(words: Iterable[str], alphabet: Sequence[str]) -> DFA:
    pat = "|".join("(?:%s)" % re.escape(w) for w in sorted(words))
    return compile_dfa(pat or "(?!)", alphabet, "fullmatch") if pat else DFA(alphabet, 0, set(), {}, 1)


def difference_witness(a: DFA, b: DFA) -> Optional[str]:
    """A shortest string in L(a) \\ L(b), or None if L(a) is a subset of L(b). BFS over the product (dead state = -1)."""
    assert a.alphabet == b.alphabet
    start = (a.start, b.start)
    seen = {start: ""}
    queue = [start]
    while queue:
        nxt = []
        for qa, qb in queue:
            if qa in a.accept and (qb == -1 or qb not in b.accept):
                return seen[(qa, qb)]
            for ch in a.alphabet:
                ra = a.delta.get((qa, ch), None)
                if ra is None:
                    continue
                rb = b.delta.get((qb, ch), -1) if qb != -1 else -1
                if (ra, rb) not in seen:
                    seen[(ra, rb)] = seen[(qa, qb)] + ch
                    nxt.append((ra, rb))
        queue = nxt
    return None


def equivalent(a: DFA, b: DFA) -> Tuple[bool, Optional[str], Optional[str]]:
    w1 = difference_witness(a, b)
    w2 = difference_witness(b, a)
    return (w1 is None and w2 is None), w1, w2


def union(dfas: Sequence[DFA]) -> DFA:
    """Union by subset construction over the tuple of component states."""
    assert dfas
    alphabet = dfas[0].alphabet
    start = tuple(d.start for d in dfas)
    ids = {start: 0}
    work = [start]
    delta: Dict[Tuple[int, str], int] = {}
    accept: Set[int] = set()
    while work:
        S = work.pop()
        i = ids[S]
        if any(q != -1 and q in d.accept for q, d in zip(S, dfas)):
            accept.add(i)
        for ch in alphabet:
            T = tuple((d.delta.get((q, ch), -1) if q != -1 else -1) for q, d in zip(S, dfas))
            if all(q == -1 for q in T):
                continue
            if T not in ids:
                ids[T] = len(ids)
                work.append(T)
            delta[(i, ch)] = ids[T]
    return DFA(alphabet, 0, accept, delta, len(ids))


def uses_char(pattern: str, ch: str, alphabet: Sequence[str], flags: int = 0) -> bool:
    """Can a full match of `pattern` contain `ch`?  (some reachable, co-reachable transition on ch)"""
    d = compile_dfa(pattern, alphabet, "fullmatch", flags)
    # reachable
    reach = {d.start}
    stack = [d.start]
    while stack:
        q = stack.pop()
        for c in d.alphabet:
            r = d.delta.get((q, c))
            if r is not None and r not in reach:
                reach.add(r)
                stack.append(r)
    # co-reachable
    rev: Dict[int, Set[int]] = {}
    for (q, c), r in d.delta.items():
        rev.setdefault(r, set()).add(q)
    co = set(d.accept)
    stack = list(co)
    while stack:
        q = stack.pop()
        for r in rev.get(q, ()):
            if r not in co:
                co.add(r)
                stack.append(r)
    for (q, c), r in d.delta.items():
        if c == ch and q in reach and r in co:
            return True
    return False
