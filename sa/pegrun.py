"""
A matcher for the repository's PEG grammar (the notation read by sa/peg.py), producing the parse tree `parsimonious` would
hand to the visitor: used by the concrete front-end world (rules/frontend.py), where definition *texts* are parsed and the
repository's own visitor methods - evaluated from the source - are run over the tree.

What is reproduced of parsimonious (0.10) - the parts the visitor can observe:

  * a node has `expr_name` (the rule's name for the expression a rule is bound to, '' for anonymous sub-expressions), `text`
    (the matched substring), `start`, `end`, `children`, `full_text`; iterating a node yields its children;
  * a rule reference *is* the referred rule's expression (no wrapper node);
  * Sequence: one child per member; OneOf: the single matching alternative (ordered choice, first match wins);
    Optional / ZeroOrMore / OneOrMore: the matches as children (possibly none); Lookahead `&e` / Not `!e`: an empty node;
    Regex and Literal: leaves;
  * matching is memoised per (expression, position); a quantifier stops at a zero-length match (as parsimonious does);
  * `parse` must consume the whole text: otherwise ParseFailure carries the right-most position at which a leaf failed, as line
    and column numbers (parsimonious reports that position through `ParseError.line()` / `.column()`).

Nothing of the repository is executed here; the grammar file is data.
"""
from __future__ import annotations

import re
from typing import Any, Dict, List, Optional, Tuple

from .fold import Abstract
from .peg import Grammar


class PNode(Abstract):
    __slots__ = ("expr_name", "full_text", "start", "end", "children", "kind")
    _isa_ = frozenset({"Node"})  # what `isinstance(x, K)` in evaluated code may be told: a parse-tree node, nothing of the package

    def __init__(self, expr_name: str, full_text: str, start: int, end: int, children: List["PNode"], kind: str):
        self.expr_name, self.full_text, self.start, self.end, self.children, self.kind = expr_name, full_text, start, end, children, kind

    @property
    def text(self) -> str:
        return self.full_text[self.start : self.end]

    def __iter__(self) -> Any:
        return iter(self.children)

    def __len__(self) -> int:
        return len(self.children)

    def __bool__(self) -> bool:
        return True

    def __repr__(self) -> str:
        return "<Node %s %r>" % (self.expr_name or self.kind, self.text[:30])


class ParseFailure(Exception):
    def __init__(self, text: str, pos: int, incomplete: bool):
        super().__init__("parse failure at %d" % pos)
        self.text, self.pos, self.incomplete = text, pos, incomplete

    def line(self) -> int:
        return self.text.count("\n", 0, self.pos) + 1

    def column(self) -> int:
        try:
            return self.pos - self.text.rindex("\n", 0, self.pos)
        except ValueError:
            return self.pos + 1


class Matcher:
    def __init__(self, g: Grammar):
        self.g = g
        self._rx: Dict[str, Any] = {}

    def _regex(self, pattern: str) -> Any:
        r = self._rx.get(pattern)
        if r is None:
            r = self._rx[pattern] = re.compile(pattern)
        return r

    def parse(self, text: str, rule: Optional[str] = None) -> PNode:
        rule = rule or self.g.order[0]
        self.text = text
        self.memo: Dict[Tuple[int, int], Optional[PNode]] = {}
        self.far = 0
        n = self._match(("ref", rule), 0, "")
        if n is None:
            raise ParseFailure(text, self.far, False)
        if n.end != len(text):
            raise ParseFailure(text, n.end, True)
        return n

    def _match(self, e: Any, pos: int, name: str) -> Optional[PNode]:
        if e[0] == "ref":
            # the referred rule's own expression, named after the rule
            return self._match_named(self.g.rule(e[1]), pos, e[1])
        return self._match_named(e, pos, name)

    def _match_named(self, e: Any, pos: int, name: str) -> Optional[PNode]:
        if e[0] == "ref":
            return self._match(e, pos, name)
        key = (id(e), pos)
        if key in self.memo:
            hit = self.memo[key]
            if hit is None or hit.expr_name == name:
                return hit
            return PNode(name, hit.full_text, hit.start, hit.end, hit.children, hit.kind)
        r = self._do(e, pos, name)
        self.memo[key] = r
        return r

    def _fail(self, pos: int) -> None:
        if pos > self.far:
            self.far = pos

    def _do(self, e: Any, pos: int, name: str) -> Optional[PNode]:
        t = self.text
        k = e[0]
        if k == "lit":
            if t.startswith(e[1], pos):
                return PNode(name, t, pos, pos + len(e[1]), [], "lit")
            self._fail(pos)
            return None
        if k == "re":
            m = self._regex(e[1]).match(t, pos)
            if m is not None:
                return PNode(name, t, pos, m.end(), [], "re")
            self._fail(pos)
            return None
        if k == "seq":
            cur = pos
            kids = []
            for x in e[1]:
                n = self._match(x, cur, "")
                if n is None:
                    return None
                kids.append(n)
                cur = n.end
            return PNode(name, t, pos, cur, kids, "seq")
        if k == "alt":
            for x in e[1]:
                n = self._match(x, pos, "")
                if n is not None:
                    return PNode(name, t, pos, n.end, [n], "alt")
            return None
        if k == "opt":
            n = self._match(e[1], pos, "")
            # (an optional reference keeps the name of what it refers to in its kind: "opt:_" is optional whitespace)
            kind = "opt:" + e[1][1] if e[1][0] == "ref" else "opt"
            return PNode(name, t, pos, n.end if n is not None else pos, [n] if n is not None else [], kind)
        if k in ("star", "plus"):
            cur = pos
            kids = []
            while True:
                n = self._match(e[1], cur, "")
                if n is None:
                    break
                kids.append(n)
                if n.end == cur:
                    break  # a zero-length match: no progress (parsimonious stops here too)
                cur = n.end
            if k == "plus" and not kids:
                return None
            return PNode(name, t, pos, cur, kids, k)
        if k == "and":
            n = self._match(e[1], pos, "")
            return PNode(name, t, pos, pos, [], "and") if n is not None else None
        if k == "not":
            n = self._match(e[1], pos, "")
            if n is None:
                return PNode(name, t, pos, pos, [], "not")
            self._fail(pos)
            return None
        raise AssertionError("grammar node kind %r" % (k,))
