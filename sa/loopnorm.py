"""
Loop normalisation: three hand-written spellings of "for every element of X, in order" are rewritten into the `for` statement
they stand for, before a function is evaluated (sa/inline.py applies this to every function the rules evaluate).  The
abstract domains of the rules summarise a `for` over an abstract collection (a repetition of the body); a loop that walks the
same collection with an index or an explicit iterator says the same thing and must be read the same way.

  (A)  i = 0                                   (B)  it = iter(X)                      (C)  it = iter(X)
       while i < len(X):                            while True:                            while (e := next(it, S)) is not S:
           <body using X[i]>                            try:                                   <body>
           i += 1                                           e = next(it)
                                                        except StopIteration:
                                                            break
                                                        <body>

each becomes `for e in X: <body>` (A: every `X[i]` in the body replaced by the element) under conditions checked here that
make the rewriting exact; a fourth form, a plain counter - `i = 0; while i < N: <body>; i += 1` - becomes `for i in range(N)`:

  * A: `i` is stored nowhere in the loop but by the final `i += 1`, is initialised to the constant 0 by the statement right
    before the loop, is not used in the body other than as `X[i]`, and is not read after the loop (or the loop has an `else` -
    then it is left alone); the body has no `continue` (it would skip the step); X is a name or attribute chain that the body
    does not store to or mutate through a method call;
  * B / C: `it` is bound by `it = iter(X)` right before the loop, used nowhere else in the function; S (form C) is a name that
    is not stored in the function (a module-level sentinel);
  * an `else` clause of the `while` becomes the `else` clause of the `for` (both run when the loop ends without `break`);
    in form B the `break` of the `except StopIteration` handler *is* the normal end of the loop, so an `else` is not allowed
    there (it would not run in the original).
"""
from __future__ import annotations

import ast
import copy
from typing import Any, List, Optional, Sequence


def _names_loaded(node: ast.AST) -> List[str]:
    return [n.id for n in ast.walk(node) if isinstance(n, ast.Name) and isinstance(n.ctx, ast.Load)]


def _stores(node: ast.AST, name: str) -> bool:
    for n in ast.walk(node):
        if isinstance(n, ast.Name) and n.id == name and isinstance(n.ctx, (ast.Store, ast.Del)):
            return True
    return False


def _norm(e: ast.AST) -> str:
    return ast.unparse(e)


def _mutates(body: Sequence[ast.stmt], x: str) -> bool:
    """a store to / through X, or a method call on X that may change it"""
    MUT = {"append", "extend", "insert", "pop", "remove", "clear", "sort", "reverse", "update", "add", "discard", "setdefault", "popitem"}
    for st in body:
        for n in ast.walk(st):
            if isinstance(n, (ast.Assign, ast.AugAssign, ast.AnnAssign, ast.Delete)):
                tgs = n.targets if isinstance(n, (ast.Assign, ast.Delete)) else [n.target]
                for t in tgs:
                    for sub in ast.walk(t):
                        if _norm(sub) == x and not isinstance(sub, ast.Constant):
                            return True
            if isinstance(n, ast.Call) and isinstance(n.func, ast.Attribute) and n.func.attr in MUT and _norm(n.func.value) == x:
                return True
    return False


class _Replace(ast.NodeTransformer):
    def __init__(self, x: str, i: str, elem: str):
        self.x, self.i, self.elem = x, i, elem
        self.other_use = False

    def visit_Subscript(self, n: ast.Subscript) -> Any:
        if isinstance(n.ctx, ast.Load) and _norm(n.value) == self.x and isinstance(n.slice, ast.Name) and n.slice.id == self.i:
            return ast.copy_location(ast.Name(id=self.elem, ctx=ast.Load()), n)
        return self.generic_visit(n)

    def visit_Name(self, n: ast.Name) -> Any:
        if n.id == self.i:
            self.other_use = True
        return n


def _has(body: Sequence[ast.stmt], kinds: Any) -> bool:
    """a statement of one of the kinds that belongs to *this* loop (not to a nested loop or function)"""

    def rec(n: ast.AST) -> bool:
        if isinstance(n, kinds):
            return True
        if isinstance(n, (ast.For, ast.While, ast.FunctionDef, ast.AsyncFunctionDef, ast.Lambda, ast.ClassDef)):
            return False
        return any(rec(c) for c in ast.iter_child_nodes(n))

    return any(rec(st) for st in body)


def _try_index_form(prev: ast.stmt, w: ast.While, func: ast.AST, fresh: str) -> Optional[ast.For]:
    t = w.test
    if not (isinstance(t, ast.Compare) and len(t.ops) == 1 and isinstance(t.ops[0], ast.Lt) and isinstance(t.left, ast.Name)):
        return None
    i = t.left.id
    r = t.comparators[0]
    if not (isinstance(r, ast.Call) and isinstance(r.func, ast.Name) and r.func.id == "len" and len(r.args) == 1 and not r.keywords):
        return None
    xe = r.args[0]
    if not isinstance(xe, (ast.Name, ast.Attribute)):
        return None
    x = _norm(xe)
    if not (isinstance(prev, ast.Assign) and len(prev.targets) == 1 and isinstance(prev.targets[0], ast.Name) and prev.targets[0].id == i and isinstance(prev.value, ast.Constant) and prev.value.value == 0 and type(prev.value.value) is int):
        return None
    if w.orelse or not w.body:
        return None
    step = w.body[-1]
    if not (isinstance(step, ast.AugAssign) and isinstance(step.target, ast.Name) and step.target.id == i and isinstance(step.op, ast.Add) and isinstance(step.value, ast.Constant) and step.value.value == 1):
        return None
    body = list(w.body[:-1])
    if any(_stores(st, i) for st in body) or _has(body, (ast.Continue,)) or _mutates(body, x) or (isinstance(xe, ast.Name) and any(_stores(st, xe.id) for st in body)):
        return None
    def occurrences(n: ast.AST) -> int:
        return sum(1 for y in ast.walk(n) if isinstance(y, ast.Name) and y.id == i)

    if occurrences(func) != occurrences(prev) + occurrences(w):
        return None  # the counter is looked at outside the loop
    rep = _Replace(x, i, fresh)
    new_body = [rep.visit(copy.deepcopy(st)) for st in body]
    if rep.other_use:
        return None
    out = ast.For(target=ast.Name(id=fresh, ctx=ast.Store()), iter=copy.deepcopy(xe), body=new_body or [ast.Pass()], orelse=[], type_comment=None)
    return ast.copy_location(out, w)


def _try_counter_form(prev: ast.stmt, w: ast.While, func: ast.AST) -> Optional[ast.For]:
    """(D)  i = 0; while i < N: <body>; i += 1   ->   for i in range(N): <body>
    N a name / attribute chain / constant that the loop does not store to, i stored nowhere else in the loop and not looked at
    after it, no `continue` (it would skip the step), no `else`"""
    t = w.test
    if not (isinstance(t, ast.Compare) and len(t.ops) == 1 and isinstance(t.ops[0], ast.Lt) and isinstance(t.left, ast.Name)):
        return None
    i = t.left.id
    n_expr = t.comparators[0]
    if not isinstance(n_expr, (ast.Name, ast.Attribute, ast.Constant)):
        return None
    if not (isinstance(prev, ast.Assign) and len(prev.targets) == 1 and isinstance(prev.targets[0], ast.Name) and prev.targets[0].id == i and isinstance(prev.value, ast.Constant) and prev.value.value == 0 and type(prev.value.value) is int):
        return None
    if w.orelse or not w.body:
        return None
    step = w.body[-1]
    if not (isinstance(step, ast.AugAssign) and isinstance(step.target, ast.Name) and step.target.id == i and isinstance(step.op, ast.Add) and isinstance(step.value, ast.Constant) and step.value.value == 1):
        return None
    body = list(w.body[:-1])
    if any(_stores(st, i) for st in body) or _has(body, (ast.Continue,)):
        return None
    x = _norm(n_expr)
    if not isinstance(n_expr, ast.Constant) and (_mutates(body, x) or (isinstance(n_expr, ast.Name) and any(_stores(st, n_expr.id) for st in body))):
        return None

    def occurrences(n: ast.AST) -> int:
        return sum(1 for y in ast.walk(n) if isinstance(y, ast.Name) and y.id == i)

    if occurrences(func) != occurrences(prev) + occurrences(w):
        return None  # the counter is looked at outside the loop
    out = ast.For(target=ast.Name(id=i, ctx=ast.Store()), iter=ast.Call(func=ast.Name(id="range", ctx=ast.Load()), args=[copy.deepcopy(n_expr)], keywords=[]), body=copy.deepcopy(body) or [ast.Pass()], orelse=[], type_comment=None)
    return ast.copy_location(out, w)


def _iter_source(prev: ast.stmt) -> Optional[Any]:
    if isinstance(prev, ast.Assign) and len(prev.targets) == 1 and isinstance(prev.targets[0], ast.Name) and isinstance(prev.value, ast.Call) and isinstance(prev.value.func, ast.Name) and prev.value.func.id == "iter" and len(prev.value.args) == 1 and not prev.value.keywords:
        return prev.targets[0].id, prev.value.args[0]
    return None


def _uses_elsewhere(name: str, stmts: Sequence[ast.AST], allowed: int) -> bool:
    n = 0
    for st in stmts:
        for x in ast.walk(st):
            if isinstance(x, ast.Name) and x.id == name:
                n += 1
    return n > allowed


def _try_next_forms(prev: ast.stmt, w: ast.While, func: ast.AST, relaxed: bool = False) -> Optional[ast.For]:
    src = _iter_source(prev)
    if src is None:
        return None
    it, xe = src
    # the iterator is mentioned exactly twice in the function: where it is made and in the one next() of this loop
    if _uses_elsewhere(it, [func], 2):
        return None
    # form C: while (e := next(it, S)) is not S
    t = w.test
    if relaxed and isinstance(t, ast.Compare) and len(t.ops) == 1 and isinstance(t.ops[0], ast.IsNot) and isinstance(t.left, ast.NamedExpr) and isinstance(t.comparators[0], ast.Constant) and t.comparators[0].value is None:
        # (only for analyses that ask *in which order* elements are taken, not what happens at an element that is None)
        ne = t.left
        c = ne.value
        if isinstance(c, ast.Call) and isinstance(c.func, ast.Name) and c.func.id == "next" and len(c.args) == 2 and isinstance(c.args[0], ast.Name) and c.args[0].id == it and isinstance(c.args[1], ast.Constant) and c.args[1].value is None and isinstance(ne.target, ast.Name):
            out = ast.For(target=ast.Name(id=ne.target.id, ctx=ast.Store()), iter=copy.deepcopy(xe), body=copy.deepcopy(list(w.body)) or [ast.Pass()], orelse=copy.deepcopy(list(w.orelse)), type_comment=None)
            return ast.copy_location(out, w)
    if isinstance(t, ast.Compare) and len(t.ops) == 1 and isinstance(t.ops[0], ast.IsNot) and isinstance(t.left, ast.NamedExpr) and isinstance(t.comparators[0], ast.Name):
        ne, s = t.left, t.comparators[0].id
        c = ne.value
        if isinstance(c, ast.Call) and isinstance(c.func, ast.Name) and c.func.id == "next" and len(c.args) == 2 and isinstance(c.args[0], ast.Name) and c.args[0].id == it and isinstance(c.args[1], ast.Name) and c.args[1].id == s and isinstance(ne.target, ast.Name):
            if any(_stores(n_, s) for n_ in ast.walk(func) if isinstance(n_, ast.stmt)):
                return None
            out = ast.For(target=ast.Name(id=ne.target.id, ctx=ast.Store()), iter=copy.deepcopy(xe), body=copy.deepcopy(list(w.body)) or [ast.Pass()], orelse=copy.deepcopy(list(w.orelse)), type_comment=None)
            return ast.copy_location(out, w)
        return None
    # form B: while True: try: e = next(it) except StopIteration: break; <body>
    if isinstance(t, ast.Constant) and t.value is True and w.body and isinstance(w.body[0], ast.Try) and not w.orelse:
        tr = w.body[0]
        if len(tr.body) == 1 and not tr.orelse and not tr.finalbody and len(tr.handlers) == 1:
            st, h = tr.body[0], tr.handlers[0]
            ok_h = h.type is not None and _norm(h.type) == "StopIteration" and len(h.body) == 1 and isinstance(h.body[0], ast.Break)
            if ok_h and isinstance(st, ast.Assign) and len(st.targets) == 1 and isinstance(st.value, ast.Call) and isinstance(st.value.func, ast.Name) and st.value.func.id == "next" and len(st.value.args) == 1 and isinstance(st.value.args[0], ast.Name) and st.value.args[0].id == it:
                out = ast.For(target=copy.deepcopy(st.targets[0]), iter=copy.deepcopy(xe), body=copy.deepcopy(list(w.body[1:])) or [ast.Pass()], orelse=[], type_comment=None)
                return ast.copy_location(out, w)
    return None


def normalize_loops(func: ast.AST, relaxed: bool = False) -> int:
    """rewrites the body of the function in place; returns the number of loops rewritten"""
    count = [0]
    serial = [0]

    def block(stmts: List[ast.stmt]) -> List[ast.stmt]:
        out: List[ast.stmt] = []
        i = 0
        while i < len(stmts):
            st = stmts[i]
            for field in ("body", "orelse", "finalbody"):
                sub = getattr(st, field, None)
                if isinstance(sub, list) and sub and isinstance(sub[0], ast.stmt) and not isinstance(st, (ast.FunctionDef, ast.AsyncFunctionDef, ast.ClassDef)):
                    setattr(st, field, block(sub))
            if isinstance(st, ast.Try):
                for h in st.handlers:
                    h.body = block(h.body)
            if isinstance(st, ast.While) and out:
                prev = out[-1]
                serial[0] += 1
                new = _try_index_form(prev, st, func, "_el%d_" % serial[0]) or _try_next_forms(prev, st, func, relaxed) or _try_counter_form(prev, st, func)
                if new is not None:
                    out.pop()  # the initialisation of the counter / the iterator goes with the loop
                    out.append(new)
                    count[0] += 1
                    i += 1
                    continue
            out.append(st)
            i += 1
        return out

    if isinstance(func, (ast.FunctionDef, ast.AsyncFunctionDef)):
        func.body = block(func.body)
        if count[0]:
            ast.fix_missing_locations(func)
    return count[0]
