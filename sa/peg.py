"""
E7 -- model of the parsimonious PEG grammar (pydsdl/grammar.parsimonious).

A small recursive-descent reader for the notation used there: rules `name = expr`, sequences, ordered choice `/`,
quantifiers `? * +`, groups, "literals", ~r"regex" terminals, lookaheads `& !`, comments.  Provides the rule table,
per-rule structure, and (for non-recursive rules) a regular expression for the rule's language.
"""
from __future__ import annotations

import re
from typing import Any, Dict, List, Optional, Tuple

from .core import AnalysisError, Repo

# node := ('ref', name) | ('lit', text) | ('re', pattern) | ('seq', [nodes]) | ('alt', [nodes]) | ('opt', n) | ('star', n) | ('plus', n) | ('not', n) | ('and', n)
Node = Any


class Grammar:
    def __init__(self, text: str, path: str = "grammar.parsimonious"):
        self.text = text
        self.path = path
        self.rules: Dict[str, Node] = {}
        self.order: List[str] = []
        self.lines: Dict[str, int] = {}
        self._parse()

    @staticmethod
    def load(repo: Repo) -> "Grammar":
        p = repo.grammar_path
        if not p.exists():
            raise AnalysisError("grammar file missing: %s" % p)
        return Grammar(p.read_text(encoding="utf8"), str(p.relative_to(repo.root)))

    # ---- tokenizer
    def _tokens(self) -> List[Tuple[str, str, int]]:
        s = self.text
        i, n = 0, len(s)
        line = 1
        out: List[Tuple[str, str, int]] = []
        while i < n:
            c = s[i]
            if c == "\n":
                line += 1
                i += 1
                out.append(("nl", "\n", line))
                continue
            if c in " \t\r":
                i += 1
                continue
            if c == "#":
                while i < n and s[i] != "\n":
                    i += 1
                continue
            if c == "~":
                j = i + 1
                if j < n and s[j] in "rR":
                    j += 1
                q = s[j] if j < n else ""
                if q not in "\"'":
                    raise AnalysisError("grammar: bad regex at line %d" % line)
                k = j + 1
                while k < n and s[k] != q:
                    if s[k] == "\\":
                        k += 1
                    k += 1
                pat = s[j + 1 : k]
                k += 1
                flags = ""
                while k < n and s[k].isalpha() and s[k] in "ilmsuxa":
                    # flags follow immediately (no whitespace)
                    flags += s[k]
                    k += 1
                out.append(("re", pat if not flags else "(?%s)%s" % (flags, pat), line))
                i = k
                continue
            if c in "\"'":
                k = i + 1
                buf = ""
                while k < n and s[k] != c:
                    if s[k] == "\\" and k + 1 < n:
                        buf += {"n": "\n", "t": "\t", "r": "\r"}.get(s[k + 1], s[k + 1])
                        k += 2
                        continue
                    buf += s[k]
                    k += 1
                out.append(("lit", buf, line))
                i = k + 1
                continue
            if c.isalpha() or c == "_":
                k = i
                while k < n and (s[k].isalnum() or s[k] == "_"):
                    k += 1
                out.append(("id", s[i:k], line))
                i = k
                continue
            if c in "=/()?*+&!":
                out.append((c, c, line))
                i += 1
                continue
            raise AnalysisError("grammar: unexpected character %r at line %d" % (c, line))
        out.append(("eof", "", line))
        return out

    def _parse(self) -> None:
        toks = [t for t in self._tokens()]
        # a rule starts at an identifier followed by '='
        starts = [i for i, t in enumerate(toks) if t[0] == "id" and self._next_non_nl(toks, i + 1)[0] == "="]
        for si, start in enumerate(starts):
            end = starts[si + 1] if si + 1 < len(starts) else len(toks) - 1
            name = toks[start][1]
            body = [t for t in toks[start + 1 : end] if t[0] != "nl"]
            if not body or body[0][0] != "=":
                raise AnalysisError("grammar: malformed rule %s" % name)
            self.pos = 0
            self.cur = body[1:] + [("eof", "", toks[start][2])]
            node = self._alt()
            if self.cur[self.pos][0] != "eof":
                raise AnalysisError("grammar: trailing tokens in rule %s: %r" % (name, self.cur[self.pos]))
            if name in self.rules:
                raise AnalysisError("grammar: duplicate rule %s" % name)
            self.rules[name] = node
            self.order.append(name)
            self.lines[name] = toks[start][2]

    @staticmethod
    def _next_non_nl(toks: List[Tuple[str, str, int]], i: int) -> Tuple[str, str, int]:
        while i < len(toks) and toks[i][0] == "nl":
            i += 1
        return toks[i] if i < len(toks) else ("eof", "", 0)

    def _peek(self) -> Tuple[str, str, int]:
        return self.cur[self.pos]

    def _alt(self) -> Node:
        alts = [self._seq()]
        while self._peek()[0] == "/":
            self.pos += 1
            alts.append(self._seq())
        return alts[0] if len(alts) == 1 else ("alt", alts)

    def _seq(self) -> Node:
        items = []
        while self._peek()[0] in ("id", "lit", "re", "(", "&", "!"):
            items.append(self._term())
        if not items:
            raise AnalysisError("grammar: empty sequence near line %d" % self._peek()[2])
        return items[0] if len(items) == 1 else ("seq", items)

    def _term(self) -> Node:
        t = self._peek()
        if t[0] in ("&", "!"):
            self.pos += 1
            inner = self._term()
            return ("and" if t[0] == "&" else "not", inner)
        if t[0] == "(":
            self.pos += 1
            node = self._alt()
            if self._peek()[0] != ")":
                raise AnalysisError("grammar: missing ')' near line %d" % t[2])
            self.pos += 1
        elif t[0] == "id":
            self.pos += 1
            node = ("ref", t[1])
        elif t[0] == "lit":
            self.pos += 1
            node = ("lit", t[1])
        elif t[0] == "re":
            self.pos += 1
            node = ("re", t[1])
        else:
            raise AnalysisError("grammar: unexpected token %r" % (t,))
        q = self._peek()[0]
        if q in ("?", "*", "+"):
            self.pos += 1
            node = ({"?": "opt", "*": "star", "+": "plus"}[q], node)
        return node

    # ---- queries
    def rule(self, name: str) -> Node:
        if name not in self.rules:
            raise AnalysisError("grammar rule %s missing" % name)
        return self.rules[name]

    def refs(self, node: Node) -> List[str]:
        out: List[str] = []

        def rec(n: Node) -> None:
            if n[0] == "ref":
                out.append(n[1])
            elif n[0] in ("seq", "alt"):
                for x in n[1]:
                    rec(x)
            elif n[0] in ("opt", "star", "plus", "not", "and"):
                rec(n[1])

        rec(node)
        return out

    def is_terminal(self, name: str) -> bool:
        n = self.rules.get(name)
        return n is not None and n[0] in ("lit", "re")

    def terminals(self) -> Dict[str, Node]:
        return {k: v for k, v in self.rules.items() if v[0] in ("lit", "re")}

    def regex_of(self, node: Node, stack: Tuple[str, ...] = ()) -> Optional[str]:
        """Regular expression of the node's language; None if it is recursive or uses lookaheads."""
        t = node[0]
        if t == "lit":
            return re.escape(node[1])
        if t == "re":
            return "(?:%s)" % node[1]
        if t == "ref":
            if node[1] in stack or node[1] not in self.rules:
                return None
            return self.regex_of(self.rules[node[1]], stack + (node[1],))
        if t == "seq":
            parts = [self.regex_of(x, stack) for x in node[1]]
            return None if any(p is None for p in parts) else "".join("(?:%s)" % p for p in parts)  # type: ignore
        if t == "alt":
            # ordered choice on a *complete* match of the rule: the language is contained in the union (an upper bound,
            # which is the safe direction for "every matched text is valid input for the consumer")
            parts = [self.regex_of(x, stack) for x in node[1]]
            return None if any(p is None for p in parts) else "(?:%s)" % "|".join("(?:%s)" % p for p in parts)  # type: ignore
        if t in ("opt", "star", "plus"):
            p = self.regex_of(node[1], stack)
            return None if p is None else "(?:%s)%s" % (p, {"opt": "?", "star": "*", "plus": "+"}[t])
        return None

    def terminal_language(self, name: str) -> Optional[str]:
        if name not in self.rules:
            return None
        return self.regex_of(("ref", name))

    def show(self, node: Node) -> str:
        t = node[0]
        if t == "ref":
            return node[1]
        if t == "lit":
            return '"%s"' % node[1]
        if t == "re":
            return "~r\"%s\"" % node[1]
        if t == "seq":
            return " ".join(self.show(x) if x[0] != "alt" else "(%s)" % self.show(x) for x in node[1])
        if t == "alt":
            return " / ".join(self.show(x) for x in node[1])
        inner = self.show(node[1])
        if node[1][0] in ("seq", "alt"):
            inner = "(%s)" % inner
        return {"opt": "%s?", "star": "%s*", "plus": "%s+", "not": "!%s", "and": "&%s"}[t] % inner
