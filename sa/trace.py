"""
E8 (part 2) -- layout traces of the codec and of the offset iterators.

Statements that touch the bit writer / reader / offset accumulator are mapped, in program order, to events of a tiny
trace language; writer and reader calls map to the *same* events, so sibling implementations can be compared
event-for-event and against the layout model:

    ALIGN(x)          writer.align_to(x) / reader.align_to(x) / offset.pad_to_alignment(x)
    BITS(n)           writer.write_bits(v, n) / reader.read_bits(n)
    EMIT(t)           recursive (de)serialization of a value of type expression t / offset + t.bit_length_set
    YIELD(f)          yield f, offset
    FOR v in it [..]  loop
    IF c [..] [..]    branch that stays inside the trace (e.g. padding vs ordinary field)

Operands are canonical texts after substitution of single-assignment locals and typing.cast().  Nothing is executed.
"""
from __future__ import annotations

import ast
from typing import Any, Dict, List, Optional, Sequence, Tuple

from .core import AnalysisError, dotted, norm

EMITTERS = {
    "_serialize_field_value": 1, "_deserialize_field_value": 1,
    "_serialize_element": 1, "_deserialize_element": 1,
    "_serialize_composite": 1, "_deserialize_composite": 1,
    "_serialize_array": 1, "_deserialize_array": 1,
    "_serialize_primitive": 1, "_deserialize_primitive": 1,
}
IO_NAMES = {"writer", "reader", "temp_writer", "sub_reader", "inner_writer"}


def _uncast(e: ast.AST) -> ast.AST:
    while isinstance(e, ast.Call) and (dotted(e.func) or "").endswith("cast") and len(e.args) == 2:
        e = e.args[1]
    return e


class Tracer:
    def __init__(self, io_names: Sequence[str] = tuple(IO_NAMES)):
        self.io = set(io_names)
        self.env: Dict[str, ast.AST] = {}

    def canon(self, e: ast.AST) -> str:
        from .decide import substitute

        e2 = substitute(e, {k: v for k, v in self.env.items()})
        # strip typing.cast wrappers
        class T(ast.NodeTransformer):
            def visit_Call(self, n: ast.Call) -> ast.AST:
                n = self.generic_visit(n)  # type: ignore
                if (dotted(n.func) or "").endswith("cast") and len(n.args) == 2:
                    return n.args[1]
                return n

        return norm(T().visit(e2))

    def events(self, stmts: Sequence[ast.stmt]) -> List[Any]:
        out: List[Any] = []
        for st in stmts:
            out.extend(self._stmt(st))
        return out

    def _calls_in_order(self, e: ast.AST) -> List[ast.Call]:
        res: List[ast.Call] = []

        def rec(n: ast.AST) -> None:
            if isinstance(n, ast.Lambda):
                return
            for ch in ast.iter_child_nodes(n):
                rec(ch)
            if isinstance(n, ast.Call):
                res.append(n)

        rec(e)
        return res

    def _expr_events(self, e: ast.AST) -> List[Any]:
        out = []
        for c in self._calls_in_order(e):
            f = c.func
            if isinstance(f, ast.Attribute) and isinstance(f.value, ast.Name) and f.value.id in self.io:
                io = f.value.id
                sub = "" if io in ("writer", "reader") else "@" + io
                if f.attr == "align_to" and len(c.args) == 1:
                    out.append("ALIGN%s(%s)" % (sub, self.canon(c.args[0])))
                elif f.attr == "write_bits" and len(c.args) == 2:
                    out.append("BITS%s(%s)" % (sub, self.canon(c.args[1])))
                elif f.attr == "read_bits" and len(c.args) == 1:
                    out.append("BITS%s(%s)" % (sub, self.canon(c.args[0])))
                elif f.attr == "bounded_subreader":
                    out.append("SUBREADER(%s)" % self.canon(c.args[0]))
                elif f.attr == "finish":
                    out.append("FINISH%s" % sub)
            else:
                name = (dotted(f) or "").split(".")[-1]
                if name in EMITTERS and len(c.args) >= 2 and isinstance(c.args[0], ast.Name) and c.args[0].id in self.io:
                    io = c.args[0].id
                    sub = "" if io in ("writer", "reader") else "@" + io
                    out.append("EMIT%s(%s)" % (sub, self.canon(c.args[1])))
        return out

    def _stmt(self, st: ast.stmt) -> List[Any]:
        if isinstance(st, ast.Assign) and len(st.targets) == 1 and isinstance(st.targets[0], ast.Name):
            ev = self._expr_events(st.value)
            if not ev and st.targets[0].id not in self.io:
                # single-assignment local: remember for canonicalisation
                self.env[st.targets[0].id] = _uncast(st.value)
            return ev
        if isinstance(st, (ast.Expr, ast.Return, ast.Assign, ast.AugAssign, ast.AnnAssign)):
            v = getattr(st, "value", None)
            return self._expr_events(v) if v is not None else []
        if isinstance(st, ast.For):
            body = self.events(st.body)
            if body:
                return [("FOR", norm(st.target), self.canon(st.iter), body)]
            return []
        if isinstance(st, ast.If):
            t = self._expr_events(st.test)
            a = self.events(st.body)
            b = self.events(st.orelse)
            if a or b:
                return t + [("IF", self.canon(st.test), a, b)]
            return t
        if isinstance(st, ast.Try):
            return self.events(st.body)
        if isinstance(st, ast.With):
            return self.events(st.body)
        return []


def show(ev: Any) -> str:
    if isinstance(ev, str):
        return ev
    if ev[0] == "FOR":
        return "FOR %s in %s [%s]" % (ev[1], ev[2], ", ".join(show(x) for x in ev[3]))
    if ev[0] == "IF":
        return "IF %s [%s] [%s]" % (ev[1], ", ".join(show(x) for x in ev[2]), ", ".join(show(x) for x in ev[3]))
    return str(ev)


def show_all(evs: Sequence[Any]) -> str:
    return "; ".join(show(e) for e in evs)


def isinstance_branches(fn_node: ast.FunctionDef, subject: str) -> List[Tuple[List[str], List[ast.stmt]]]:
    """the top-level if/elif chain on isinstance(subject, K): [(class names, body)], with ([], else-body) last"""
    chain: List[Tuple[List[str], List[ast.stmt]]] = []
    for st in fn_node.body:
        if isinstance(st, ast.If) and _is_isinstance(st.test, subject):
            cur: Optional[ast.If] = st
            while cur is not None:
                ks = _isinstance_classes(cur.test, subject)
                if ks is None:
                    break
                chain.append((ks, cur.body))
                if len(cur.orelse) == 1 and isinstance(cur.orelse[0], ast.If) and _is_isinstance(cur.orelse[0].test, subject):
                    cur = cur.orelse[0]
                else:
                    chain.append(([], cur.orelse))
                    cur = None
            break
    return chain


def _is_isinstance(t: ast.AST, subject: str) -> bool:
    return isinstance(t, ast.Call) and dotted(t.func) == "isinstance" and len(t.args) == 2 and norm(t.args[0]) == subject


def _isinstance_classes(t: ast.AST, subject: str) -> Optional[List[str]]:
    if not _is_isinstance(t, subject):
        return None
    k = t.args[1]  # type: ignore
    ks = k.elts if isinstance(k, ast.Tuple) else [k]
    return [(dotted(x) or "?").split(".")[-1] for x in ks]
