"""
Abstract model of the codec's surroundings, for evaluating the functions of `_serdes` without running them:

  AWriter / AReader   stand for _BitWriter / _BitReader: write_bits / read_bits / align_to / bounded_subreader / finish record
                      *events* in a shared sink instead of moving bits; what a reader returns is an abstract integer
  schema objects      `Sym` records with the public attributes of the model's types and an `_isa_` set taken from the real
                      class hierarchy, so that the codec's isinstance dispatch decides as it would on the real classes;
                      *opaque* nested types stand for "any type of this kind and alignment": a codec call on an opaque type
                      is recorded as EMIT(type) and not entered
  explore_codec       all abstract runs of one codec function (branches on abstract integers are explored both ways)

Events:  ('BITS', io, width[, value])  ('ALIGN', io, a)  ('EMIT', io, type-name[, value])  ('SUB', io, bit-count-expr)
         ('REPEAT', count-expr, [events])  ('COPY', io, source-writer)  ('NEW', io)
"""
from __future__ import annotations

import ast
from typing import Any, Callable, Dict, List, Optional, Sequence, Tuple

from .absint import Evaluator, Raised, body_without_docstring_
from .core import AnalysisError, ClassInfo, Ctx, FuncInfo, dotted, norm
from .fold import Abstract, Folder, Sym, Unfoldable
from .layout import AbsBool, AbsInt, NotLayout, explore

SD = "_serdes"


class Sink:
    def __init__(self) -> None:
        self.stack: List[List[Any]] = [[]]
        self.counter = 0

    def emit(self, ev: Any) -> None:
        self.stack[-1].append(ev)

    def begin(self) -> None:
        self.stack.append([])

    def end(self, head: Any) -> None:
        body = self.stack.pop()
        self.emit(head + (body,))

    def fresh(self, what: str) -> str:
        self.counter += 1
        return "%s%d" % (what, self.counter)

    @property
    def events(self) -> List[Any]:
        return self.stack[0]


class AbsRange(Abstract):
    """range(<abstract count>): the body is evaluated once, as the representative of `count` iterations"""

    def __init__(self, sink: Sink, count: Any):
        self.sink = sink
        self.count = count

    def loop_items(self) -> List[Any]:
        return [AbsInt(("iteration-of", _x(self.count)))]

    def loop_begin(self) -> None:
        self.sink.begin()

    def loop_end(self) -> None:
        self.sink.end(("REPEAT", _x(self.count)))

    def __iter__(self) -> Any:
        """walked by hand (iter() / next() / a comprehension) instead of by a `for` statement: one run per count, the count
        decided by comparing it with 0, 1, 2 ... (the facts assumed before - e.g. count <= capacity - end the questions)"""
        i = 0
        while True:
            more = (self.count > i) if isinstance(self.count, AbsInt) else (self.count > i)
            if not more:
                return
            yield i
            i += 1
            if i > 4096:
                raise Unfoldable("an abstract count is enumerated without a known bound")


def _x(v: Any) -> Any:
    return v.expr if isinstance(v, (AbsInt, AbsBool)) else v


class ABytes(Abstract):
    """the bytes a writer produced"""

    def __init__(self, sink: Sink, origin: str):
        self.sink = sink
        self.origin = origin

    def abs_len(self) -> AbsInt:
        return AbsInt(("byte-length-of", self.origin))

    def loop_items(self) -> List[Any]:
        return [AbsInt(("byte-of", self.origin))]

    def loop_begin(self) -> None:
        self.sink.begin()

    def loop_end(self) -> None:
        self.sink.end(("REPEAT", ("byte-length-of", self.origin)))

    def __repr__(self) -> str:
        return "<bytes of %s>" % self.origin


class AData(Abstract):
    """the input bytes handed to deserialize(): their length is unknown; anything built from them (a padded or sliced copy) is a
    different buffer and says so"""

    def __init__(self, what: Any = "data"):
        self._data_ = what
        self._kind_ = "bytes"

    def abs_len(self) -> AbsInt:
        return AbsInt(("byte-length-of", self._data_))

    def ljust(self, n: Any, fill: Any = b" ") -> "AData":
        return AData(("padded", self._data_, _x(n)))

    def rjust(self, n: Any, fill: Any = b" ") -> "AData":
        return AData(("padded-left", self._data_, _x(n)))

    def __add__(self, o: Any) -> "AData":
        return AData(("extended", self._data_))

    def __radd__(self, o: Any) -> "AData":
        return AData(("extended", self._data_))

    def __getitem__(self, i: Any) -> Any:
        return AData(("part", self._data_)) if isinstance(i, slice) else AbsInt(("byte-of", self._data_))

    def __repr__(self) -> str:
        return "<%s>" % (self._data_,)


class AWriter(Abstract):
    def __init__(self, sink: Sink, name: Optional[str] = None):
        self.sink = sink
        self.name = name or sink.fresh("w")
        sink.emit(("NEW", self.name))

    def write_bits(self, value: Any, bit_length: Any) -> None:
        self.sink.emit(("BITS", self.name, _x(bit_length), _x(value)))

    def align_to(self, a: Any) -> None:
        self.sink.emit(("ALIGN", self.name, _x(a)))

    def finish(self) -> ABytes:
        return ABytes(self.sink, self.name)

    @property
    def bit_offset(self) -> AbsInt:
        return AbsInt(("offset-of", self.name))


class AReader(Abstract):
    def __init__(self, sink: Sink, name: Optional[str] = None):
        self.sink = sink
        self.name = name or sink.fresh("r")

    def read_bits(self, bit_length: Any) -> AbsInt:
        k = self.sink.fresh("v")
        self.sink.emit(("BITS", self.name, _x(bit_length), k))
        return AbsInt(("read", k))

    def align_to(self, a: Any) -> None:
        self.sink.emit(("ALIGN", self.name, _x(a)))

    def bounded_subreader(self, bit_count: Any) -> "AReader":
        sub = AReader(self.sink, self.name + "/sub")
        self.sink.emit(("SUB", self.name, _x(bit_count)))
        return sub

    @property
    def remaining_bits(self) -> AbsInt:
        return AbsInt(("remaining", self.name))

    @property
    def bit_offset(self) -> AbsInt:
        return AbsInt(("offset-of", self.name))


# ----------------------------------------------------------------------------------------------------------------------
def isa_of(ctx: Ctx, cls_short: str) -> frozenset:
    c = ctx.cls(cls_short)
    names = set()
    for b in ctx.repo.mro(c):
        names.add(getattr(b, "name", None) or getattr(b, "dotted", "").split(".")[-1])
    return frozenset(n for n in names if n)


SER = "_serializable."
KINDS = {
    "BooleanType": SER + "_primitive.BooleanType",
    "UnsignedIntegerType": SER + "_primitive.UnsignedIntegerType",
    "SignedIntegerType": SER + "_primitive.SignedIntegerType",
    "FloatType": SER + "_primitive.FloatType",
    "ByteType": SER + "_primitive.ByteType",
    "UTF8Type": SER + "_primitive.UTF8Type",
    "VoidType": SER + "_void.VoidType",
    "FixedLengthArrayType": SER + "_array.FixedLengthArrayType",
    "VariableLengthArrayType": SER + "_array.VariableLengthArrayType",
    "StructureType": SER + "_composite.StructureType",
    "UnionType": SER + "_composite.UnionType",
    "DelimitedType": SER + "_composite.DelimitedType",
    "ServiceType": SER + "_composite.ServiceType",
}


def type_sym(ctx: Ctx, kind: str, **attrs: Any) -> Sym:
    s = Sym(_isa_=isa_of(ctx, KINDS[kind]), _kind_=kind, **attrs)
    if "bit_length_set" not in attrs:
        # the length set of the type: an unknown set (its min / max are abstract integers, not the length of a value)
        from .layout import TBls

        s.bit_length_set = TBls.var(str(attrs.get("full_name") or attrs.get("name") or kind), int(attrs.get("alignment_requirement", 1) or 1))
    return s


def opaque(ctx: Ctx, kind: str, name: str, alignment: int) -> Sym:
    """a nested type the codec is not to be entered for"""
    return type_sym(ctx, kind, _opaque_=True, name=name, alignment_requirement=alignment, full_name=name)


def field_sym(ctx: Ctx, name: str, data_type: Sym, padding: bool = False) -> Sym:
    isa = isa_of(ctx, SER + "_attribute.PaddingField" if padding else SER + "_attribute.Field")
    return Sym(_isa_=isa, _kind_="PaddingField" if padding else "Field", name=name, data_type=data_type)


def structure(ctx: Ctx, fields: List[Sym], name: str = "S") -> Sym:
    al = max([8] + [f.data_type.alignment_requirement for f in fields])
    return type_sym(ctx, "StructureType", fields=fields, fields_except_padding=[f for f in fields if "PaddingField" not in f._isa_], alignment_requirement=al, full_name=name, name=name, extent=8 * 97)


def union(ctx: Ctx, fields: List[Sym], tag_width: int = 8, name: str = "U") -> Sym:
    al = max([8] + [f.data_type.alignment_requirement for f in fields])
    return type_sym(ctx, "UnionType", fields=fields, fields_except_padding=list(fields), alignment_requirement=al, full_name=name, name=name, tag_field_type=Sym(bit_length=tag_width, alignment_requirement=1), extent=8 * 89)


def delimited(ctx: Ctx, inner: Sym, name: str = "D") -> Sym:
    return type_sym(ctx, "DelimitedType", inner_type=inner, alignment_requirement=inner.alignment_requirement, full_name=name, name=name, delimiter_header_type=Sym(bit_length=32, alignment_requirement=1), fields=inner.fields, fields_except_padding=inner.fields_except_padding, extent=8 * 211)


# ----------------------------------------------------------------------------------------------------------------------
class CodecRun:
    def __init__(self, assumptions: List[Tuple[Any, Any]], events: List[Any], result: Any, raised: Optional[str]):
        self.assumptions = assumptions
        self.events = events
        self.result = result
        self.raised = raised

    def __repr__(self) -> str:
        return "<run %s -> %s | %s>" % (self.assumptions, self.raised or self.result, self.events)


def codec_hook(ctx: Ctx, sink: Sink, enter: Callable[[str, List[Any]], bool], chain: Optional[List[str]] = None) -> Callable[[ast.expr, Folder], Any]:
    """
    How the evaluation treats the calls it meets inside _serdes:
      _BitWriter() / _BitReader(..)      -> a new abstract writer / reader on the same sink
      range(<abstract>)                  -> representative iteration
      f(io, <opaque type>, ...)          -> EMIT, not entered;  f in _serdes otherwise -> entered if `enter(name, args)`
    """
    repo = ctx.repo
    mod = repo.module(SD)
    chain = chain or []
    from .rules.c05 import enum_hook

    eh = enum_hook(ctx, mod, None)

    def hook(e: ast.expr, f: Folder) -> Any:
        if isinstance(e, ast.Attribute):
            if dotted(e) == "math.inf":
                return float("inf")
            r = eh(e, f)
            if r is not NotImplemented:
                return r
        if not isinstance(e, ast.Call):
            return NotImplemented
        if isinstance(e.func, (ast.Call, ast.Subscript)):
            # a codec routine *selected* for a type (a dispatcher / table look-up on the type) and then applied to the reader /
            # writer and that type: for an opaque type the selection answered with a token naming the type - applying it is the
            # hand-over of that type to its codec, as if the routine had been called by name
            try:
                sel = f.fold(e.func)
            except Unfoldable:
                sel = NotImplemented
            if isinstance(sel, tuple) and len(sel) == 3 and isinstance(sel[0], str) and sel[0].endswith("-OF"):
                args_ = [f.fold(a) for a in e.args]
                io_ = next((a for a in args_ if isinstance(a, (AWriter, AReader))), None)
                ty_ = next((a for a in args_ if isinstance(a, Sym) and hasattr(a, "_isa_") and "SerializableType" in a._isa_), None)
                if io_ is not None and ty_ is not None and getattr(ty_, "_opaque_", False) and ty_.name == sel[1]:
                    val_ = next((a for a in args_ if a is not io_ and a is not ty_), None)
                    if isinstance(io_, AWriter):
                        sink.emit(("EMIT", io_.name, ty_.name, _x(val_)))
                        return None
                    k_ = sink.fresh("v")
                    sink.emit(("EMIT", io_.name, ty_.name, k_))
                    return ("VALUE", k_)
            return NotImplemented
        name = dotted(e.func) or ""
        last = name.split(".")[-1]
        if last == "_BitWriter" and not e.args:
            return AWriter(sink)
        if last == "_BitReader":
            # what the reader is built over: the caller's data as given (converted by bytes() or not), or something made of it
            src_ = f.fold(e.args[0]) if e.args else None
            what_ = getattr(src_, "_data_", None) or ("data" if getattr(src_, "_kind_", None) == "bytes" else None)
            sink.emit(("READER-OVER", what_ if what_ is not None else "?"))
            return AReader(sink)
        if name == "range" and len(e.args) == 1:
            v = f.fold(e.args[0])
            if isinstance(v, AbsInt):
                return AbsRange(sink, v)
            return NotImplemented
        if name in ("bytes", "bytearray") and len(e.args) == 1:
            v = f.fold(e.args[0])
            if isinstance(v, (Abstract,)):
                return v
            if isinstance(v, (list, tuple)) and any(isinstance(x, (Abstract, tuple)) for x in v):
                return list(v)  # bytes built from values read off the wire
            if isinstance(v, (list, tuple, bytes, bytearray)):
                try:
                    return bytes(v) if name == "bytes" else bytearray(v)
                except (ValueError, TypeError) as ex:
                    raise Raised(type(ex).__name__, e)
            return NotImplemented
        if name in ("struct.pack", "pack") and len(e.args) == 2:
            import struct as _st

            fmt = f.fold(e.args[0])
            val = f.fold(e.args[1])
            try:
                n = _st.calcsize(fmt)
            except Exception:
                raise Unfoldable("struct format %r" % (fmt,))
            if isinstance(val, (int, float)) and not isinstance(val, (bool, Abstract)):
                # a concrete operand: packing succeeds or overflows as the real call would; the bytes stay symbolic, the term
                # names the value packed
                try:
                    _st.pack(fmt, val)
                except OverflowError:
                    raise Raised("OverflowError", e)
                except _st.error:
                    raise Raised("struct.error", e)
                return [AbsInt(("packed-byte", fmt, i, val)) for i in range(n)]
            return [AbsInt(("packed-byte", fmt, i)) for i in range(n)]
        if name in ("struct.unpack", "unpack") and len(e.args) == 2:
            fmt = f.fold(e.args[0])
            data = f.fold(e.args[1])
            return [("UNPACKED", fmt, len(data) if isinstance(data, (list, tuple, bytes, bytearray)) else data)]
        if name == "bytearray" and not e.args:
            return []
        if name == "float" and len(e.args) == 1:
            v = f.fold(e.args[0])
            if isinstance(v, (int, float, str)) and not isinstance(v, Abstract):
                try:
                    return float(v)
                except (ValueError, OverflowError) as ex:
                    raise Raised(type(ex).__name__, e)
            return NotImplemented
        if name in ("math.isnan", "math.isinf", "math.copysign", "math.isfinite") and all(not isinstance(a, ast.Starred) for a in e.args):
            import math as _m

            vals = [f.fold(a) for a in e.args]
            if all(isinstance(v, (int, float)) for v in vals):
                return getattr(_m, name.split(".")[1])(*vals)
            return NotImplemented
        fn = mod.functions.get(last) if isinstance(e.func, ast.Name) else None
        if fn is None and isinstance(e.func, ast.Name) and last not in f.env:
            # a codec function that lives in a satellite module of the codec and is imported under its name
            r_ = ctx.repo.module_member((f.mod or mod).name, last)
            if type(r_).__name__ == "FuncInfo" and r_.cls is None and r_.module.name in ctx.repo.with_satellites(["_serdes"]):
                fn = r_
        if fn is None:
            return NotImplemented
        args = [f.fold(a) for a in e.args]
        kwargs = {k.arg: f.fold(k.value) for k in e.keywords if k.arg}
        io = next((a for a in args if isinstance(a, (AWriter, AReader))), None)
        ty = next((a for a in args if isinstance(a, Sym) and hasattr(a, "_isa_") and "SerializableType" in a._isa_), None)
        def inspects(fn_: Any, value: Any) -> bool:
            """does the callee look at the type it is handed (dispatch on its class, read its attributes)?  A helper that merely
            passes the type on (a loop over elements, a wrapper) is entered like any other function"""
            params = [x.arg for x in fn_.node.args.posonlyargs + fn_.node.args.args]
            idx = next((i for i, a in enumerate(args) if a is value), None)
            name_ = params[idx] if idx is not None and idx < len(params) else next((k for k, v in kwargs.items() if v is value), None)
            if name_ is None:
                return True
            for n_ in ast.walk(fn_.node):
                if isinstance(n_, ast.Call) and dotted(n_.func) in ("isinstance", "type") and n_.args and isinstance(n_.args[0], ast.Name) and n_.args[0].id == name_:
                    return True
                if isinstance(n_, ast.Attribute) and isinstance(n_.value, ast.Name) and n_.value.id == name_:
                    return True
            return False

        if ty is not None and getattr(ty, "_opaque_", False) and inspects(fn, ty):
            val = next((a for a in args if a is not io and a is not ty), None)
            if last == "_default_value":
                return ("DEFAULT-OF", ty.name)
            if io is None:
                return ("%s-OF" % last.strip("_").upper(), ty.name, val)
            if isinstance(io, AWriter):
                sink.emit(("EMIT", io.name, ty.name, _x(val)))
                return None
            k = sink.fresh("v")
            sink.emit(("EMIT", io.name, ty.name, k))
            return ("VALUE", k)
        verdict = enter(last, args)
        if verdict == "record":
            # routing is what is asked for: note which codec function the type was handed to, do not enter it
            sink.emit(("CALL", last, getattr(ty, "_kind_", "?")))
            return ("RESULT-OF", last)
        if not verdict or len(chain) > 12:
            raise Unfoldable("call of %s is outside this evaluation" % last)
        return call_function(ctx, fn, args, kwargs, sink, enter, chain + [last])

    return hook


def call_function(ctx: Ctx, fn: FuncInfo, args: List[Any], kwargs: Dict[str, Any], sink: Sink, enter: Callable[[str, List[Any]], bool], chain: List[str]) -> Any:
    node = ctx.inl(fn, keep=tuple(ctx.repo.module(SD).functions))
    a = node.args
    params = [x.arg for x in a.posonlyargs + a.args]
    env: Dict[str, Any] = dict(zip(params, args))
    env.update(kwargs)
    defaults = dict(zip(reversed(params), reversed(a.defaults)))
    kwdefaults = dict(zip([x.arg for x in a.kwonlyargs], a.kw_defaults))
    for p_ in params + [x.arg for x in a.kwonlyargs]:
        if p_ not in env:
            d = defaults.get(p_, kwdefaults.get(p_))
            if d is None:
                raise Unfoldable("argument %s of %s not given" % (p_, fn.name))
            env[p_] = Folder({}, ctx.repo, fn.module, None).fold(d)
    ev = Evaluator(env, ctx.repo, fn.module, None, codec_hook(ctx, sink, enter, chain))
    r = ev.run(body_without_docstring_(node))
    if any(isinstance(n, (ast.Yield, ast.YieldFrom)) for n in ast.walk(node)):
        return list(ev.yielded)  # a generator, evaluated eagerly
    return r


def explore_codec(ctx: Ctx, fname: str, make_args: Callable[[Sink], Tuple[List[Any], Dict[str, Any]]], enter: Optional[Callable[[str, List[Any]], bool]] = None) -> List[CodecRun]:
    """all abstract runs of _serdes.<fname> on the arguments built by make_args(sink)"""
    fn = ctx.func(SD + "." + fname)
    enter = enter or (lambda name, args: True)

    def run() -> Any:
        sink = Sink()
        args, kwargs = make_args(sink)
        try:
            r = call_function(ctx, fn, args, kwargs, sink, enter, [fname])
            return sink.events, r, None
        except Raised as ex:
            return sink.events, None, ex.cls_name

    try:
        runs = explore(run, max_runs=1024)
    except (Unfoldable, NotLayout) as ex:
        raise AnalysisError("_serdes.%s: cannot evaluate over the abstract codec model: %s" % (fname, ex))
    return [CodecRun(a, ev, r, raised) for a, (ev, r, raised) in runs]


# ----------------------------------------------------------------------------------------------------------------------
def normalize(events: Sequence[Any], values: bool = False) -> List[Any]:
    """drop no-ops (ALIGN to 1, NEW), values unless asked for; a byte-by-byte copy of another writer's output -> COPY"""
    out: List[Any] = []
    for ev in events:
        k = ev[0]
        if k in ("NEW", "READER-OVER"):
            continue
        if k == "ALIGN":
            if ev[2] == 1:
                continue
            out.append(("ALIGN", ev[1], ev[2]))
        elif k == "BITS":
            out.append(("BITS", ev[1], ev[2]) + ((ev[3],) if values and len(ev) > 3 else ()))
        elif k == "EMIT":
            out.append(("EMIT", ev[1], ev[2]) + ((ev[3],) if values and len(ev) > 3 else ()))
        elif k == "REPEAT":
            body = normalize(ev[2], True)
            cnt = ev[1]
            if isinstance(cnt, tuple) and cnt[0] == "byte-length-of" and len(body) == 1 and body[0][0] == "BITS" and body[0][2] == 8 and body[0][3] == ("byte-of", cnt[1]):
                out.append(("COPY", body[0][1], cnt[1]))
            else:
                out.append(("REPEAT", cnt, normalize(ev[2], values)))
        else:
            out.append(ev)
    return out


def of_io(events: Sequence[Any], io: str) -> List[Any]:
    """the events of one writer / reader, io name removed"""
    out = []
    for ev in events:
        if ev[0] == "REPEAT":
            inner = of_io(ev[2], io)
            if inner:
                out.append(("REPEAT", ev[1], inner))
        elif len(ev) > 1 and ev[1] == io:
            out.append((ev[0],) + tuple(ev[2:]))
    return out


def show(events: Sequence[Any]) -> str:
    def one(ev: Any) -> str:
        if ev[0] == "REPEAT":
            return "REPEAT(%s)[%s]" % (ev[1], show(ev[2]))
        return "%s(%s)" % (ev[0], ", ".join(str(x) for x in ev[1:]))

    return "; ".join(one(e) for e in events)


# ----------------------------------------------------------------------------------------------------------------------
def eval_abs(expr: Any, val: Dict[Any, int]) -> Any:
    """value of an abstract integer / boolean expression under a valuation of its atoms (('read', k), ('remaining', io), ..)"""
    if not isinstance(expr, tuple):
        return expr
    if expr in val:
        return val[expr]
    op = expr[0]
    if op in ("+", "-", "*", "//", "%"):
        a, b = eval_abs(expr[1], val), eval_abs(expr[2], val)
        return {"+": a + b, "-": a - b, "*": a * b, "//": a // b if b else 0, "%": a % b if b else 0}[op]
    if op in ("^", "&", "|", "<<", ">>"):
        a, b = eval_abs(expr[1], val), eval_abs(expr[2], val)
        return {"^": lambda: a ^ b, "&": lambda: a & b, "|": lambda: a | b, "<<": lambda: a << b, ">>": lambda: a >> b}[op]()
    if op in ("==", "!=", "<", "<=", ">", ">="):
        a, b = eval_abs(expr[1], val), eval_abs(expr[2], val)
        return {"==": a == b, "!=": a != b, "<": a < b, "<=": a <= b, ">": a > b, ">=": a >= b}[op]
    if op == "index":
        return eval_abs(expr[1], val)
    raise KeyError(expr)


def select_run(runs: Sequence[CodecRun], val: Dict[Any, int]) -> List[CodecRun]:
    """the runs whose assumptions hold under the valuation (atoms are matched by kind: ('read', *) -> val['read'] etc.)"""

    def lookup(e: Any) -> Any:
        return e

    out = []
    for r in runs:
        ok = True
        for e, v in r.assumptions:
            try:
                got = eval_abs(_subst_atoms(e, val), {})
            except (KeyError, TypeError):
                ok = False
                break
            if e[0] == "index":
                ok = ok and got == v
            else:
                ok = ok and bool(got) == bool(v)
            if not ok:
                break
        if ok:
            out.append(r)
    return out


def _subst_atoms(e: Any, val: Dict[Any, int]) -> Any:
    """replace atoms by the values given per atom kind, e.g. {'read': 3, 'remaining': 64}"""
    if isinstance(e, tuple):
        if e and e[0] in val and e[0] in ("read", "remaining", "byte-length-of", "offset-of"):
            return val[e[0]]
        return tuple(_subst_atoms(x, val) for x in e)
    return e
