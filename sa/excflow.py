"""
E4 -- interprocedural exception-flow analysis.

Per function: *events* = explicit `raise C(...)`, re-raises, implicit partial operations from a fixed table, and the
escapes of every callee at every call / property / dunder site of the call graph.  Each event is pushed outwards
through the syntactically enclosing `try` statements of its function (handler matching over the resolved class
hierarchy incl. builtins); a handler absorbs, re-raises or translates.  What leaves a function flows to all its
call sites; iterate to a fixed point.  The parsimonious visitor wrapper is modelled as written in nodes.py:
anything not listed in `unwrapped_exceptions` leaves `visit` as VisitationError.

Exceptions are identified by ClassInfo (repository classes) or 'ext:<Name>' strings (builtins / third party).
"""
from __future__ import annotations

import ast
import builtins
from typing import Any, Callable, Dict, Iterable, List, Optional, Set, Tuple

from .callgraph import CallGraph, Site, Ty
from .core import ClassInfo, External, FuncInfo, Repo, dotted, norm, parents_map

Exc = Any  # ClassInfo | str ('ext:ValueError')

PARSIMONIOUS = {"ParseError": "Exception", "IncompleteParseError": "ParseError", "VisitationError": "Exception", "UndefinedLabel": "Exception", "BadGrammar": "Exception"}


def exc_name(e: Exc) -> str:
    if isinstance(e, tuple):
        e = e[0]
    return e.name if isinstance(e, ClassInfo) else str(e)[4:]


class Origin:
    """Where an exception was born: survives re-raising, wrapping and translation."""

    __slots__ = ("func", "where", "kind", "text", "exc")

    def __init__(self, func: str, where: str, kind: str, text: str, exc: Exc):
        self.func, self.where, self.kind, self.text, self.exc = func, where, kind, text, exc

    def key(self) -> Tuple[str, str, str, str]:
        return (self.func, self.kind, self.text, exc_name(self.exc))

    def __hash__(self) -> int:
        return hash(self.key())

    def __eq__(self, other: object) -> bool:
        return isinstance(other, Origin) and other.key() == self.key()

    def __repr__(self) -> str:
        return "%s in %s [%s] %s" % (exc_name(self.exc), self.func.replace("pydsdl.", ""), self.where, self.text)


class Witness:
    __slots__ = ("kind", "where", "text", "via")

    def __init__(self, kind: str, where: str, text: str, via: Optional[Tuple[str, Exc]] = None):
        self.kind = kind  # raise | implicit | call | translate
        self.where = where
        self.text = text
        self.via = via  # (callee qualname, exception there)


class ExcFlow:
    def __init__(self, g: CallGraph, implicit: Optional[Callable[[FuncInfo, str, ast.AST, Dict[str, Optional[Ty]]], List[Tuple[Exc, ast.AST, str]]]] = None, scope: Optional[Callable[[str], bool]] = None, drop_callee: Optional[Callable[[str, Site, str], bool]] = None, suppress_explicit: Optional[Callable[[FuncInfo, ast.Raise, Exc], bool]] = None):
        self.suppress_explicit = suppress_explicit or (lambda fn, node, e: False)
        self.g = g
        self.repo = g.repo
        self.implicit = implicit
        self.scope = scope or (lambda q: True)
        self.drop_callee = drop_callee or (lambda caller, site, callee: False)
        self.escapes: Dict[str, Dict[Exc, Witness]] = {}
        self.absorbed: List[Tuple[str, Exc, str]] = []  # (function, exception, handler text) - for reporting
        self.handlers_seen: List[Tuple[str, ast.ExceptHandler]] = []
        self._parents: Dict[str, Dict[ast.AST, ast.AST]] = {}
        self._unwrapped: Optional[List[Exc]] = None

    # ---- class algebra
    def key(self, r: Any) -> Optional[Exc]:
        if isinstance(r, ClassInfo):
            return r
        if isinstance(r, External):
            return "ext:" + r.dotted.split(".")[-1]
        return None

    def is_sub(self, e: Exc, base: Exc) -> bool:
        if isinstance(e, tuple):
            e = e[0]
        if isinstance(e, ClassInfo):
            if isinstance(base, ClassInfo):
                return self.repo.is_subclass(e, base)
            # repository class vs external base: walk the MRO's externals
            bn = base[4:]
            for k in self.repo.mro(e):
                if isinstance(k, External):
                    kn = k.dotted.split(".")[-1]
                    if self._ext_sub(kn, bn):
                        return True
            return False
        if isinstance(base, ClassInfo):
            return False
        return self._ext_sub(e[4:], base[4:])

    @staticmethod
    def _ext_sub(a: str, b: str) -> bool:
        if a == b:
            return True
        if b in ("BaseException",):
            return True
        if a in PARSIMONIOUS:
            return ExcFlow._ext_sub(PARSIMONIOUS[a], b)
        ca, cb = getattr(builtins, a, None), getattr(builtins, b, None)
        if isinstance(ca, type) and isinstance(cb, type):
            return issubclass(ca, cb)
        return False

    # ---- per-function helpers
    def _fn_of(self, q: str) -> Optional[FuncInfo]:
        if q.startswith("<lambda> "):
            return self.g.lambdas[q][0]
        return self.g.funcs.get(q)

    def _root_node(self, q: str) -> Optional[ast.AST]:
        if q.startswith("<lambda> "):
            return self.g.lambdas[q][1]
        f = self.g.funcs.get(q)
        return f.node if f else None

    def _parent_map(self, q: str) -> Dict[ast.AST, ast.AST]:
        base = q[len("<lambda> "):].rsplit(":", 1)[0] if q.startswith("<lambda> ") else q
        if base not in self._parents:
            f = self.g.funcs.get(base)
            self._parents[base] = parents_map(f.node) if f else {}
        return self._parents[base]

    def _handler_types(self, fn: FuncInfo, h: ast.ExceptHandler) -> List[Exc]:
        if h.type is None:
            return ["ext:BaseException"]
        ts = h.type.elts if isinstance(h.type, ast.Tuple) else [h.type]
        out = []
        for t in ts:
            k = self.key(self.repo.resolve_expr(fn.module, t, fn.cls))
            if k is None and isinstance(t, ast.Name):
                held = self._classes_from_param(fn, t.id)  # `except kind:` where `kind` is a parameter holding a class
                if held:
                    out.extend(held)
                    continue
            if k is None:
                d = dotted(t) or "?"
                k = "ext:" + d.split(".")[-1]
            out.append(k)
        return out

    def _propagate(self, q: str, fn: FuncInfo, node: ast.AST, exc: Exc, wit: Witness, out: Dict[Exc, Witness], stop_at: Optional[ast.AST] = None) -> None:
        """Push `exc` raised at `node` outwards through the enclosing try statements of q."""
        pm = self._parent_map(q)
        root = self._root_node(q)
        cur: ast.AST = node
        pending: List[Tuple[Exc, Witness, ast.AST]] = [(exc, wit, node)]
        # iterative: each pending exception climbs from its own origin
        results: List[Tuple[Exc, Witness]] = []
        guard = 0
        while pending:
            guard += 1
            if guard > 2000:
                break
            e, w, at = pending.pop()
            cur = at
            escaped = True
            while cur is not root and cur in pm:
                par = pm[cur]
                if isinstance(par, ast.Try):
                    in_body = any(cur is s for s in par.body)
                    if in_body:
                        caught = None
                        for h in par.handlers:
                            if any(self.is_sub(e, t) for t in self._handler_types(fn, h)):
                                caught = h
                                break
                        if caught is not None:
                            self.handlers_seen.append((q, caught))
                            # what does the handler do?
                            reraise, new = self._handler_effect(fn, caught)
                            if not reraise and not new and self._handler_may_complete(caught):
                                self.absorbed.append((q, e, norm(caught.type) if caught.type is not None else "bare"))
                            if reraise:
                                pending.append((e, w, par))  # continues outward from the try statement
                            for (ne, nnode) in new:
                                nw = Witness("translate", "%s:%d" % (fn.module.relpath, nnode.lineno), "%s -> %s" % (exc_name(e), exc_name(ne)), w.via)
                                pending.append(((ne, e[1]), nw, nnode))
                            escaped = False
                            break
                if isinstance(par, (ast.FunctionDef, ast.Lambda)) and par is not root:
                    break
                cur = par
            if escaped:
                results.append((e, w))
        for e, w in results:
            if e not in out:
                out[e] = w

    def _handler_effect(self, fn: FuncInfo, h: ast.ExceptHandler) -> Tuple[bool, List[Tuple[Exc, ast.AST]]]:
        """(re-raises the caught object?, [new exceptions raised in the handler body])"""
        reraise = False
        new: List[Tuple[Exc, ast.AST]] = []
        for n in ast.walk(ast.Module(body=h.body, type_ignores=[])):
            if isinstance(n, ast.Raise):
                if n.exc is None:
                    reraise = True
                elif isinstance(n.exc, ast.Name) and h.name and n.exc.id == h.name:
                    reraise = True
                else:
                    target = n.exc.func if isinstance(n.exc, ast.Call) else n.exc
                    r_t = self.repo.resolve_expr(fn.module, target, fn.cls)
                    if r_t is None and isinstance(target, ast.Name):
                        r_t = self._local_def(fn, target.id)
                    if isinstance(r_t, FuncInfo) and isinstance(n.exc, ast.Call):
                        # `raise helper(ex, ...)`: the helper hands the caught object back (after stamping it), or makes a new one
                        params = r_t.params[1:] if (r_t.cls is not None and not r_t.is_static) else r_t.params
                        passed = [params[i] for i, a in enumerate(n.exc.args) if i < len(params) and isinstance(a, ast.Name) and h.name and a.id == h.name]
                        rets = [x.value for x in ast.walk(r_t.node) if isinstance(x, ast.Return) and x.value is not None]
                        if passed and rets and all(isinstance(v, ast.Name) and v.id in passed for v in rets):
                            reraise = True
                            continue
                        made = self._returned_classes(r_t)
                        if made and not any(isinstance(v, ast.Name) and v.id in passed for v in rets):
                            for c in made:
                                new.append((c, n))
                            continue
                    k = self.key(r_t)
                    if k is None and isinstance(target, ast.Name):
                        held = self._classes_from_param(fn, target.id)
                        if held:
                            new.extend((c, n) for c in held)
                            continue
                    if k is None:
                        k = "ext:" + (dotted(target) or "Exception").split(".")[-1]
                    new.append((k, n))
        return reraise, new

    @staticmethod
    def _handler_may_complete(h: ast.ExceptHandler) -> bool:
        last = h.body[-1] if h.body else None
        return not isinstance(last, ast.Raise)

    # ---- events of one function
    def _explicit_raises(self, q: str, fn: FuncInfo) -> List[Tuple[Exc, ast.AST, str]]:
        root = self._root_node(q)
        out: List[Tuple[Exc, ast.AST, str]] = []
        if root is None:
            return out
        pm = self._parent_map(q)
        stack = [root]
        first = True
        while stack:
            n = stack.pop()
            if not first and isinstance(n, (ast.FunctionDef, ast.AsyncFunctionDef, ast.ClassDef, ast.Lambda)):
                continue
            first = False
            if isinstance(n, ast.Raise) and n.exc is not None:
                # raises inside an except-handler that re-raise the caught name are handled by _handler_effect
                inside_handler = self._enclosing_handler(pm, n, root)
                if inside_handler is not None:
                    if isinstance(n.exc, ast.Name) and inside_handler.name and n.exc.id == inside_handler.name:
                        continue
                    # a *new* exception raised in a handler body is accounted by the translation step
                    stack.extend(ast.iter_child_nodes(n))
                    continue
                target = n.exc.func if isinstance(n.exc, ast.Call) else n.exc
                r0 = self.repo.resolve_expr(fn.module, target, fn.cls) if not (isinstance(target, ast.Attribute) and isinstance(target.value, ast.Name) and target.value.id in ("self", "cls")) else (self.repo.lookup_method(fn.cls, target.attr) if fn.cls is not None else None)
                if r0 is None and isinstance(target, ast.Name):
                    r0 = self._local_def(fn, target.id)  # `raise make(...)` where `make` is a def of this function or of one around it
                if isinstance(r0, FuncInfo) and isinstance(n.exc, ast.Call):
                    # `raise helper(...)`: the helper builds the exception - its class is what the helper returns
                    made = self._returned_classes(r0)
                    if made:
                        for c in made:
                            if not self.suppress_explicit(fn, n, c):
                                out.append((c, n, norm(n)[:80]))
                        stack.extend(ast.iter_child_nodes(n))
                        continue
                k = self.key(r0)
                if k is None and isinstance(n.exc, ast.Call) and isinstance(target, ast.Attribute) and not isinstance(r0, (ClassInfo, External)):
                    # `raise obj.make(...)`: a method of some object builds the exception - every method of that name in the
                    # package that returns exception objects is a candidate (abstract ones return nothing and are skipped)
                    made_m: List[Exc] = []
                    for cand in self.g.by_name.get(target.attr, []):
                        made_m.extend(self._returned_classes(cand))
                    if made_m:
                        for c in made_m:
                            if not self.suppress_explicit(fn, n, c):
                                out.append((c, n, norm(n)[:80]))
                        stack.extend(ast.iter_child_nodes(n))
                        continue
                if k is None and isinstance(target, ast.Name):
                    # `raise kind(...)` where `kind` is a parameter: the classes the call sites pass; or where it was taken out of
                    # a table of the module (`kind, text = _TABLE[code]`): the classes listed in that table
                    made_t = self._classes_from_param(fn, target.id) or self._classes_from_table(fn, target.id)
                    if made_t:
                        for c in made_t:
                            if not self.suppress_explicit(fn, n, c):
                                out.append((c, n, norm(n)[:80]))
                        stack.extend(ast.iter_child_nodes(n))
                        continue
                if k is None:
                    if isinstance(target, ast.Name):
                        # raising a local variable: type from inference
                        t = self.g.types.locals_of(fn).get(target.id)
                        if t is not None and t.classes:
                            for c in t.classes:
                                out.append((c, n, norm(n)[:80]))
                            continue
                    k = "ext:" + (dotted(target) or "Exception").split(".")[-1]
                if not self.suppress_explicit(fn, n, k):
                    out.append((k, n, norm(n)[:80]))
            stack.extend(ast.iter_child_nodes(n))
        return out

    @staticmethod
    def _local_def(fn: FuncInfo, name: str) -> Optional[FuncInfo]:
        cur: Optional[FuncInfo] = fn
        while cur is not None:
            if name in cur.nested:
                return cur.nested[name]
            cur = getattr(cur, "parent", None)
        return None

    def _classes_from_param(self, fn: FuncInfo, var: str, seen: Optional[Set[Tuple[str, str]]] = None) -> List[Exc]:
        """the exception classes a *parameter* of fn can hold: what every call site of fn in the package passes for it (a class
        by name, or the caller's own parameter, followed the same way); [] as soon as one site passes anything else, when there
        is no site, or when the function rebinds the name"""
        seen = set() if seen is None else seen
        if (fn.qualname, var) in seen or var not in fn.params:
            return []
        seen.add((fn.qualname, var))
        for n in ast.walk(fn.node):
            if isinstance(n, ast.Name) and n.id == var and isinstance(n.ctx, (ast.Store, ast.Del)):
                return []
        idx = fn.params.index(var)
        pos = idx - (1 if fn.cls is not None and not fn.is_static else 0)
        out: List[Exc] = []
        sites = 0
        for other, c in self.repo.all_calls():
            f = c.func
            if not ((isinstance(f, ast.Attribute) and f.attr == fn.name) or (isinstance(f, ast.Name) and f.id == fn.name)):
                continue
            if any(isinstance(a_, ast.Starred) for a_ in c.args) or any(k_.arg is None for k_ in c.keywords):
                return []
            a = c.args[pos] if 0 <= pos < len(c.args) else next((k.value for k in c.keywords if k.arg == var), None)
            if a is None:
                a = dict(zip(reversed(fn.params), reversed(fn.node.args.defaults))).get(var)
                if a is None:
                    return []
                other = fn  # (a default is an expression of the defining module)
            sites += 1
            try:
                r = self.repo.resolve_expr(other.module, a, other.cls)
            except Exception:
                r = None
            k = self.key(r)
            if k is not None:
                out.append(k)
            elif isinstance(a, ast.Name) and a.id in other.params:
                more = self._classes_from_param(other, a.id, seen)
                if not more:
                    return []
                out.extend(more)
            else:
                return []
        uniq: List[Exc] = []
        for k in out:
            if k not in uniq:
                uniq.append(k)
        return uniq if sites else []

    def _classes_from_table(self, fn: FuncInfo, var: str) -> List[Exc]:
        """the exception classes a local variable can hold when it is bound (directly or by unpacking) from a subscript /
        .get() of a module- or class-level literal table"""
        out: List[Exc] = []
        for st in ast.walk(fn.node):
            if not isinstance(st, ast.Assign):
                continue
            bound = any(isinstance(x, ast.Name) and x.id == var for t in st.targets for x in ast.walk(t))
            if not bound:
                continue
            v = st.value
            base = v.value if isinstance(v, ast.Subscript) else (v.func.value if isinstance(v, ast.Call) and isinstance(v.func, ast.Attribute) and v.func.attr == "get" else None)
            if base is None or not isinstance(base, (ast.Name, ast.Attribute)):
                return []
            try:
                lit = self.repo.resolve_expr(fn.module, base, fn.cls) if not (isinstance(base, ast.Attribute) and isinstance(base.value, ast.Name) and base.value.id in ("self", "cls")) else (self.repo.lookup_class_attr(fn.cls, base.attr) if fn.cls is not None else None)
            except Exception:
                lit = None
            if not isinstance(lit, (ast.Dict, ast.Tuple, ast.List)):
                return []
            for x in ast.walk(lit):
                if isinstance(x, (ast.Name, ast.Attribute)) and isinstance(getattr(x, "ctx", None), ast.Load):
                    try:
                        rr = self.repo.resolve_expr(fn.module, x, fn.cls)
                    except Exception:
                        rr = None
                    if isinstance(rr, ClassInfo) and any(getattr(b, "name", "") in ("Exception", "BaseException") or (isinstance(b, External) and b.dotted.split(".")[-1].endswith(("Error", "Exception"))) for b in self.repo.mro(rr)):
                        kk = self.key(rr)
                        if kk is not None and kk not in out:
                            out.append(kk)
        return out

    def _returned_classes(self, fn: FuncInfo, depth: int = 0) -> List[Exc]:
        """classes of the exception objects a factory helper returns (from its return statements / annotation)"""
        out: List[Exc] = []
        for r in ast.walk(fn.node):
            if isinstance(r, ast.Return) and r.value is not None:
                v = r.value
                tgt = v.func if isinstance(v, ast.Call) else v
                rr = self.repo.resolve_expr(fn.module, tgt, fn.cls) if isinstance(tgt, (ast.Name, ast.Attribute)) else None
                k = self.key(rr)
                if k is not None and (isinstance(rr, ClassInfo) or isinstance(rr, External)):
                    out.append(k)
                elif isinstance(rr, FuncInfo) and depth < 2:
                    out.extend(self._returned_classes(rr, depth + 1))
                else:
                    return []
        if not out and fn.node.returns is not None:
            ann = fn.node.returns
            if isinstance(ann, ast.Constant) and isinstance(ann.value, str):
                try:
                    ann = ast.parse(ann.value, mode="eval").body
                except SyntaxError:
                    return []
            rr = self.repo.resolve_expr(fn.module, ann, fn.cls) if isinstance(ann, (ast.Name, ast.Attribute)) else None
            k = self.key(rr)
            if k is not None:
                out.append(k)
        return out

    @staticmethod
    def _enclosing_handler(pm: Dict[ast.AST, ast.AST], n: ast.AST, root: ast.AST) -> Optional[ast.ExceptHandler]:
        cur = n
        while cur is not root and cur in pm:
            cur = pm[cur]
            if isinstance(cur, ast.ExceptHandler):
                return cur
            if isinstance(cur, (ast.FunctionDef, ast.Lambda)):
                return None
        return None

    def unwrapped(self) -> List[Exc]:
        if self._unwrapped is None:
            out: List[Exc] = []
            for c in self.repo.all_classes().values():
                v = c.assigns.get("unwrapped_exceptions")
                if isinstance(v, ast.Tuple):
                    for el in v.elts:
                        k = self.key(self.repo.resolve_expr(c.module, el, c))
                        if k is not None:
                            out.append(k)
            self._unwrapped = out
        return self._unwrapped

    # ---- fixed point
    def run(self, max_iter: int = 40) -> None:
        g = self.g
        nodes = [q for q in g.edges if not q.startswith("<classbody>") and self.scope(q)]
        explicit: Dict[str, List[Tuple[Exc, ast.AST, str]]] = {}
        implicit: Dict[str, List[Tuple[Exc, ast.AST, str]]] = {}
        for q in nodes:
            fn = self._fn_of(q)
            if fn is None:
                continue
            explicit[q] = self._explicit_raises(q, fn)
            if self.implicit is not None:
                root = self._root_node(q)
                loc = g.types.locals_of(fn)
                implicit[q] = self.implicit(fn, q, root, loc) if root is not None else []
            self.escapes[q] = {}
        # class bodies: union of referenced functions' escapes
        changed = True
        it = 0
        while changed and it < max_iter:
            it += 1
            changed = False
            for q in nodes:
                fn = self._fn_of(q)
                if fn is None:
                    continue
                out: Dict[Exc, Witness] = {}
                for k, node, text in explicit.get(q, []):
                    where = "%s:%d" % (fn.module.relpath, getattr(node, "lineno", 0))
                    self._propagate(q, fn, node, (k, Origin(q, where, "raise", text, k)), Witness("raise", where, text), out)
                for k, node, text in implicit.get(q, []):
                    where = "%s:%d" % (fn.module.relpath, getattr(node, "lineno", 0))
                    self._propagate(q, fn, node, (k, Origin(q, where, "implicit", text, k)), Witness("implicit", where, text), out)
                for s in g.sites.get(q, []):
                    if s.kind == "ref":
                        # a function taken as a value (handler tables, callbacks, map/partial arguments) runs somewhere in the
                        # dynamic extent of this function or its callers: its escapes are attributed here, *outside* any local
                        # handler (over-approximation of the escape set)
                        for callee in s.callees:
                            if callee.endswith(".__init__"):
                                continue  # classes passed as values: constructor guards are handled at the typed call sites
                            for e, w in self._callee_escapes(callee).items():
                                wit = Witness("call", "%s:%d" % (fn.module.relpath, getattr(s.node, "lineno", 0)), "via reference %s" % norm(s.node)[:50], (callee, e))
                                root = self._root_node(q)
                                self._propagate(q, fn, root if root is not None else s.node, e, wit, out)
                        continue
                    for callee in s.callees:
                        if self.drop_callee(q, s, callee):
                            continue
                        ce = self._callee_escapes(callee)
                        if not ce:
                            continue
                        for e, w in ce.items():
                            e2, txt = e, norm(s.node)[:70]
                            if s.kind == "visit":
                                if not any(self.is_sub(e, u) for u in self.unwrapped()) and e[0] not in ("ext:VisitationError", "ext:UndefinedLabel"):
                                    e2 = ("ext:VisitationError", e[1])
                                    txt = "visit wraps %s" % exc_name(e)
                            wit = Witness("call", "%s:%d" % (fn.module.relpath, getattr(s.node, "lineno", 0)), txt, (callee, e))
                            self._propagate(q, fn, s.node, e2, wit, out)
                # callbacks stored and invoked later: lambdas / nested functions created here are assumed to run in
                # the dynamic extent of whoever receives them; we attribute their escapes to the creator's *callers'*
                # view by treating creation as a call outside any local handler scope of the creator only if no call
                # site of the callback exists.  (Sound for escape sets because the creators here hold no handlers.)
                called_here = {c for s2 in g.sites.get(q, []) if s2.kind != "ref" for c in s2.callees}
                for tgt in g.edges.get(q, ()):
                    if tgt in called_here:
                        continue
                    if tgt.startswith("<lambda> ") or (tgt in g.funcs and g.funcs[tgt].parent is not None and g.funcs[tgt].parent.qualname == q):
                        for e, w in self.escapes.get(tgt, {}).items():
                            wit = Witness("call", w.where, "callback defined in %s" % q.split(".")[-1], (tgt, e))
                            node = self._root_node(tgt)
                            self._propagate(q, fn, node if node is not None else fn.node, e, wit, out)
                if set(out) != set(self.escapes[q]):
                    changed = True
                    self.escapes[q] = out
        self.iterations = it

    def _callee_escapes(self, callee: str) -> Dict[Exc, Witness]:
        if callee.startswith("<classbody>"):
            out: Dict[Exc, Witness] = {}
            for t in self.g.edges.get(callee, ()):
                for e, w in self.escapes.get(t, {}).items():
                    out.setdefault(e, w)
                # factories: functions nested in the referenced factory run as visitor handlers
                f = self.g.funcs.get(t)
                if f is not None:
                    for n in f.nested.values():
                        for e, w in self.escapes.get(n.qualname, {}).items():
                            out.setdefault(e, w)
            return out
        return self.escapes.get(callee, {})

    def witness_path(self, q: str, e: Exc, limit: int = 12) -> List[str]:
        out = []
        seen = set()
        cur_q, cur_e = q, e
        while len(out) < limit:
            w = self.escapes.get(cur_q, {}).get(cur_e)
            if w is None:
                if cur_q.startswith("<classbody>"):
                    found = False
                    for t in self.g.edges.get(cur_q, ()):
                        if cur_e in self.escapes.get(t, {}):
                            cur_q = t
                            found = True
                            break
                        f = self.g.funcs.get(t)
                        if f is not None:
                            for n in f.nested.values():
                                if cur_e in self.escapes.get(n.qualname, {}):
                                    cur_q, found = n.qualname, True
                                    break
                        if found:
                            break
                    if found:
                        continue
                break
            out.append("%s [%s] %s: %s" % (cur_q.replace("pydsdl.", ""), w.where, w.kind, w.text))
            if w.via is None or (cur_q, cur_e) in seen:
                break
            seen.add((cur_q, cur_e))
            if w.kind == "translate":
                # via = (text of the original site, original exception): stay in the same function
                cur_e = w.via[1]
                # find the original witness by class in this function's un-translated events is not stored; stop here
                out.append("    (translated from %s raised at %s)" % (exc_name(w.via[1]), w.via[0]))
                break
            cur_q, cur_e = w.via
        return out
