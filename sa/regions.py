"""
Helpers on top of E5/E6: constructor flattening (super().__init__ inlining with renamed locals) and accepted-region
evaluation of extracted guards over an explicitly enumerated finite domain.
"""
from __future__ import annotations

import ast
import copy
from typing import Any, Callable, Dict, Iterable, List, Optional, Sequence, Set, Tuple

from .core import AnalysisError, ClassInfo, External, FuncInfo, Repo, body_without_docstring, dotted, norm, unparse
from .decide import Path, PathEnumerator
from .fold import FoldKeyError, Folder, Unfoldable


class _Rename(ast.NodeTransformer):
    def __init__(self, mapping: Dict[str, str]):
        self.mapping = mapping

    def visit_Name(self, n: ast.Name) -> ast.AST:
        if n.id in self.mapping:
            return ast.copy_location(ast.Name(id=self.mapping[n.id], ctx=n.ctx), n)
        return n

    def visit_arg(self, n: ast.arg) -> ast.AST:
        return n

    def visit_Lambda(self, n: ast.Lambda) -> ast.AST:
        shadow = {a.arg for a in n.args.args}
        inner = _Rename({k: v for k, v in self.mapping.items() if k not in shadow})
        n2 = copy.copy(n)
        n2.body = inner.visit(n.body)
        return n2

    def visit_FunctionDef(self, n: ast.FunctionDef) -> ast.AST:
        # a local function: its parameters and its own locals shadow the enclosing names
        shadow = {a.arg for a in n.args.posonlyargs + n.args.args + n.args.kwonlyargs}
        for x in ast.walk(n):
            if isinstance(x, ast.Name) and isinstance(x.ctx, (ast.Store, ast.Del)) and not any(isinstance(g, ast.Nonlocal) and x.id in g.names for g in ast.walk(n)):
                shadow.add(x.id)
        inner = _Rename({k: v for k, v in self.mapping.items() if k not in shadow})
        n2 = copy.copy(n)
        n2.body = [inner.visit(copy.deepcopy(b)) for b in n.body]
        if n.name in self.mapping:
            n2.name = self.mapping[n.name]
        return n2


def _locals_of(fn: ast.FunctionDef) -> Set[str]:
    out = {a.arg for a in fn.args.posonlyargs + fn.args.args + fn.args.kwonlyargs}
    stack = list(ast.iter_child_nodes(fn))
    while stack:
        n = stack.pop()
        if isinstance(n, (ast.FunctionDef, ast.AsyncFunctionDef)):
            out.add(n.name)  # the local function's own names are its own
            continue
        if isinstance(n, ast.Lambda):
            continue
        if isinstance(n, ast.Name) and isinstance(n.ctx, (ast.Store, ast.Del)):
            out.add(n.id)
        stack.extend(ast.iter_child_nodes(n))
    out.discard("self")
    return out


def _is_super_init(st: ast.stmt) -> Optional[ast.Call]:
    if isinstance(st, ast.Expr) and isinstance(st.value, ast.Call):
        f = st.value.func
        if isinstance(f, ast.Attribute) and f.attr == "__init__" and isinstance(f.value, ast.Call) and dotted(f.value.func) == "super":
            return st.value
    return None


def flatten_init(repo: Repo, cls: ClassInfo, inline_props: bool = True, node_of: Any = None) -> Tuple[List[ast.stmt], List[FuncInfo]]:
    """
    Body of cls.__init__ with every top-level `super().__init__(...)` statement replaced by the (recursively
    flattened) parent constructor: parameters become assignments, parent locals get a `__pN_` prefix.
    Returns (statements, [constructors inlined, outermost first]).
    """
    init = repo.lookup_method(cls, "__init__")
    if init is None or init.cls is None:
        return [], []
    out, chain = _flatten_from(repo, cls, init.cls, 0, node_of)
    if inline_props:
        out = [inline_properties(repo, cls, s) for s in out]
    for s in out:
        ast.fix_missing_locations(s)
    return out, chain


def trivial_property_expr(repo: Repo, cls: ClassInfo, name: str) -> Optional[ast.expr]:
    """The returned expression of a property whose body is `[asserts...] return <expr>`; None otherwise."""
    fn = repo.lookup_method(cls, name)
    if fn is None or not fn.is_property or fn.is_abstract:
        return None
    body = [s for s in body_without_docstring(fn.node) if not isinstance(s, ast.Assert)]
    if len(body) == 1 and isinstance(body[0], ast.Return) and body[0].value is not None:
        return body[0].value
    return None


def is_accessor_expr(e: ast.expr) -> bool:
    """`self._x` (a pure field accessor)"""
    return isinstance(e, ast.Attribute) and isinstance(e.value, ast.Name) and e.value.id == "self"


def inline_properties(repo: Repo, cls: ClassInfo, node: ast.AST, depth: int = 4, accessors_only: bool = True) -> Any:
    """
    Replace loads of `self.<trivial property>` (resolved through the MRO of `cls`) by the property's expression.
    By default only pure field accessors (`return self._x`) are inlined.
    """

    class T(ast.NodeTransformer):
        def __init__(self, d: int):
            self.d = d

        def visit_Attribute(self, n: ast.Attribute) -> ast.AST:
            n = self.generic_visit(n)  # type: ignore
            if isinstance(n.ctx, ast.Load) and isinstance(n.value, ast.Name) and n.value.id == "self" and self.d > 0:
                e = trivial_property_expr(repo, cls, n.attr)
                if e is not None and (not accessors_only or is_accessor_expr(e)):
                    return T(self.d - 1).visit(copy.deepcopy(e))
            return n

    return T(depth).visit(copy.deepcopy(node))


def _flatten_from(repo: Repo, cls: ClassInfo, start: ClassInfo, depth: int, node_of: Any = None) -> Tuple[List[ast.stmt], List[FuncInfo]]:
    """flatten the constructor defined in `start`, resolving further super() calls along the MRO of `cls`.
    `node_of(fn)` may supply a transformed definition (e.g. with private helpers expanded)."""
    init = start.methods["__init__"]
    chain = [init]
    out: List[ast.stmt] = []
    for st in body_without_docstring(node_of(init) if node_of is not None else init.node):
        call = _is_super_init(st)
        if call is None:
            out.append(st)
            continue
        mro = repo.mro(cls)
        idx = mro.index(start)
        parent_cls = None
        for k in mro[idx + 1 :]:
            if isinstance(k, ClassInfo) and "__init__" in k.methods:
                parent_cls = k
                break
        if parent_cls is None:
            continue
        if depth > 8:
            raise AnalysisError("constructor chain too deep at %s" % cls.qualname)
        pbody, pchain = _flatten_from(repo, cls, parent_cls, depth + 1, node_of)
        chain.extend(pchain)
        prefix = "__p%d_" % (depth + 1)
        pnode = node_of(parent_cls.methods["__init__"]) if node_of is not None else parent_cls.methods["__init__"].node
        mapping = {n: prefix + n for n in _locals_of(pnode)}
        params = [a.arg for a in pnode.args.posonlyargs + pnode.args.args][1:]
        defaults = pnode.args.defaults
        dmap = dict(zip(params[len(params) - len(defaults) :], defaults)) if defaults else {}
        bound: Dict[str, ast.expr] = {}
        for p, a in zip(params, call.args):
            bound[p] = a
        for k in call.keywords:
            if k.arg is None:
                raise AnalysisError("**kwargs in super().__init__ of %s" % start.qualname)
            bound[k.arg] = k.value
        for p in params + [a.arg for a in pnode.args.kwonlyargs]:
            if p in bound:
                val = bound[p]
            elif p in dmap:
                val = dmap[p]
            else:
                raise AnalysisError("super().__init__ in %s does not bind parameter %s" % (start.qualname, p))
            out.append(ast.copy_location(ast.Assign(targets=[ast.Name(id=prefix + p, ctx=ast.Store())], value=copy.deepcopy(val), lineno=st.lineno), st))
        for ps in pbody:
            out.append(_Rename(mapping).visit(copy.deepcopy(ps)))
    return out, chain


# --------------------------------------------------------------------------------------------------------------
def mentions(e: Any, names: Iterable[str]) -> bool:
    """Does the condition mention any of the dotted names (as a prefix of a Name/Attribute chain)?"""
    ns = list(names)
    if isinstance(e, tuple):
        return any(mentions(x, ns) for x in e if isinstance(x, (ast.AST, tuple)))
    for n in ast.walk(e):
        d = dotted(n) if isinstance(n, (ast.Name, ast.Attribute)) else None
        if d is not None:
            for v in ns:
                if d == v or d.startswith(v + "."):
                    return True
    return False


class RegionResult:
    def __init__(self) -> None:
        self.accepted: Dict[Any, bool] = {}
        self.raised: Dict[Any, List[str]] = {}  # value -> exception expressions of the rejecting raises


def evaluate_region(
    paths: Sequence[Path],
    domain: Iterable[Dict[str, Any]],
    relevant: Callable[[Any], bool],
    make_folder: Callable[[Dict[str, Any]], Folder],
    marker_eval: Optional[Callable[[tuple, Folder], Optional[bool]]] = None,
    key: Optional[Callable[[Dict[str, Any]], Any]] = None,
) -> RegionResult:
    """
    accepted(v)  <=>  there is a non-raising path all of whose *relevant* conditions fold to their polarity under v
    (irrelevant conditions concern other inputs and are assumed independently satisfiable).
    For rejected v: the exception expressions of raise paths whose relevant conditions hold and whose last
    condition is relevant.
    A relevant condition that cannot be folded is an AnalysisError - never silently ignored.
    """
    res = RegionResult()
    for v in domain:
        folder = make_folder(v)
        cache: Dict[int, Any] = {}

        def holds(c: Any, pol: bool) -> Optional[bool]:
            if isinstance(c, tuple) and c[0] == "assert":
                return None
            if isinstance(c, tuple):
                if marker_eval is None:
                    return None
                r = marker_eval(c, folder)
                return None if r is None else (r == pol)
            if not relevant(c):
                return None
            k = id(c)
            if k not in cache:
                try:
                    cache[k] = bool(folder.fold(c))
                except FoldKeyError as ex:
                    raise AnalysisError("relevant guard %s hits a failing literal lookup (%s) outside a handler" % (norm(c), ex))
                except Unfoldable as ex:
                    raise AnalysisError("relevant guard %s cannot be folded: %s" % (norm(c), ex))
            return cache[k] == pol

        acc = False
        rej: List[str] = []
        for p in paths:
            feasible = True
            last_rel = False
            for c, pol in p.conds:
                h = holds(c, pol)
                if h is None:
                    last_rel = False if not (isinstance(c, tuple) and c[0] == "assert") else last_rel
                    continue
                last_rel = True
                if not h:
                    feasible = False
                    break
            if not feasible:
                continue
            if p.kind in ("fall", "return"):
                acc = True
            elif p.kind in ("raise", "raise-in-try") and last_rel:
                rej.append(unparse(p.value) if isinstance(p.value, ast.AST) else str(p.value))
        kk = key(v) if key else tuple(sorted(v.items(), key=lambda kv: kv[0]))
        res.accepted[kk] = acc
        res.raised[kk] = rej
    return res


def exc_class_of(repo: Repo, mod: Any, cls: Optional[ClassInfo], exc: Optional[ast.AST]) -> Any:
    """class raised by `raise X(...)` / `raise X`"""
    if exc is None:
        return None
    target = exc.func if isinstance(exc, ast.Call) else exc
    return repo.resolve_expr(mod, target, cls)  # type: ignore
