"""
E5 -- decision extractor.

Enumerates the structured paths of a small function (assign / if-elif-else / raise / return / for / try / assert)
and yields, for every outcome (raise / return / fall-through), the *path condition* as a list of
(condition-AST, polarity) with local temporaries substituted by their defining expressions.  Rules then map
condition ASTs to propositional formulas over named atoms and compare truth tables / accepted regions with the
specification.  Nothing is executed.
"""
from __future__ import annotations

import ast
import copy
import itertools
from typing import Any, Callable, Dict, Iterable, List, Optional, Sequence, Tuple

from .core import AnalysisError, dotted, norm, unparse


class Path:
    __slots__ = ("conds", "kind", "value", "node", "env", "events")

    def __init__(self, conds: List[Tuple[Any, bool]], kind: str, value: Any, node: Optional[ast.AST], env: Dict[str, ast.AST], events: List[Any]):
        self.conds = conds  # [(ast.expr | marker-tuple, polarity)]
        self.kind = kind  # 'raise' | 'return' | 'fall' | 'continue' | 'break'
        self.value = value  # exception expr / return expr
        self.node = node
        self.env = env
        self.events = events  # expression statements (calls) met on the path, substituted

    def __repr__(self) -> str:
        cs = " & ".join(("" if p else "!") + (unparse(c) if isinstance(c, ast.AST) else str(c)) for c, p in self.conds)
        return "<%s %s if %s>" % (self.kind, unparse(self.value) if isinstance(self.value, ast.AST) else self.value, cs or "true")


class _Subst(ast.NodeTransformer):
    def __init__(self, env: Dict[str, ast.AST]):
        self.env = env

    def visit_Name(self, n: ast.Name) -> ast.AST:
        if isinstance(n.ctx, ast.Load) and n.id in self.env:
            return copy.deepcopy(self.env[n.id])
        return n

    def visit_Attribute(self, n: ast.Attribute) -> ast.AST:
        d = dotted(n)
        if d is not None and isinstance(n.ctx, ast.Load) and d in self.env:
            return copy.deepcopy(self.env[d])
        return self.generic_visit(n)

    def visit_Lambda(self, n: ast.Lambda) -> ast.AST:
        shadow = {a.arg for a in n.args.args}
        inner = {k: v for k, v in self.env.items() if k.split(".")[0] not in shadow}
        n2 = copy.copy(n)
        n2.body = _Subst(inner).visit(copy.deepcopy(n.body))
        return n2


def substitute(e: ast.AST, env: Dict[str, ast.AST]) -> ast.AST:
    if not env:
        return copy.deepcopy(e)
    return _Subst(env).visit(copy.deepcopy(e))


class PathEnumerator:
    def __init__(self, max_paths: int = 20000, on_unsupported: str = "error", opaque: Iterable[str] = ()):
        self.opaque = set(opaque)  # names that are never substituted by their definitions
        self.max_paths = max_paths
        self.on_unsupported = on_unsupported
        self.count = 0

    def run(self, stmts: Sequence[ast.stmt], env: Optional[Dict[str, ast.AST]] = None) -> List[Path]:
        out: List[Path] = []
        for conds, env2, events, term in self._block(list(stmts), [], dict(env or {}), []):
            if term is None:
                out.append(Path(conds, "fall", None, None, env2, events))
            else:
                out.append(Path(conds, term[0], term[1], term[2], env2, events))
        return out

    # generator of (conds, env, events, terminator|None)
    def _block(self, stmts: List[ast.stmt], conds: List[Any], env: Dict[str, ast.AST], events: List[Any]) -> Iterable[Tuple[List[Any], Dict[str, ast.AST], List[Any], Any]]:
        if not stmts:
            yield conds, env, events, None
            return
        st, rest = stmts[0], stmts[1:]
        for c2, e2, ev2, term in self._stmt(st, conds, env, events):
            self.count += 1
            if self.count > self.max_paths:
                raise AnalysisError("path explosion")
            if term is not None:
                yield c2, e2, ev2, term
            else:
                yield from self._block(rest, c2, e2, ev2)

    def _stmt(self, st: ast.stmt, conds: List[Any], env: Dict[str, ast.AST], events: List[Any]) -> Iterable[Tuple[List[Any], Dict[str, ast.AST], List[Any], Any]]:
        S = lambda e: substitute(e, env)  # noqa: E731
        if isinstance(st, (ast.Pass, ast.Import, ast.ImportFrom, ast.Global, ast.Nonlocal)):
            yield conds, env, events, None
        elif isinstance(st, ast.Expr):
            if isinstance(st.value, ast.Constant):
                yield conds, env, events, None
            else:
                yield conds, env, events + [S(st.value)], None
        elif isinstance(st, ast.Assign):
            val = S(st.value)
            env2 = dict(env)
            for t in st.targets:
                self._bind(t, val, env2)
            yield conds, env2, events + [("assign", [unparse(t) for t in st.targets], val)], None
        elif isinstance(st, ast.AnnAssign):
            env2 = dict(env)
            if st.value is not None:
                val = S(st.value)
                self._bind(st.target, val, env2)
                yield conds, env2, events + [("assign", [unparse(st.target)], val)], None
            else:
                yield conds, env2, events, None
        elif isinstance(st, ast.AugAssign):
            env2 = dict(env)
            cur = S(copy.deepcopy(st.target))
            for n in ast.walk(cur):
                if hasattr(n, "ctx"):
                    n.ctx = ast.Load()  # type: ignore
            val = ast.BinOp(left=cur, op=st.op, right=S(st.value))
            self._bind(st.target, val, env2)
            yield conds, env2, events + [("assign", [unparse(st.target)], val)], None
        elif isinstance(st, ast.Delete):
            env2 = dict(env)
            for t in st.targets:
                d = dotted(t)
                if d is not None:
                    env2.pop(d, None)
            yield conds, env2, events, None
        elif isinstance(st, ast.Assert):
            # an assertion is a stated belief, recorded as an assumption on the path
            yield conds + [(("assert", S(st.test)), True)], env, events, None
        elif isinstance(st, ast.Raise):
            yield conds, env, events, ("raise", S(st.exc) if st.exc is not None else None, st)
        elif isinstance(st, ast.Return):
            yield conds, env, events, ("return", S(st.value) if st.value is not None else None, st)
        elif isinstance(st, ast.Continue):
            yield conds, env, events, ("continue", None, st)
        elif isinstance(st, ast.Break):
            yield conds, env, events, ("break", None, st)
        elif isinstance(st, ast.If):
            test = S(st.test)
            yield from self._block(list(st.body), conds + [(test, True)], env, events)
            yield from self._block(list(st.orelse), conds + [(test, False)], env, events)
        elif isinstance(st, ast.For):
            it = S(st.iter)
            marker = ("for", unparse(st.target), it)
            # zero iterations / loop completed without terminating: we continue with the *pre-loop* environment
            # (loop-carried assignments are not tracked; rules that need them handle the loop themselves)
            body_env = dict(env)
            for n in ast.walk(st.target):
                if isinstance(n, ast.Name):
                    body_env.pop(n.id, None)
            for c2, e2, ev2, term in self._block(list(st.body), conds + [(marker, True)], body_env, events):
                if term is not None and term[0] in ("raise", "return"):
                    yield c2, e2, ev2, term
            # completion path
            killed = {n.id for s in st.body for n in ast.walk(s) if isinstance(n, ast.Name) and isinstance(n.ctx, ast.Store)}
            env3 = {k: v for k, v in env.items() if k.split(".")[0] not in killed}
            # (the loop completes whatever the number of iterations: no condition is attached to the completion path)
            yield from self._block(list(st.orelse), conds, env3, events + [("loop", marker, list(st.body))])
        elif isinstance(st, ast.While):
            # like `for`: the body is walked once under a marker (paths that leave the function are reported), loop-carried
            # assignments are not tracked, and the completion path carries no condition
            killed_w = {n.id for s in st.body for n in ast.walk(s) if isinstance(n, ast.Name) and isinstance(n.ctx, ast.Store)}
            body_env = {k: v for k, v in env.items() if k.split(".")[0] not in killed_w}
            marker = ("while", unparse(st.test), substitute(st.test, body_env))
            for c2, e2, ev2, term in self._block(list(st.body), conds + [(marker, True)], body_env, events):
                if term is not None and term[0] in ("raise", "return"):
                    yield c2, e2, ev2, term
            yield from self._block(list(st.orelse), conds, body_env, events + [("loop", marker, list(st.body))])
        elif isinstance(st, ast.Try):
            handlers = st.handlers
            sbody = [S(b) for b in st.body]
            markers = [("except", unparse(h.type) if h.type is not None else "BaseException", st, sbody) for h in handlers]
            # normal completion of the body (+ else): no handler was entered
            ncond = conds + [(m, False) for m in markers]
            for c2, e2, ev2, term in self._block(list(st.body), ncond, env, events):
                if term is None:
                    yield from self._block(list(st.orelse) + list(st.finalbody), c2, e2, ev2)
                elif term[0] == "raise":
                    yield c2, e2, ev2, ("raise-in-try", term[1], term[2], handlers)  # rule decides about matching
                else:
                    yield c2, e2, ev2, term
            # each handler as an alternative continuation (an exception raised somewhere in the body)
            for h, marker in zip(handlers, markers):
                henv = dict(env)
                yield from self._block(list(h.body) + list(st.finalbody), conds + [(marker, True)], henv, events)
        elif isinstance(st, ast.With):
            yield from self._block(list(st.body), conds, env, events + [("with", [S(i.context_expr) for i in st.items])])
        elif isinstance(st, (ast.FunctionDef, ast.ClassDef)):
            yield conds, env, events, None
        else:
            if self.on_unsupported == "error":
                raise AnalysisError("decision extractor: unsupported statement %s at line %d" % (type(st).__name__, st.lineno))
            yield conds, env, events, None

    def _bind(self, target: ast.AST, val: ast.AST, env: Dict[str, ast.AST]) -> None:
        d = dotted(target)
        if d is not None:
            if d in self.opaque:
                env.pop(d, None)
                return
            env[d] = val
            return
        if isinstance(target, (ast.Tuple, ast.List)):
            if isinstance(val, (ast.Tuple, ast.List)) and len(val.elts) == len(target.elts):
                for t, v in zip(target.elts, val.elts):
                    self._bind(t, v, env)
            else:
                for i, t in enumerate(target.elts):
                    self._bind(t, ast.Subscript(value=val, slice=ast.Constant(value=i), ctx=ast.Load()), env)
            return
        # subscript stores etc. are ignored by the extractor (rules that care look at events)


def paths_of(fn: ast.FunctionDef, env: Optional[Dict[str, ast.AST]] = None, max_paths: int = 20000, opaque: Iterable[str] = ()) -> List[Path]:
    from .core import body_without_docstring

    return PathEnumerator(max_paths, opaque=opaque).run(body_without_docstring(fn), env)


# --------------------------------------------------------------------------------------------------------------
# Formulas
# --------------------------------------------------------------------------------------------------------------
# formula := True | False | ('atom', name) | ('not', f) | ('and', f, g, ...) | ('or', f, g, ...)
Formula = Any


def f_and(*fs: Formula) -> Formula:
    out = []
    for f in fs:
        if f is True:
            continue
        if f is False:
            return False
        out.append(f)
    if not out:
        return True
    return out[0] if len(out) == 1 else ("and",) + tuple(out)


def f_or(*fs: Formula) -> Formula:
    out = []
    for f in fs:
        if f is False:
            continue
        if f is True:
            return True
        out.append(f)
    if not out:
        return False
    return out[0] if len(out) == 1 else ("or",) + tuple(out)


def f_not(f: Formula) -> Formula:
    if f is True:
        return False
    if f is False:
        return True
    if isinstance(f, tuple) and f[0] == "not":
        return f[1]
    return ("not", f)


def A(name: str) -> Formula:
    return ("atom", name)


def f_eval(f: Formula, val: Dict[str, bool]) -> bool:
    if f is True or f is False:
        return f
    tag = f[0]
    if tag == "atom":
        if f[1] not in val:
            raise AnalysisError("formula uses atom %s outside the rule's vocabulary" % f[1])
        return val[f[1]]
    if tag == "not":
        return not f_eval(f[1], val)
    if tag == "and":
        return all(f_eval(x, val) for x in f[1:])
    if tag == "or":
        return any(f_eval(x, val) for x in f[1:])
    raise AnalysisError("bad formula %r" % (f,))


def f_atoms(f: Formula) -> List[str]:
    out: List[str] = []

    def rec(g: Formula) -> None:
        if g is True or g is False:
            return
        if g[0] == "atom":
            if g[1] not in out:
                out.append(g[1])
        else:
            for x in g[1:]:
                rec(x)

    rec(f)
    return out


def f_str(f: Formula) -> str:
    if f is True:
        return "T"
    if f is False:
        return "F"
    if f[0] == "atom":
        return f[1]
    if f[0] == "not":
        return "!" + f_str(f[1])
    sep = " & " if f[0] == "and" else " | "
    return "(" + sep.join(f_str(x) for x in f[1:]) + ")"


def valuations(atoms: Sequence[str], constraint: Optional[Callable[[Dict[str, bool]], bool]] = None) -> Iterable[Dict[str, bool]]:
    for bits in itertools.product([False, True], repeat=len(atoms)):
        v = dict(zip(atoms, bits))
        if constraint is None or constraint(v):
            yield v


def to_formula(e: Any, atomize: Callable[[ast.expr], Formula]) -> Formula:
    """Boolean structure is handled here; leaves go to the rule's atomizer (which must raise AnalysisError if unknown)."""
    if isinstance(e, tuple):  # marker
        return atomize(e)  # type: ignore
    if isinstance(e, ast.BoolOp):
        parts = [to_formula(v, atomize) for v in e.values]
        return f_and(*parts) if isinstance(e.op, ast.And) else f_or(*parts)
    if isinstance(e, ast.UnaryOp) and isinstance(e.op, ast.Not):
        return f_not(to_formula(e.operand, atomize))
    if isinstance(e, ast.Compare) and len(e.ops) > 1:
        parts = []
        left = e.left
        for op, c in zip(e.ops, e.comparators):
            parts.append(to_formula(ast.Compare(left=left, ops=[op], comparators=[c]), atomize))
            left = c
        return f_and(*parts)
    if isinstance(e, ast.Constant) and isinstance(e.value, bool):
        return e.value
    return atomize(e)


def path_formula(p: Path, atomize: Callable[[Any], Formula], skip_asserts: bool = True) -> Formula:
    fs = []
    for c, pol in p.conds:
        if isinstance(c, tuple) and c[0] == "assert":
            if skip_asserts:
                continue
            f = to_formula(c[1], atomize)
        else:
            f = to_formula(c, atomize)
        fs.append(f if pol else f_not(f))
    return f_and(*fs)


def compare_sides(e: ast.expr) -> Optional[Tuple[str, str, str]]:
    """`a OP b` -> (norm(a), opname, norm(b)) for a single comparison."""
    if isinstance(e, ast.Compare) and len(e.ops) == 1:
        return norm(e.left), type(e.ops[0]).__name__, norm(e.comparators[0])
    return None
