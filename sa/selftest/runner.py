"""
Checker self-validation (thorough tier): every corpus variant is a small source edit applied to a *scratch copy*
of /repo/pydsdl (tempfile, removed afterwards), analysed statically with the same rules.

  expect = "fire"    the rules must report a violation (optionally: by one of the named rules)
  expect = "silent"  a behaviour-preserving refactor: the rules must stay silent

A must-fire variant that stays silent or a silent variant that fires is a *checker* defect: ANALYSIS-ERROR (exit 2),
never a VIOLATION.  Variants whose anchor text no longer exists in a modified /repo are skipped and counted.
"""
from __future__ import annotations

import ast
import os
import shutil
import tempfile
import time
from concurrent.futures import ProcessPoolExecutor
from pathlib import Path
from typing import Any, Dict, List, Tuple

from . import corpus


def _copy_tree(src_root: str, dst_root: Path) -> None:
    src = Path(src_root) / "pydsdl"
    dst = dst_root / "pydsdl"

    def ignore(d: str, names: List[str]) -> List[str]:
        out = []
        for n in names:
            if n in ("__pycache__", "third_party") or n.endswith(".pyc"):
                out.append(n)
            elif n.startswith("_test") and n.endswith(".py"):
                out.append(n)
        return out

    shutil.copytree(src, dst, ignore=ignore)


def _apply_patch(patch: str, root: Path) -> str:
    import subprocess

    pp = Path(__file__).resolve().parents[2] / patch
    if not pp.exists():
        return "broken-variant: patch %s missing" % patch
    r = subprocess.run(["git", "apply", "--include=pydsdl/*", "--exclude=*/_test*", str(pp)], cwd=str(root), capture_output=True, text=True)
    if r.returncode != 0:
        return "skipped: patch does not apply to this tree (%s)" % (r.stderr.strip().splitlines() or ["?"])[0][:120]
    return ""


def _apply(variant: Dict[str, Any], root: Path) -> str:
    if variant.get("patch"):
        return _apply_patch(variant["patch"], root)
    edits = variant.get("edits") or [variant]
    for e in edits:
        p = root / e["file"]
        if not p.exists():
            return "skipped: file %s missing" % e["file"]
        text = p.read_text(encoding="utf8")
        n = text.count(e["old"])
        want = e.get("count", 1)
        if n != want:
            return "skipped: anchor text occurs %d times (expected %d) in %s" % (n, want, e["file"])
        text = text.replace(e["old"], e["new"])
        if p.suffix == ".py":
            try:
                ast.parse(text)
            except SyntaxError as ex:
                return "broken-variant: %s" % ex
        p.write_text(text, encoding="utf8")
    return ""


def _run_one(args: Tuple[Dict[str, Any], str]) -> Dict[str, Any]:
    variant, repo_root = args
    from ..run import run_property

    t0 = time.time()
    os.environ["SA_INNER_JOBS"] = "1"  # the variants already occupy the cores: evaluations inside one check run in sequence
    tmp = Path(tempfile.mkdtemp(prefix="pydsdl-sa-variant-"))
    try:
        _copy_tree(repo_root, tmp)
        msg = _apply(variant, tmp)
        if msg:
            return {"id": variant["id"], "outcome": msg.split(":")[0], "detail": msg, "wall_s": time.time() - t0}
        res = run_property(variant["prop"], str(tmp), "quick")
        fired_rules = sorted({i.rule for i in res["violations"]})
        first = res["violations"][0] if res["violations"] else None
        out = {
            "id": variant["id"],
            "status": res["status"],
            "fired_rules": fired_rules,
            "errors": res["errors"][:2],
            "first": ("%s %s :: %s" % (first.rule, first.construct, first.message)) if first else None,
            "wall_s": time.time() - t0,
        }
        exp = variant["expect"]
        if exp == "fire":
            good = res["status"] == "violation" and (not variant.get("rules") or bool(set(variant["rules"]) & set(fired_rules)))
        elif exp == "no-violation":
            good = res["status"] != "violation"  # the change is about another property: it may or may not be analysable here
        elif exp == "any":
            good = True
        else:
            good = res["status"] == "ok"
        out["outcome"] = "as-expected" if good else "MISMATCH"
        return out
    finally:
        shutil.rmtree(tmp, ignore_errors=True)


def run_variants(variants: List[Dict[str, Any]], repo_root: str, jobs: int = 0) -> List[Dict[str, Any]]:
    jobs = jobs or min(16, os.cpu_count() or 4)
    if not variants:
        return []
    with ProcessPoolExecutor(max_workers=jobs) as ex:
        return list(ex.map(_run_one, [(v, repo_root) for v in variants]))


def run_for_property(prop: str, repo_root: str) -> Tuple[Dict[str, Any], List[str]]:
    t0 = time.time()
    variants = [v for v in corpus.VARIANTS if v["prop"] == prop]
    if os.environ.get("SA_SELFTEST_SKIP"):  # developer convenience: e.g. SA_SELFTEST_SKIP=refac- while working on the hand-written corpus
        variants = [v for v in variants if not v["id"].startswith(tuple(os.environ["SA_SELFTEST_SKIP"].split(",")))]
    results = run_variants(variants, repo_root)
    errors = []
    by = {v["id"]: v for v in variants}
    n_ok = n_skip = 0
    for r in results:
        if r["outcome"] == "as-expected":
            n_ok += 1
        elif r["outcome"].startswith("skipped"):
            n_skip += 1
        else:
            v = by[r["id"]]
            errors.append(
                "selftest variant %s (%s, expect %s%s): %s status=%s fired=%s %s"
                % (r["id"], v.get("what", ""), v["expect"], " by " + ",".join(v["rules"]) if v.get("rules") else "", r["outcome"], r.get("status"), r.get("fired_rules"), r.get("errors") or r.get("detail") or "")
            )
    fire = sum(1 for v in variants if v["expect"] == "fire")
    cross = sum(1 for v in variants if v["expect"] in ("no-violation", "any"))
    refac = sum(1 for v in variants if v["id"].startswith("refac-"))
    extra = {
        "selftest": [
            {k: r.get(k) for k in ("id", "outcome", "status", "fired_rules", "first")} | {"expect": by[r["id"]]["expect"], "what": by[r["id"]].get("what", "")}
            for r in results
        ],
        "selftest_summary": "%d/%d as expected (%d must-fire, %d must-stay-silent of which %d independent behaviour-preserving refactorings, %d seeded changes to other properties that must not raise a violation here, %d skipped)" % (n_ok, len(variants), fire, len(variants) - fire - cross, refac, cross, n_skip),
        "selftest_wall_s": round(time.time() - t0, 2),
    }
    return extra, errors
