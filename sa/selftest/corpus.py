"""
Variant corpus for checker self-validation (see runner.py).  Each entry: id, prop, what, expect ("fire"/"silent"),
optional rules (at least one of them must be among the firing rules), and either file/old/new or a list of edits.
All edits keep the code importable.  One module per property under variants/.
"""
from __future__ import annotations

import importlib
import pkgutil
from typing import Any, Dict, List

from . import variants as _v

VARIANTS: List[Dict[str, Any]] = []
for _m in sorted(pkgutil.iter_modules(_v.__path__), key=lambda m: m.name):
    VARIANTS.extend(importlib.import_module(_v.__name__ + "." + _m.name).VARIANTS)
_ids = [v["id"] for v in VARIANTS]
assert len(_ids) == len(set(_ids)), "duplicate variant ids"
