"""
Variant corpus for checker self-validation (see runner.py).  Each entry: id, prop, what, expect ("fire"/"silent"),
optional rules (at least one of them must be among the firing rules), and either file/old/new or a list of edits.
All edits keep the code importable.
"""
from __future__ import annotations

from typing import Any, Dict, List

ATTR = "pydsdl/_serializable/_attribute.py"
PRIM = "pydsdl/_serializable/_primitive.py"

VARIANTS: List[Dict[str, Any]] = [
    # ------------------------------------------------------------------------------------------------ C12
    dict(id="c12-range-lt", prop="C12", what="range guard uses < at the lower bound", expect="fire", rules=["C12.R1"],
         file=ATTR, old="rng.min <= self._value.native_value <= rng.max", new="rng.min < self._value.native_value <= rng.max"),
    dict(id="c12-range-upper-lt", prop="C12", what="range guard uses < at the upper bound", expect="fire", rules=["C12.R1"],
         file=ATTR, old="rng.min <= self._value.native_value <= rng.max", new="rng.min <= self._value.native_value < rng.max"),
    dict(id="c12-signed-half", prop="C12", what="signed range off by one", expect="fire", rules=["C12.R2"],
         file=PRIM, old="uint_max_half = ((1 << self.bit_length) - 1) // 2", new="uint_max_half = ((1 << self.bit_length) - 1) // 2 + 1"),
    dict(id="c12-unsigned-max", prop="C12", what="unsigned max is 2**n", expect="fire", rules=["C12.R2"],
         file=PRIM, old="max=fractions.Fraction((1 << self.bit_length) - 1))", new="max=fractions.Fraction(1 << self.bit_length))"),
    dict(id="c12-float16-mantissa", prop="C12", what="float16 limit computed with 11 mantissa bits", expect="fire", rules=["C12.R2"],
         file=PRIM, old="frac(2) ** frac(-10)", new="frac(2) ** frac(-11)"),
    dict(id="c12-string-any-uint", prop="C12", what="1-char strings accepted for any unsigned width", expect="fire", rules=["C12.R1"],
         file=ATTR, old="if not isinstance(data_type, UnsignedIntegerType) or data_type.bit_length != 8:", new="if not isinstance(data_type, UnsignedIntegerType):"),
    dict(id="c12-float-rounded", prop="C12", what="float constants stored rounded through float()", expect="fire", rules=["C12.R4"],
         file=ATTR, old='                raise InvalidConstantValueError("Invalid value type for float constant: %r" % self._value)\n',
         new='                raise InvalidConstantValueError("Invalid value type for float constant: %r" % self._value)\n            self._value = _expression.Rational(float(self._value.native_value))\n'),
    dict(id="c12-silent-signed-spelling", prop="C12", what="2**(n-1)-1 spelling of the signed limit", expect="silent",
         file=PRIM, old="uint_max_half = ((1 << self.bit_length) - 1) // 2", new="uint_max_half = 2 ** (self.bit_length - 1) - 1"),
    dict(id="c12-silent-not-gt", prop="C12", what="range guard rewritten with explicit comparisons", expect="silent",
         file=ATTR, old="if not (rng.min <= self._value.native_value <= rng.max):", new="if self._value.native_value < rng.min or self._value.native_value > rng.max:"),
]
