"""Static-analysis machinery for the pydsdl properties (see /verif/DESIGN.md). Stdlib only."""
