"""
Abstract evaluation of one (helper-expanded) function body over rule-defined abstract operands.

The value domain is chosen by the rule: concrete small integers from an exhaustively enumerated finite grid, `Sym`
records standing for objects of the model (a field type with a symbolic length set and an alignment), and `Abstract`
values with Python-implemented operations that *build terms instead of computing* (layout terms, trace events).
Statements supported: assignment (names, tuples, attributes of the abstract `self`), augmented assignment, if / for / while
on decidable tests, return, raise (-> Raised), assert (ignored: beliefs), try / except on Raised, pass, del, expression
statements that call methods of local lists / sets (append, add, extend, update, discard, remove) or abstract values, and
`yield` (collected).  Anything else -> Unfoldable, which the rule turns into ANALYSIS-ERROR.  No repository code is
imported or run; the tree that is walked is the syntax tree of the function under analysis.
"""
from __future__ import annotations

from fractions import Fraction

import ast
from typing import Any, Callable, Dict, List, Optional, Sequence

from .core import ClassInfo, Module, Repo, dotted, unparse
from .fold import Abstract, FoldKeyError, Folder, Sym, Unfoldable


CHECK_ASSERTS: List[bool] = []  # non-empty while a rule wants `assert` statements evaluated (see checking_asserts)
EVAL_MESSAGES: List[bool] = []  # non-empty while the arguments of `raise K(<message>)` are evaluated too (concrete worlds): an
# exception met while the message is being built is what the program raises instead of K


class checking_asserts:
    def __enter__(self) -> None:
        CHECK_ASSERTS.append(True)

    def __exit__(self, *a: Any) -> None:
        CHECK_ASSERTS.pop()


class Raised(Exception):
    """the evaluated code reached `raise K(...)`"""

    def __init__(self, cls_name: str, node: ast.AST):
        super().__init__(cls_name)
        self.cls_name = cls_name
        self.node = node


class AExc(Sym):
    """the exception object bound by `except K as ex`: its class name and the location stamped on it so far"""

    def __init__(self, cls_name: str, path: Any = None, line: Any = None):
        super().__init__(cls_name=cls_name, path=path, line=line)

    def set_error_location_if_unknown(self, path: Any = None, line: Any = None) -> None:
        if self.path is None and path is not None:
            self.path = path
        if self.line is None and line is not None:
            self.line = line


class _Return(Exception):
    def __init__(self, value: Any):
        self.value = value


class _BodyReturn(_Return):
    """a `return` of the with-block that is being run in place of a context manager's `yield`"""


class _Break(Exception):
    pass


class _Continue(Exception):
    pass


def _inplace(folder: Any, cur: Any, op: ast.operator, rhs: Any) -> Any:
    """`x op= y` on a mutable container changes the object x is bound to (every other reference sees it) - Python's
    semantics, which an aliasing defect depends on; immutable values and instances without an in-place method fall back to
    the binary operator (NotImplemented)"""
    if isinstance(cur, Abstract):
        if type(cur).__name__ == "AObj" and cur._record() is None:
            nm = {ast.Add: "__iadd__", ast.Sub: "__isub__", ast.BitOr: "__ior__", ast.BitAnd: "__iand__", ast.BitXor: "__ixor__", ast.Mult: "__imul__"}.get(type(op))
            m = cur._ctx_.repo.lookup_method(cur._cls_, nm) if nm else None
            if m is not None:
                return _BoundMethod(cur, m).call(folder, [rhs], {})
        return NotImplemented
    if isinstance(rhs, Abstract) and not hasattr(rhs, "__iter__"):
        return NotImplemented
    try:
        if isinstance(cur, (list, bytearray)) and isinstance(op, ast.Add):
            cur += rhs
            return cur
        if isinstance(cur, (list, bytearray)) and isinstance(op, ast.Mult) and isinstance(rhs, int):
            if len(cur) * max(rhs, 0) > 1000000:
                return NotImplemented
            cur *= rhs
            return cur
        if isinstance(cur, set) and isinstance(rhs, (set, frozenset)):
            if isinstance(op, ast.BitOr):
                cur |= rhs
            elif isinstance(op, ast.BitAnd):
                cur &= rhs
            elif isinstance(op, ast.Sub):
                cur -= rhs
            elif isinstance(op, ast.BitXor):
                cur ^= rhs
            else:
                return NotImplemented
            return cur
        if isinstance(cur, dict) and isinstance(op, ast.BitOr) and isinstance(rhs, dict):
            cur.update(rhs)
            return cur
    except TypeError:
        return NotImplemented
    return NotImplemented


class Evaluator(Folder):
    def __init__(self, env: Optional[Dict[str, Any]] = None, repo: Optional[Repo] = None, mod: Optional[Module] = None, cls: Optional[ClassInfo] = None, hook: Optional[Callable[[ast.expr, Folder], Any]] = None, max_steps: int = 200000):
        super().__init__(env, repo, mod, cls, hook)
        self.env = env if env is not None else {}  # shared, mutable
        self.steps = 0
        self.max_steps = max_steps
        self.yielded: List[Any] = []

    # ------------------------------------------------------------------ entry points
    def run(self, stmts: Sequence[ast.stmt]) -> Any:
        """value returned by the body (None when control falls off the end); Raised propagates"""
        try:
            self._block(stmts)
        except _Return as r:
            return r.value
        return None

    # ------------------------------------------------------------------ expressions: a few additions to the folder
    def _fold(self, e: ast.expr) -> Any:
        if isinstance(e, ast.Call) and dotted(e.func) == "set" and len(e.args) <= 1 and not e.keywords and "set" not in self.env:
            return set(self.fold(e.args[0])) if e.args else set()  # mutable, shared by reference as in the evaluated program
        if isinstance(e, ast.Call) and isinstance(e.func, ast.Attribute) and e.func.attr in ("pop", "popitem", "popleft") and not e.keywords:
            # value-returning mutators of a mutable collection of the evaluated program (work lists, stacks)
            try:
                recv = self.fold(e.func.value)
            except Unfoldable:
                recv = NotImplemented
            if isinstance(recv, (list, set, dict)) and e.func.attr in ("pop", "popitem"):
                try:
                    return getattr(recv, e.func.attr)(*[self.fold(a) for a in e.args])
                except (IndexError, KeyError) as ex:
                    raise Raised(type(ex).__name__, e)
        if isinstance(e, ast.Yield):
            self.yielded.append(self.fold(e.value) if e.value is not None else None)
            return None
        if isinstance(e, ast.YieldFrom):
            # generators are evaluated eagerly: what the delegate yields is yielded here, in order
            self.yielded.extend(list(self.fold(e.value)))
            return None
        if isinstance(e, ast.NamedExpr) and isinstance(e.target, ast.Name):
            v = self.fold(e.value)
            self.env[e.target.id] = v
            return v
        return super()._fold(e)

    # ------------------------------------------------------------------ statements
    def _block(self, stmts: Sequence[ast.stmt]) -> None:
        for st in stmts:
            self.steps += 1
            if self.steps > self.max_steps:
                raise Unfoldable("step limit")
            try:
                self._stmt(st)
            except FoldKeyError as ex:
                # a failed lookup in a literal table / list is what the evaluated program would see as KeyError / IndexError
                raise Raised(ex.kind, st)

    def _assign(self, t: ast.AST, v: Any) -> None:
        if isinstance(t, ast.Name):
            self.env[t.id] = v
            if t.id in self.__dict__.get("nonlocals", ()) and self.__dict__.get("outer_env") is not None:
                self.outer_env[t.id] = v  # `nonlocal x` / `global x`: the binding of the defining frame is rebound
        elif isinstance(t, (ast.Tuple, ast.List)):
            vals = list(v)
            stars = [i for i, x in enumerate(t.elts) if isinstance(x, ast.Starred)]
            if len(stars) == 1:
                # `a, *rest, z = xs`: the starred name takes what the others leave, as a list
                i = stars[0]
                after = len(t.elts) - i - 1
                if len(vals) < len(t.elts) - 1:
                    raise Raised("ValueError", t)
                for a, b in zip(t.elts[:i], vals[:i]):
                    self._assign(a, b)
                self._assign(t.elts[i].value, vals[i : len(vals) - after])  # type: ignore
                for a, b in zip(t.elts[i + 1 :], vals[len(vals) - after :] if after else []):
                    self._assign(a, b)
                return
            if len(vals) != len(t.elts):
                raise Unfoldable("unpacking " + unparse(t))
            for a, b in zip(t.elts, vals):
                self._assign(a, b)
        elif isinstance(t, ast.Attribute):
            base = self.fold(t.value)
            if isinstance(base, Sym):
                setattr(base, t.attr, v)
            else:
                raise Unfoldable("store to " + unparse(t))
        elif isinstance(t, ast.Subscript):
            base = self.fold(t.value)
            if type(base).__name__ == "AObj" and "_base_" in base.__dict__ and not _defines(base, "__setitem__"):
                base = base.__dict__["_base_"]
            if isinstance(base, (list, dict, bytearray)):
                if isinstance(t.slice, ast.Slice):
                    lo = self.fold(t.slice.lower) if t.slice.lower is not None else None
                    hi = self.fold(t.slice.upper) if t.slice.upper is not None else None
                    st_ = self.fold(t.slice.step) if t.slice.step is not None else None
                    base[slice(lo, hi, st_)] = v
                else:
                    try:
                        base[self.fold(t.slice)] = v
                    except (IndexError, ValueError) as ex:
                        raise Raised(type(ex).__name__, t)
            else:
                raise Unfoldable("store to " + unparse(t))
        else:
            raise Unfoldable("store to " + unparse(t))

    def _local_import(self, st: ast.ImportFrom) -> None:
        """`from .x import Name` inside a function (a lazy import that breaks an import cycle): the names of the package it
        binds are bound in the local environment; imports of foreign modules are left to the name resolution of the module"""
        pkg = self.mod.name.split(".")
        base = pkg[: len(pkg) - st.level] if st.level else []
        target = ".".join(base + (st.module.split(".") if st.module else []))
        for a in st.names:
            if a.name == "*":
                continue
            bound: Any = None
            if target + "." + a.name in self.repo.modules:
                bound = self.repo.modules[target + "." + a.name]
            elif target in self.repo.modules:
                bound = self.repo.module_member(target, a.name)
            if isinstance(bound, ClassInfo):
                self.env[a.asname or a.name] = bound
            elif type(bound).__name__ == "FuncInfo":
                self.env[a.asname or a.name] = FnRef(self.repo, bound, self.hook)
            # (a module or a constant: resolved through the defining module when the name is used)

    def _truth(self, e: ast.expr) -> bool:
        v = self.fold(e)
        if isinstance(v, Abstract) and not isinstance(v, Sym) and not isinstance(v, APath) and "__bool__" not in type(v).__dict__ and not any("__bool__" in k.__dict__ or "__len__" in k.__dict__ for k in type(v).__mro__[:-1] if k is not Abstract):
            raise Unfoldable("truth value of an abstract value: " + unparse(e))
        return bool(v)

    def _stmt(self, st: ast.stmt) -> None:
        if isinstance(st, ast.Assign):
            v = self.fold(st.value)
            for t in st.targets:
                self._assign(t, v)
        elif isinstance(st, ast.AnnAssign):
            if st.value is not None:
                self._assign(st.target, self.fold(st.value))
        elif isinstance(st, ast.AugAssign):
            cur = self.fold(ast.copy_location(_load(st.target), st))
            rhs = self.fold(st.value)
            val = _inplace(self, cur, st.op, rhs)
            if val is NotImplemented:
                val = self.fold(ast.BinOp(left=_Const(cur), op=st.op, right=_Const(rhs)))
            self._assign(st.target, val)
        elif isinstance(st, ast.Expr):
            self._expr_stmt(st.value)
        elif isinstance(st, ast.If):
            self._block(st.body if self._truth(st.test) else st.orelse)
        elif isinstance(st, ast.For):
            it = self.fold(st.iter)
            proto = isinstance(it, Abstract) and hasattr(it, "loop_begin")
            import itertools as _it

            try:
                if isinstance(it, _it.count):
                    items = _it.islice(it, 100000)  # an endless counter: the loop has to leave by return / break / raise
                else:
                    items = it.loop_items() if proto else list(it)
            except TypeError:
                raise Unfoldable("not iterable: " + unparse(st.iter))
            broke = False
            if proto:
                it.loop_begin()
            try:
                for v in items:
                    self._assign(st.target, v)
                    try:
                        self._block(st.body)
                    except _Break:
                        broke = True
                        break
                    except _Continue:
                        continue
            finally:
                if proto:
                    it.loop_end()
            if not broke:
                self._block(st.orelse)
        elif isinstance(st, ast.While):
            n = 0
            broke_w = False
            while self._truth(st.test):
                n += 1
                if n > 10000:
                    raise Unfoldable("loop bound")
                try:
                    self._block(st.body)
                except _Break:
                    broke_w = True
                    break
                except _Continue:
                    continue
            if not broke_w:
                self._block(st.orelse)  # `while ... else`: runs when the condition turned false
        elif isinstance(st, ast.Return):
            raise _Return(self.fold(st.value) if st.value is not None else None)
        elif isinstance(st, ast.Raise):
            name = "?"
            exc_obj = None
            if st.exc is None:
                cur = self.env.get("__current_exception__")
                if isinstance(cur, AExc):
                    exc_obj, name = cur, cur.cls_name
                elif isinstance(cur, AObj):
                    exc_obj, name = cur, cur._cls_.name  # an exception *instance* of the repository (made by a call, raised later)
            else:
                if isinstance(st.exc, ast.Name) and isinstance(self.env.get(st.exc.id), AExc):
                    exc_obj = self.env[st.exc.id]
                    name = exc_obj.cls_name
                else:
                    f = st.exc.func if isinstance(st.exc, ast.Call) else st.exc
                    name = (dotted(f) or "?").split(".")[-1]
                    # `raise helper(...)` / `raise obj`: what is raised is the object the expression evaluates to
                    target = None
                    if self.repo is not None and self.mod is not None and isinstance(f, (ast.Name, ast.Attribute)):
                        d0 = dotted(f) or ""
                        if isinstance(f, ast.Attribute) and isinstance(f.value, ast.Name) and f.value.id in ("self", "cls") and self.cls is not None:
                            target = self.repo.lookup_method(self.cls, f.attr)
                        elif d0.split(".")[0] in self.env:
                            target = self.env.get(d0) if "." not in d0 else "value"
                        else:
                            try:
                                target = self.repo.resolve_expr(self.mod, f, self.cls)
                            except Exception:
                                target = None
                    if isinstance(target, ClassInfo) or type(target).__name__ == "_TypeOf":
                        name = (target if isinstance(target, ClassInfo) else target.cls).name  # a class held in a variable
                    builtin_exc = isinstance(target, type) and issubclass(target, BaseException)
                    if builtin_exc:
                        name = target.__name__  # a builtin exception class held in a variable / handed in as an argument
                    if target is not None and not builtin_exc and not isinstance(target, ClassInfo) and type(target).__name__ not in ("External", "_TypeOf"):
                        v = self.fold(st.exc)
                        if isinstance(v, AExc):
                            r0 = Raised(v.cls_name, st)
                            r0.exc = v  # type: ignore
                            raise r0
                        if isinstance(v, AObj):
                            r0 = Raised(v._cls_.name, st)
                            r0.exc = v  # type: ignore
                            raise r0
                        raise Unfoldable("raise of %r" % (v,))
                    if isinstance(st.exc, ast.Call) and EVAL_MESSAGES:
                        for a_ in st.exc.args:
                            try:
                                self.fold(a_)
                            except Unfoldable:
                                pass  # the text of the message is not known; the exception is raised all the same
                    if isinstance(st.exc, ast.Call):
                        kw = {}
                        for k in st.exc.keywords:
                            if k.arg in ("path", "line"):
                                try:
                                    kw[k.arg] = self.fold(k.value)
                                except Unfoldable:
                                    pass
                        exc_obj = AExc(name, **kw)
            r = Raised(name, st)
            r.exc = exc_obj  # type: ignore
            raise r
        elif isinstance(st, (ast.Assert, ast.Pass, ast.Import, ast.ImportFrom, ast.FunctionDef)):
            if isinstance(st, ast.ImportFrom) and self.repo is not None and self.mod is not None:
                self._local_import(st)
            if isinstance(st, ast.Assert) and CHECK_ASSERTS:
                # (only where a rule asks for it) an assertion that evaluates to false is the AssertionError it would be;
                # one that cannot be evaluated over the rule's operands stays the assumption it is everywhere else
                try:
                    holds = self._truth(st.test)
                except Unfoldable:
                    holds = True
                if not holds:
                    raise Raised("AssertionError", st)
            if isinstance(st, ast.FunctionDef):
                from .fold import _LocalFn

                self.env[st.name] = _LocalFn(st, self.env, (self.mod, self.cls))
        elif isinstance(st, (ast.Nonlocal, ast.Global)):
            if self.__dict__.get("outer_env") is None:
                raise Unfoldable("statement %s outside a local function" % type(st).__name__)
            self.__dict__.setdefault("nonlocals", set()).update(st.names)
        elif isinstance(st, ast.ClassDef):
            self.env[st.name] = LocalClass(st, self)
        elif isinstance(st, ast.Delete):
            for t in st.targets:
                if isinstance(t, ast.Name):
                    self.env.pop(t.id, None)
        elif isinstance(st, ast.Break):
            raise _Break()
        elif isinstance(st, ast.Continue):
            raise _Continue()
        elif isinstance(st, ast.Try):
            try:
                self._block(st.body)
            except Raised as r:
                for h in st.handlers:
                    names = []
                    if h.type is not None:
                        ts = h.type.elts if isinstance(h.type, ast.Tuple) else [h.type]
                        names = [(dotted(t) or "?").split(".")[-1] for t in ts]
                    if h.type is None or r.cls_name in names or self._is_subclass(r.cls_name, names):
                        ex_obj = getattr(r, "exc", None) or AExc(r.cls_name)
                        if h.name:
                            self.env[h.name] = ex_obj
                        self.env["__current_exception__"] = ex_obj
                        self._block(h.body)
                        break
                else:
                    raise
            else:
                self._block(st.orelse)
            finally:
                pass
            self._block(st.finalbody)
        elif isinstance(st, ast.With) and len(st.items) == 1 and self._generator_cm(st.items[0].context_expr) is not None:
            # `with self._helper(...):` where the helper is a generator function under contextlib.contextmanager with a single
            # `yield`: the with-body runs where the yield stands (an exception of the body surfaces at the yield, inside
            # whatever try / except the helper wraps around it)
            fn_, call_ = self._generator_cm(st.items[0].context_expr)  # type: ignore
            node = self.repo_ctx().inl(fn_) if self.repo is not None else fn_.node
            ys = [n for n in ast.walk(node) if isinstance(n, ast.Expr) and isinstance(n.value, ast.Yield)]
            if len(ys) != 1 or any(isinstance(n, ast.YieldFrom) for n in ast.walk(node)):
                raise Unfoldable("context manager %s: expected exactly one `yield` statement" % fn_.name)
            yielded = ys[0].value.value  # type: ignore
            body: List[ast.stmt] = []
            if st.items[0].optional_vars is not None:
                body.append(ast.Assign(targets=[st.items[0].optional_vars], value=yielded if yielded is not None else ast.Constant(value=None), lineno=st.lineno, col_offset=0))
            body.extend(st.body)

            import copy as _copy

            # the helper's own frame: its parameters bound to the arguments; the with-body keeps the caller's frame.  Names of
            # the two frames are kept apart by running the helper's statements in an environment layered over the caller's
            helper_env = self._bind_call(fn_, call_)
            outer = self

            the_yield = ys[0]

            class _Inlined(Evaluator):
                def _stmt(self, s: ast.stmt) -> None:  # type: ignore
                    if s is the_yield:
                        # (the tree is shared and left as it is: the manager may be entered again inside its own block)
                        try:
                            outer._block(body)
                        except _Return as r_:
                            raise _BodyReturn(r_.value)  # `return` inside the with-block leaves the *enclosing* function
                        return
                    super()._stmt(s)

            ev = _Inlined(helper_env, self.repo, fn_.module, fn_.cls, self.hook)
            ev.depth = self.depth + 1
            try:
                ev._block(body_without_docstring_(node))
            except _BodyReturn as br_:
                raise _Return(br_.value)
            except _Return:
                pass
        elif isinstance(st, ast.With):
            entered = []
            for item in st.items:
                cm = self.fold(item.context_expr)
                if not (isinstance(cm, Abstract) and hasattr(cm, "__enter__") and hasattr(cm, "__exit__")):
                    raise Unfoldable("with statement over " + unparse(item.context_expr))
                v = cm.__enter__()
                entered.append(cm)
                if item.optional_vars is not None:
                    self._assign(item.optional_vars, v)
            try:
                self._block(st.body)
            finally:
                for cm in reversed(entered):
                    cm.__exit__(None, None, None)
        else:
            raise Unfoldable("statement " + type(st).__name__)

    def repo_ctx(self) -> Any:
        return _RepoShim(self.repo)

    def _generator_cm(self, e: ast.expr) -> Any:
        """(function, call) when `e` calls a method / function of the repository decorated with contextlib.contextmanager"""
        if not (isinstance(e, ast.Call) and self.repo is not None and self.mod is not None):
            return None
        fn_ = None
        try:
            if isinstance(e.func, ast.Attribute) and isinstance(e.func.value, ast.Name) and e.func.value.id in ("self", "cls"):
                obj = self.env.get(e.func.value.id)
                k_ = obj._cls_ if type(obj).__name__ == "AObj" else (obj if isinstance(obj, ClassInfo) else self.cls)
                fn_ = self.repo.lookup_method(k_, e.func.attr) if k_ is not None else None
            elif isinstance(e.func, (ast.Name, ast.Attribute)) and (dotted(e.func) or "?").split(".")[0] not in self.env:
                fn_ = self.repo.resolve_expr(self.mod, e.func, self.cls)
        except Exception:
            fn_ = None
        if fn_ is None or type(fn_).__name__ != "FuncInfo":
            return None
        if not any((dotted(d.func) if isinstance(d, ast.Call) else dotted(d) or "").split(".")[-1] == "contextmanager" for d in fn_.node.decorator_list):
            return None
        return fn_, e

    def _bind_call(self, fn_: Any, call: ast.Call) -> Dict[str, Any]:
        a = fn_.node.args
        params = [x.arg for x in a.posonlyargs + a.args]
        env: Dict[str, Any] = {}
        if fn_.cls is not None and not fn_.is_static and params:
            recv = call.func.value if isinstance(call.func, ast.Attribute) else None
            env[params[0]] = self.fold(recv) if recv is not None else None
            params = params[1:]
        vals = [self.fold(x) for x in call.args]
        if len(vals) > len(params):
            raise Unfoldable("too many arguments for %s" % fn_.name)
        env.update(zip(params, vals))
        env.update({k.arg: self.fold(k.value) for k in call.keywords if k.arg})
        defaults = dict(zip(reversed(params), reversed(a.defaults)))
        for p_ in params:
            if p_ not in env:
                if p_ not in defaults:
                    raise Unfoldable("missing argument %s of %s" % (p_, fn_.name))
                env[p_] = Folder({}, self.repo, fn_.module, fn_.cls).fold(defaults[p_])
        return env

    def _is_subclass(self, name: str, bases: List[str]) -> bool:
        if "Exception" in bases or "BaseException" in bases:
            return True
        if self.repo is None:
            return False
        k = next((c for c in self.repo.all_classes().values() if c.name == name), None)
        if k is None:
            import builtins as _b
            import decimal as _dec

            # an exception class of the host language: its own hierarchy decides
            exc = getattr(_b, name, None) or getattr(_dec, name, None)
            if isinstance(exc, type) and issubclass(exc, BaseException):
                return any(c.__name__ in bases for c in exc.__mro__)
            return False
        for b in self.repo.mro(k):
            nm = getattr(b, "name", None) or getattr(b, "dotted", "").split(".")[-1]
            if nm in bases:
                return True
        return False

    def _expr_stmt(self, e: ast.expr) -> None:
        if isinstance(e, ast.Constant):
            return  # docstring
        if isinstance(e, ast.Call) and isinstance(e.func, ast.Attribute) and not e.keywords:
            m = e.func.attr
            try:
                recv = self.fold(e.func.value)
            except Unfoldable:
                recv = NotImplemented
            if isinstance(recv, bytearray) and m in ("append", "extend", "clear", "pop", "insert", "reverse"):
                try:
                    getattr(recv, m)(*[self.fold(a) for a in e.args])
                except (ValueError, IndexError, TypeError) as ex:
                    raise Raised(type(ex).__name__, e)
                return
            if isinstance(recv, list) and m in ("append", "extend", "insert", "sort", "reverse", "clear", "pop", "remove"):
                try:
                    getattr(recv, m)(*[self.fold(a) for a in e.args])
                except (ValueError, IndexError) as ex:
                    raise Raised(type(ex).__name__, e)
                return
            if isinstance(recv, set) and m in ("add", "update", "discard", "remove", "clear", "pop", "difference_update", "intersection_update"):
                try:
                    getattr(recv, m)(*[self.fold(a) for a in e.args])  # shared with whoever else holds this set
                except KeyError:
                    raise Raised("KeyError", e)
                return
            if isinstance(recv, frozenset) and m in ("add", "update", "discard", "remove", "clear") and isinstance(e.func.value, ast.Name):
                s = set(recv)
                try:
                    getattr(s, m)(*[self.fold(a) for a in e.args])
                except KeyError:
                    raise Raised("KeyError", e)
                self.env[e.func.value.id] = s
                return
            if isinstance(recv, dict) and m in ("update", "setdefault", "pop", "clear"):
                getattr(recv, m)(*[self.fold(a) for a in e.args])
                return
            if (dotted(e.func) or "").startswith("_logger.") or (dotted(e.func) or "").startswith("logging."):
                return
        if isinstance(e, ast.Call) and isinstance(e.func, ast.Attribute) and e.func.attr == "sort" and not e.args and e.keywords and all(k.arg in ("key", "reverse") for k in e.keywords):
            # xs.sort(key=f, reverse=b): in place; the keys are computed by the evaluated callable and compared as Python
            # compares them (a comparison Python refuses - int < None - is the TypeError the evaluated program would see)
            recv = self.fold(e.func.value)
            if isinstance(recv, list):
                from .fold import call_value

                kw = {k.arg: self.fold(k.value) for k in e.keywords}
                keyf = kw.get("key")
                keys = [x if keyf is None else call_value(self, keyf, [x]) for x in recv]

                def plain(v: Any) -> bool:
                    return v is None or (not isinstance(v, Abstract) and isinstance(v, (int, str, float, bool, Fraction, bytes))) or (isinstance(v, (tuple, list)) and all(plain(y) for y in v))

                if not all(plain(k_) for k_ in keys):
                    raise Unfoldable("sort keys that are not plain values: " + unparse(e))
                try:
                    order = sorted(range(len(recv)), key=lambda i_: keys[i_], reverse=bool(kw.get("reverse", False)))
                except TypeError:
                    raise Raised("TypeError", e)
                recv[:] = [recv[i_] for i_ in order]
                return
        if isinstance(e, ast.Call) and (dotted(e.func) or "").split(".")[0] in ("_logger", "logging", "warnings"):
            return
        self.fold(e)


class _Const(ast.expr):
    """an already folded value inside a synthetic expression"""

    _fields = ()

    def __init__(self, value: Any):
        super().__init__()
        self.value = value


def _load(t: ast.AST) -> ast.expr:
    import copy

    t2 = copy.deepcopy(t)
    for n in ast.walk(t2):
        if hasattr(n, "ctx"):
            n.ctx = ast.Load()  # type: ignore
    return t2  # type: ignore


# the folder must understand _Const
_orig_fold = Folder._fold


def _fold_with_const(self: Folder, e: ast.expr) -> Any:
    if isinstance(e, _Const):
        return e.value
    return _orig_fold(self, e)


Folder._fold = _fold_with_const  # type: ignore


# ----------------------------------------------------------------------------------------------------------------------
def _defines(obj: Any, name: str) -> bool:
    """does a repository class in the instance's MRO define (or assign) the special method?"""
    for k in obj._ctx_.repo.mro(obj._cls_):
        if isinstance(k, ClassInfo) and (name in k.methods or name in k.assigns):
            return True
    return False


class AObj(Sym):
    """
    an abstract instance of a repository class: the fields given by the rule, everything else answered by abstractly
    evaluating the class's own properties / methods (helper-expanded) over this object
    """

    def __init__(self, _cls_: ClassInfo, _ctx_: Any, **fields: Any):
        super().__init__(**fields)
        self.__dict__["_cls_"] = _cls_
        self.__dict__["_ctx_"] = _ctx_

    def __repr__(self) -> str:
        return "<%s %s>" % (self._cls_.name, ", ".join("%s=%r" % kv for kv in sorted(self.__dict__.items()) if not kv[0].endswith("_") or not kv[0].startswith("_")))

    def __getattr__(self, name: str) -> Any:
        # a method of the instance's class, for rule-side models that call back into evaluated objects (e.g. a visitor)
        if name.startswith("__") or "_cls_" not in self.__dict__:
            raise AttributeError(name)
        m = self._ctx_.repo.lookup_method(self._cls_, name)
        if m is None or m.is_property:
            raise AttributeError(name)
        from .fold import _CURRENT

        def bound(*a: Any, **k: Any) -> Any:
            if not _CURRENT:
                raise Unfoldable("%s.%s called outside an evaluation" % (self._cls_.name, name))
            return _BoundMethod(self, m).call(_CURRENT[-1], list(a), k)

        return bound

    # -- instances of a class-syntax NamedTuple are records: ordered fields, value equality, unpacking, indexing
    def _record(self) -> Optional[List[str]]:
        return self.__dict__.get("_record_fields_")

    def __eq__(self, other: Any) -> bool:
        r = self._record()
        if r is None:
            if self is other:
                return True
            # inside an evaluation, containers of the evaluated program (sets, dict keys, `in`, list.index ...) compare
            # instances the way Python would: through the class's own __eq__
            from .fold import _CURRENT

            if "_cls_" in self.__dict__ and _defines(self, "__eq__"):
                if _CURRENT:
                    res = aobj_eq(_CURRENT[-1], self, other)
                else:
                    try:
                        res = aobj_eq(Folder({}, self._ctx_.repo, self._cls_.module, self._cls_, None), self, other)
                    except (Unfoldable, Raised):
                        return False
                return False if res is NotImplemented else bool(res)
            return False
        if isinstance(other, AObj) and other._record() is not None:
            return tuple(self) == tuple(other)
        if isinstance(other, tuple):
            return tuple(self) == other
        return False

    def __ne__(self, other: Any) -> bool:
        return not self.__eq__(other)

    def __hash__(self) -> int:
        r = self._record()
        if r is not None:
            return hash(tuple(self))
        if "_cls_" in self.__dict__ and (_defines(self, "__hash__") or _defines(self, "__eq__")):
            # the class's own __hash__ (hash-based containers of the evaluated program group instances as Python would);
            # outside an evaluation a value that cannot be hashed this way falls back to its identity
            from .fold import _CURRENT, _abs_hash

            if _CURRENT:
                return _abs_hash(_CURRENT[-1], self)
            try:
                return _abs_hash(Folder({}, self._ctx_.repo, self._cls_.module, self._cls_, None), self)
            except (Unfoldable, Raised):
                return id(self)
        return id(self)

    def __bool__(self) -> bool:
        # Python's rule: the class's own __bool__, else its __len__ compared with zero, else true
        r = self._record()
        if r is not None:
            return len(r) > 0
        from .fold import _CURRENT

        if "_base_" in self.__dict__ and not _defines(self, "__bool__") and not _defines(self, "__len__"):
            return len(self.__dict__["_base_"]) > 0
        for nm in ("__bool__", "__len__"):
            m = self._ctx_.repo.lookup_method(self._cls_, nm)
            if m is not None:
                if not _CURRENT:
                    raise Unfoldable("truth value of a %s asked outside an evaluation" % self._cls_.name)
                v = _BoundMethod(self, m).call(_CURRENT[-1], [], {})
                if isinstance(v, Abstract):
                    raise Unfoldable("truth value of a %s: %s returned an abstract value" % (self._cls_.name, nm))
                return bool(v) if nm == "__bool__" else v != 0
        return True

    def __len__(self) -> int:
        r = self._record()
        if r is None:
            if "_base_" in self.__dict__:
                return len(self.__dict__["_base_"])
            raise TypeError("%s has no len()" % self._cls_.name)
        return len(r)

    def __getitem__(self, i: Any) -> Any:
        r = self._record()
        if r is None:
            if "_base_" in self.__dict__ and not _defines(self, "__getitem__"):
                return self.__dict__["_base_"][i]  # (KeyError / IndexError are the evaluated program's)
            raise TypeError("%s is not subscriptable" % self._cls_.name)
        return tuple(self)[i]

    def __setitem__(self, i: Any, v: Any) -> None:
        if "_base_" in self.__dict__ and not _defines(self, "__setitem__"):
            self.__dict__["_base_"][i] = v
            return
        raise TypeError("%s does not support item assignment" % self._cls_.name)

    def __contains__(self, x: Any) -> bool:
        if "_base_" in self.__dict__ and not _defines(self, "__contains__"):
            return x in self.__dict__["_base_"]
        if self._record() is not None:
            return x in tuple(self)
        raise TypeError("%s is not a container" % self._cls_.name)

    def _replace(self, **kw: Any) -> "AObj":
        r = self._record()
        if r is None:
            raise AttributeError("_replace")
        o = AObj(self._cls_, self._ctx_, **{k: kw.get(k, self.__dict__[k]) for k in r})
        o.__dict__["_record_fields_"] = list(r)
        return o

    def _asdict(self) -> Dict[str, Any]:
        r = self._record()
        if r is None:
            raise AttributeError("_asdict")
        return {k: self.__dict__[k] for k in r}

    def __iter__(self) -> Any:
        r = self._record()
        if r is not None:
            return iter([self.__dict__[k] for k in r])
        if "_base_" in self.__dict__ and not _defines(self, "__iter__"):
            return iter(list(self.__dict__["_base_"]))
        # iteration over an abstract instance: the class's own __iter__, evaluated
        from .fold import _CURRENT

        m = self._ctx_.repo.lookup_method(self._cls_, "__iter__")
        if m is None or m.is_abstract or not _CURRENT:
            raise TypeError("%s is not iterable" % self._cls_.name)
        return iter(_BoundMethod(self, m).call(_CURRENT[-1], [], {}))


def aobj_member(f: Folder, obj: AObj, attr: str) -> Any:
    """attribute `attr` of an abstract instance that is not one of its given fields"""
    repo = obj._ctx_.repo
    m = repo.lookup_method(obj._cls_, attr)
    if m is not None and m.is_property:
        ev = Evaluator({"self": obj}, repo, m.module, m.cls, f.hook)
        ev.depth = f.depth + 1
        return ev.run(body_without_docstring_(obj._ctx_.inl(m)))
    if m is not None:
        return _BoundMethod(obj, m)
    v = repo.lookup_class_attr(obj._cls_, attr)
    if v is not None:
        from .fold import PROCESS_STATE

        if id(v) in PROCESS_STATE:
            return PROCESS_STATE[id(v)][1]
        owner = next((k for k in repo.mro(obj._cls_) if isinstance(k, ClassInfo) and attr in k.assigns), obj._cls_)
        val = Evaluator({}, repo, owner.module if attr not in owner.__dict__.get("module_level_assigns", ()) else owner.module, owner if attr not in owner.__dict__.get("module_level_assigns", ()) else None, f.hook).fold(v)
        if isinstance(val, (set, list, dict, bytearray)) or type(val).__name__ == "AObj":
            # a mutable object made in the class body is ONE object for the life of the process, shared by all instances
            PROCESS_STATE[id(v)] = (v, val)
        return val
    for k in repo.mro(obj._cls_):
        if isinstance(k, ClassInfo) and attr in k.inner:
            return k.inner[attr]  # a class nested in the instance's class (`self.CastMode`)
    base_ = obj.__dict__.get("_base_")
    if base_ is not None and not attr.startswith("_") and callable(getattr(base_, attr, None)):
        return _BaseMethod(base_, attr)
    raise Unfoldable("%s has no member %s" % (obj._cls_.name, attr))


TRIVIAL_DECORATORS = ("staticmethod", "classmethod", "property", "cached_property", "contextmanager", "abstractmethod", "setter", "overload", "lru_cache", "cache", "wraps", "override", "final", "singledispatch", "register")


def is_memoised(fn: Any) -> bool:
    """the function is wrapped by functools.lru_cache / functools.cache"""
    for d in fn.node.decorator_list:
        name = (dotted(d.func) if isinstance(d, ast.Call) else dotted(d)) or "?"
        if name.split(".")[-1] in ("lru_cache", "cache"):
            return True
    return False


class _NoMemo:
    pass


def memo_lookup(fn: Any, args: Sequence[Any], kwargs: Dict[str, Any]) -> Any:
    """functools.lru_cache as Python implements it: one table per function and process, keyed by the arguments' own
    __hash__ / __eq__ (instances of repository classes: their evaluated methods); an unhashable argument is a TypeError"""
    from .fold import PROCESS_STATE

    table = PROCESS_STATE.setdefault(("memo", fn.qualname), (None, {}))[1]
    try:
        key = (tuple(args), tuple(sorted(kwargs.items())))
        hash(key)
    except TypeError:
        raise Raised("TypeError", fn.node)
    return table, key, table.get(key, _NoMemo)


def import_time_effects(f: Folder, module: Any, name: str) -> None:
    """a module-level object with an identity has just come into being (NAME = K(...), NAME = {} ...): what the rest of the
    module does to it *while the module is executed* happens now, in source order - decorators `@NAME.method(...)` on the
    functions and methods of the module (a registry being filled), top-level statements `NAME.method(...)` and
    `NAME[key] = value`.  (Only the module that defines the name is looked at.)"""
    from .fold import PROCESS_STATE, call_value

    def mentions(node: ast.AST) -> bool:
        return any(isinstance(x, ast.Name) and x.id == name for x in ast.walk(node))

    def decorate(fn: Any) -> None:
        decos = nontrivial_decorators(fn)
        if not any(mentions(d) for d in decos):
            return
        slot = ("decorated", fn.qualname)
        if slot in PROCESS_STATE:
            return
        v: Any = _RawMethod(fn) if fn.cls is not None else _RawFunction(_RepoShim(f.repo), fn, f.hook, ())
        for d in reversed(decos):
            dec = Folder({}, f.repo, fn.module, fn.cls, f.hook).fold(d)
            v = call_value(f, dec, [v])
        PROCESS_STATE[slot] = (None, v)

    seen_def = False
    for st in module.tree.body:
        if isinstance(st, (ast.Assign, ast.AnnAssign)) and any(isinstance(t, ast.Name) and t.id == name for t in (st.targets if isinstance(st, ast.Assign) else [st.target])):
            seen_def = True
            continue
        if not seen_def:
            continue
        if isinstance(st, ast.FunctionDef) and st.name in module.functions:
            decorate(module.functions[st.name])
        elif isinstance(st, ast.ClassDef):
            k = module.classes.get(st.name) if hasattr(module, "classes") else None
            if k is not None:
                for sub in st.body:
                    if isinstance(sub, ast.FunctionDef) and sub.name in k.methods:
                        decorate(k.methods[sub.name])
        elif isinstance(st, ast.Expr) and isinstance(st.value, ast.Call) and (dotted(st.value.func) or "").split(".")[0] == name:
            Evaluator({}, f.repo, module, None, f.hook)._expr_stmt(st.value)
        elif isinstance(st, (ast.Assign, ast.AugAssign)) and any(isinstance(t, ast.Subscript) and (dotted(t.value) or "").split(".")[0] == name for t in (st.targets if isinstance(st, ast.Assign) else [st.target])):
            Evaluator({}, f.repo, module, None, f.hook)._stmt(st)


def nontrivial_decorators(fn: Any) -> List[ast.expr]:
    out = []
    for d in fn.node.decorator_list:
        name = (dotted(d.func) if isinstance(d, ast.Call) else dotted(d)) or "?"
        if name.split(".")[-1] not in TRIVIAL_DECORATORS:
            out.append(d)
    return out


class _RawMethod(Abstract):
    """a method as the plain function its decorators receive: called with the instance as first argument"""

    def __init__(self, fn: Any):
        self.fn = fn
        self.__dict__["__name__"] = fn.name

    def __call__(self, obj: Any, *args: Any, **kwargs: Any) -> Any:
        from .fold import _CURRENT

        return _BoundMethod(obj, self.fn, raw=True).call(_CURRENT[-1], list(args), kwargs)


class _BoundMethod(Abstract):
    def __init__(self, obj: AObj, fn: Any, raw: bool = False):
        self.obj = obj
        self.fn = fn
        self.raw = raw

    def call(self, f: Folder, args: List[Any], kwargs: Dict[str, Any]) -> Any:
        fn = self.fn
        if not self.raw and not fn.is_property and is_memoised(fn):
            table_, key_, hit_ = memo_lookup(fn, [self.obj] + list(args), dict(kwargs))
            if hit_ is not _NoMemo:
                return hit_
            res_ = _BoundMethod(self.obj, fn, raw=True).call(f, args, kwargs)
            table_[key_] = res_
            return res_
        decos = [] if self.raw else nontrivial_decorators(fn)
        if decos:
            # the name is bound to what the decorators (evaluated from source) make of the function
            from .fold import call_value

            from .fold import PROCESS_STATE

            slot = ("decorated", fn.qualname)
            if slot not in PROCESS_STATE:
                # decorators run once, when the class body is executed - not at every call (one with a side effect, such as
                # entering the function into a registry, must not repeat it)
                v: Any = _RawMethod(fn)
                for d in reversed(decos):
                    dec = Folder({}, f.repo, fn.module, fn.cls, f.hook).fold(d)
                    v = call_value(f, dec, [v])
                PROCESS_STATE[slot] = (None, v)
            return call_value(f, PROCESS_STATE[slot][1], [self.obj] + list(args), kwargs)
        node = self.obj._ctx_.inl(fn)
        a = node.args
        params = [x.arg for x in a.posonlyargs + a.args]
        env: Dict[str, Any] = {}
        if not fn.is_static:
            env[params[0]] = self.obj if not fn.is_classmethod else self.obj._cls_
            params = params[1:]
        if len(args) > len(params):
            if a.vararg is None:
                raise Unfoldable("too many arguments for %s" % fn.name)
            env[a.vararg.arg] = tuple(args[len(params):])
            args = list(args[: len(params)])
        elif a.vararg is not None:
            env[a.vararg.arg] = ()
        if a.kwarg is not None:
            named = set(params) | {x.arg for x in a.kwonlyargs}
            env[a.kwarg.arg] = {k: v for k, v in kwargs.items() if k not in named}
            kwargs = {k: v for k, v in kwargs.items() if k in named}
        for p, v in zip(params, args):
            env[p] = v
        for k, v in kwargs.items():
            env[k] = v
        defaults = dict(zip(reversed([x.arg for x in a.posonlyargs + a.args]), reversed(a.defaults)))
        for p in params + [x.arg for x in a.kwonlyargs]:
            if p not in env:
                d = defaults.get(p)
                if d is None:
                    kd = dict(zip([x.arg for x in a.kwonlyargs], a.kw_defaults)).get(p)
                    if kd is None:
                        raise Unfoldable("missing argument %s of %s" % (p, fn.name))
                    d = kd
                env[p] = Folder({}, f.repo, fn.module, fn.cls).fold(d)
        ev = Evaluator(env, f.repo, fn.module, fn.cls, f.hook)
        ev.depth = f.depth + 1
        is_gen = _is_generator(node)
        r = ev.run(body_without_docstring_(node))
        return list(ev.yielded) if is_gen else r


_IS_GEN: Dict[int, Tuple[ast.AST, bool]] = {}


def _is_generator(node: ast.AST) -> bool:
    k = id(node)
    hit = _IS_GEN.get(k)
    if hit is None or hit[0] is not node:
        hit = (node, any(isinstance(n, (ast.Yield, ast.YieldFrom)) for n in ast.walk(node)))
        _IS_GEN[k] = hit
    return hit[1]


def body_without_docstring_(node: ast.AST) -> List[ast.stmt]:
    from .core import body_without_docstring

    return body_without_docstring(node)  # type: ignore


def make_obj(ctx: Any, cls: ClassInfo, **public: Any) -> AObj:
    """an abstract instance with the given values for public properties; where such a property is a plain accessor of a
    private field (`return self._x`, possibly after assertions), the field gets the same value"""
    from .regions import trivial_property_expr

    o = AObj(cls, ctx, **public)
    for name, v in public.items():
        e = trivial_property_expr(ctx.repo, cls, name)
        d = dotted(e) if e is not None else None
        if d is not None and d.startswith("self.") and d.count(".") == 1:
            o.__dict__[d.split(".")[1]] = v
    return o


def construct(ctx: Any, cls: ClassInfo, *args: Any, hook: Any = None, **kwargs: Any) -> AObj:
    """the abstract instance the class's constructor (super() chain flattened, helpers expanded) builds for the arguments"""
    from .regions import flatten_init

    repo = ctx.repo
    o = AObj(cls, ctx)
    cb = container_base(repo, cls)
    if cb is not None:
        # a class derived from a builtin container (class M(dict): ...): the instance *is* such a container, plus its methods
        o.__dict__["_base_"] = {"dict": dict, "list": list, "set": set}[cb]()
    flat = ctx.__dict__.setdefault("_flat_init_cache", {})
    if cls.qualname not in flat:
        # (the flattened constructor is read, never changed, by the evaluation: one copy per class and run)
        flat[cls.qualname] = flatten_init(repo, cls, inline_props=False, node_of=ctx.inl)
    stmts, chain = flat[cls.qualname]
    if not chain and cb is not None:
        try:
            if cb == "dict":
                o.__dict__["_base_"].update(*args, **kwargs)
            elif args:
                (o.__dict__["_base_"].extend if cb == "list" else o.__dict__["_base_"].update)(list(args[0]))
        except (TypeError, ValueError) as ex:
            raise Raised(type(ex).__name__, cls.node)
        return o
    if not chain:
        is_nt = any((dotted(b) or "").split(".")[-1] == "NamedTuple" for k in repo.mro(cls) if isinstance(k, ClassInfo) for b in k.node.bases)
        if is_nt or any("dataclass" in (dotted(d.func) if isinstance(d, ast.Call) else dotted(d) or "") for d in cls.node.decorator_list):
            # a dataclass: the generated constructor stores its fields (class-body annotations, in order)
            fields = []
            for k in reversed([k for k in repo.mro(cls) if isinstance(k, ClassInfo)]):
                for st in k.node.body:
                    if isinstance(st, ast.AnnAssign) and isinstance(st.target, ast.Name) and "ClassVar" not in ast.unparse(st.annotation):
                        if st.target.id not in [f_[0] for f_ in fields]:
                            fields.append((st.target.id, st.value))
            if len(args) > len(fields):
                raise Unfoldable("too many constructor arguments for %s" % cls.name)
            vals = dict(zip([f_[0] for f_ in fields], args))
            vals.update(kwargs)
            for name, default in fields:
                if name not in vals:
                    if default is None:
                        raise Unfoldable("constructor argument %s of %s not given" % (name, cls.name))
                    if isinstance(default, ast.Call) and (dotted(default.func) or "").split(".")[-1] == "field":
                        fkw = {k.arg: k.value for k in default.keywords if k.arg}
                        if "default_factory" in fkw:
                            vals[name] = Evaluator({}, repo, cls.module, cls, hook).fold(ast.Call(func=fkw["default_factory"], args=[], keywords=[]))
                        elif "default" in fkw:
                            vals[name] = Folder({}, repo, cls.module, cls, hook).fold(fkw["default"])
                        else:
                            raise Unfoldable("constructor argument %s of %s not given" % (name, cls.name))
                    else:
                        vals[name] = Folder({}, repo, cls.module, cls, hook).fold(default)
                o.__dict__[name] = vals[name]
            if is_nt:
                o.__dict__["_record_fields_"] = [f_[0] for f_ in fields]
        return o
    init = chain[0]
    a = ctx.inl(init).args
    params = [x.arg for x in a.posonlyargs + a.args][1:]
    env: Dict[str, Any] = {"self": o}
    if len(args) > len(params):
        if a.vararg is None:
            raise Unfoldable("too many constructor arguments for %s" % cls.name)
        env[a.vararg.arg] = tuple(args[len(params):])  # `def __init__(self, x, *rest)`
        args = args[: len(params)]
    elif a.vararg is not None:
        env[a.vararg.arg] = ()
    env.update(zip(params, args))
    if a.kwarg is not None:
        named = set(params) | {x.arg for x in a.kwonlyargs}
        env[a.kwarg.arg] = {k: v for k, v in kwargs.items() if k not in named}
        kwargs = {k: v for k, v in kwargs.items() if k in named}
    env.update(kwargs)
    defaults = dict(zip(reversed(params), reversed(a.defaults)))
    for p_ in params + [x.arg for x in a.kwonlyargs]:
        if p_ not in env:
            d = defaults.get(p_, dict(zip([x.arg for x in a.kwonlyargs], a.kw_defaults)).get(p_))
            if d is None:
                raise Unfoldable("constructor argument %s of %s not given" % (p_, cls.name))
            env[p_] = Folder({}, repo, init.module, cls).fold(d)
    Evaluator(env, repo, init.module, cls, hook).run(stmts)
    return o


_CONTAINER_BASES = {"dict": "dict", "Dict": "dict", "OrderedDict": "dict", "defaultdict": "dict", "list": "list", "List": "list", "set": "set", "Set": "set"}


def container_base(repo: Any, cls: ClassInfo) -> Optional[str]:
    """"dict" / "list" / "set" if the class derives from that builtin container (directly, through typing.Dict[...] etc.)"""
    for k in repo.mro(cls):
        if not isinstance(k, ClassInfo):
            continue
        for b in k.node.bases:
            while isinstance(b, ast.Subscript):
                b = b.value
            d = (dotted(b) or "").split(".")[-1]
            if d in _CONTAINER_BASES and (dotted(b) or "").split(".")[0] in ("typing", "collections", d):
                return _CONTAINER_BASES[d]
    return None


class _BaseMethod(Abstract):
    """a method of the builtin container an instance derives from (`self.get(k)` in `class M(dict)`)"""

    def __init__(self, base: Any, name: str):
        self.base, self.name = base, name

    def __call__(self, *a: Any, **k: Any) -> Any:
        try:
            r = getattr(self.base, self.name)(*a, **k)
        except (KeyError, IndexError, ValueError) as ex:
            raise Raised(type(ex).__name__, ast.parse("x.%s()" % self.name, mode="eval").body)
        return list(r) if self.name in ("keys", "values", "items") else r


def set_public(o: AObj, **public: Any) -> AObj:
    """give public properties abstract values; a property that is a plain accessor of a private field sets the field"""
    from .regions import trivial_property_expr

    for name, v in public.items():
        o.__dict__[name] = v
        e = trivial_property_expr(o._ctx_.repo, o._cls_, name)
        d = dotted(e) if e is not None else None
        if d is not None and d.startswith("self.") and d.count(".") == 1:
            o.__dict__[d.split(".")[1]] = v
    return o


def _dispatch_target(ctx: Any, fn: Any, args: Sequence[Any]) -> Any:
    """`@functools.singledispatch`: the implementation registered for the class of the first argument (most specific class
    first, as the MRO orders them), else the generic function itself"""
    if not any(((dotted(d.func) if isinstance(d, ast.Call) else dotted(d)) or "").split(".")[-1] == "singledispatch" for d in fn.node.decorator_list) or not args:
        return fn
    repo = ctx.repo
    regs: List[Any] = []  # (class value: ClassInfo | python type, implementation)
    for f2 in repo.all_functions().values():
        for d in f2.node.decorator_list:
            target = d.func if isinstance(d, ast.Call) else d
            if not (isinstance(target, ast.Attribute) and target.attr == "register"):
                continue
            try:
                owner = repo.resolve_expr(f2.module, target.value, f2.cls)
            except Exception:
                owner = None
            if owner is not fn:
                continue
            texpr: Any = d.args[0] if isinstance(d, ast.Call) and d.args else None
            if texpr is None:
                ps = f2.node.args.posonlyargs + f2.node.args.args
                texpr = ps[0].annotation if ps else None
            if texpr is None:
                continue
            try:
                k = repo.resolve_expr(f2.module, texpr, f2.cls)
            except Exception:
                k = None
            if isinstance(k, ClassInfo):
                regs.append((k, f2))
            elif type(k).__name__ == "External" and k.dotted.startswith("builtins."):
                import builtins as _b

                t = getattr(_b, k.dotted.split(".")[1], None)
                if isinstance(t, type):
                    regs.append((t, f2))
            elif isinstance(texpr, ast.Call) and dotted(texpr.func) == "type" and texpr.args and isinstance(texpr.args[0], ast.Constant) and texpr.args[0].value is None:
                regs.append((type(None), f2))
    if not regs:
        return fn
    a0 = args[0]
    matches = []
    for k, f2 in regs:
        if isinstance(k, type):
            if not isinstance(a0, Abstract) and isinstance(a0, k):
                matches.append((k, f2))
        elif isinstance(a0, AObj):
            if k in repo.mro(a0._cls_):
                matches.append((k, f2))
        elif isinstance(a0, Abstract) and isinstance(getattr(a0, "_isa_", None), (set, frozenset)):
            if k.name in a0._isa_:
                matches.append((k, f2))
    if not matches:
        if isinstance(a0, Abstract) and not isinstance(a0, AObj) and not isinstance(getattr(a0, "_isa_", None), (set, frozenset)):
            raise Unfoldable("single dispatch of %s on an abstract value of unknown class" % fn.name)
        return fn
    # the most specific registered class: the one that is a subclass of all the other matching ones
    best = matches[0]
    for m in matches[1:]:
        k0, k1 = best[0], m[0]
        if isinstance(k0, ClassInfo) and isinstance(k1, ClassInfo):
            if repo.is_subclass(k1, k0):
                best = m
        elif isinstance(k0, type) and isinstance(k1, type) and issubclass(k1, k0):
            best = m
    return best[1]


class _RawFunction(Abstract):
    """a module-level function as the plain function its decorators receive"""

    def __init__(self, ctx: Any, fn: Any, hook: Any, keep: Sequence[str]):
        self.ctx, self.fn, self.hook, self.keep = ctx, fn, hook, keep
        self.__dict__["__name__"] = fn.name

    def __call__(self, *args: Any, **kwargs: Any) -> Any:
        return call_fn(self.ctx, self.fn, list(args), kwargs, hook=self.hook, keep=self.keep, raw=True)


def call_fn(ctx: Any, fn: Any, args: Sequence[Any], kwargs: Optional[Dict[str, Any]] = None, hook: Any = None, keep: Sequence[str] = (), raw: bool = False) -> Any:
    """abstractly evaluate one repository function (private helpers expanded, `keep` names left to the hook) on the arguments"""
    fn = _dispatch_target(ctx, fn, args)
    if not raw and fn.cls is None and getattr(fn, "parent", None) is None:
        decos = nontrivial_decorators(fn)
        if decos:
            # the name is bound to what the decorators (evaluated from source) make of the function
            from .fold import _CURRENT, call_value

            from .fold import PROCESS_STATE

            f0 = Folder({}, ctx.repo, fn.module, None, hook)
            slot = ("decorated", fn.qualname)
            if slot not in PROCESS_STATE:
                v: Any = _RawFunction(ctx, fn, hook, tuple(keep))
                for d in reversed(decos):
                    v = call_value(f0, Folder({}, ctx.repo, fn.module, None, hook).fold(d), [v])
                PROCESS_STATE[slot] = (None, v)  # (decorators run once per process, when the module is executed)
            return call_value(_CURRENT[-1] if _CURRENT else f0, PROCESS_STATE[slot][1], list(args), dict(kwargs or {}))
    if is_memoised(fn) and not raw:
        table_, key_, hit_ = memo_lookup(fn, list(args), dict(kwargs or {}))
        if hit_ is not _NoMemo:
            return hit_
        res_ = call_fn(ctx, fn, args, kwargs, hook, keep, raw=True)
        table_[key_] = res_
        return res_
    node = ctx.inl(fn, keep=tuple(keep))
    a = node.args
    params = [x.arg for x in a.posonlyargs + a.args]
    env: Dict[str, Any] = dict(zip(params, args))
    if a.vararg is not None:
        env[a.vararg.arg] = tuple(args[len(params):])
    elif len(args) > len(params):
        raise Unfoldable("too many arguments for %s" % fn.name)
    kwargs = dict(kwargs or {})
    if a.kwarg is not None:
        named = set(params) | {x.arg for x in a.kwonlyargs}
        env[a.kwarg.arg] = {k: v for k, v in kwargs.items() if k not in named}
        kwargs = {k: v for k, v in kwargs.items() if k in named}
    env.update(kwargs)
    defaults = dict(zip(reversed(params), reversed(a.defaults)))
    kwdefaults = dict(zip([x.arg for x in a.kwonlyargs], a.kw_defaults))
    for p_ in params + [x.arg for x in a.kwonlyargs]:
        if p_ not in env:
            d = defaults.get(p_, kwdefaults.get(p_))
            if d is None:
                raise Unfoldable("argument %s of %s not given" % (p_, fn.name))
            env[p_] = Folder({}, ctx.repo, fn.module, fn.cls).fold(d)
    ev = Evaluator(env, ctx.repo, fn.module, fn.cls, hook)
    is_gen = _is_generator(node)
    r = ev.run(body_without_docstring_(node))
    return list(ev.yielded) if is_gen else r


class _RepoShim:
    """what call_fn needs of a rule context, for functions met as values during an evaluation"""

    _inliners: Dict[int, Any] = {}
    _flat: Dict[int, Any] = {}

    def __init__(self, repo: Any):
        self.repo = repo
        from .inline import Inliner

        k = id(repo)
        if k not in _RepoShim._inliners:
            _RepoShim._inliners[k] = (repo, Inliner(repo))
        self._inl = _RepoShim._inliners[k][1]
        self._flat_init_cache = _RepoShim._flat.setdefault(k, {})  # flattened constructors (see construct), per repository

    def inl(self, fn: Any, keep: Sequence[str] = ()) -> Any:
        return self._inl.inlined(fn, keep=tuple(keep))


class FnRef(Abstract):
    """a function / static method / class method / unbound method of the repository as a first-class value"""

    def __init__(self, repo: Any, fn: Any, hook: Any):
        self.repo, self.fn, self.hook = repo, fn, hook
        self.__dict__["__name__"] = fn.name

    def __repr__(self) -> str:
        return "<function %s>" % self.fn.short

    def __eq__(self, other: Any) -> bool:
        return isinstance(other, FnRef) and other.fn is self.fn

    def __hash__(self) -> int:
        return hash(self.fn.qualname)

    def __call__(self, *args: Any, **kwargs: Any) -> Any:
        from .fold import _CURRENT

        fn = self.fn
        hook = _CURRENT[-1].hook if _CURRENT and _CURRENT[-1].hook is not None else self.hook
        if fn.cls is not None and not fn.is_static:
            if fn.is_classmethod:
                args = (fn.cls,) + tuple(args)
            elif args and isinstance(args[0], AObj):
                return _BoundMethod(args[0], fn).call(_CURRENT[-1], list(args[1:]), kwargs)
        return call_fn(_RepoShim(self.repo), fn, list(args), kwargs, hook=hook, keep=tuple(fn.module.functions) if fn.cls is None else ())


class Recorder(Abstract):
    """a callable stand-in: remembers how it was called and answers with a fixed value"""

    def __init__(self, name: str, result: Any = None, log: Optional[List[Any]] = None):
        self.name = name
        self.result = result
        self.log = log if log is not None else []

    def __call__(self, *args: Any, **kwargs: Any) -> Any:
        self.log.append((self.name, args, kwargs))
        return self.result(*args, **kwargs) if callable(self.result) and not isinstance(self.result, Abstract) else self.result


def module_call_hook(ctx: Any, module: Any, evaluate: Sequence[str], log: List[Any], results: Optional[Dict[str, Any]] = None, base_hook: Any = None, record: Optional[Sequence[str]] = None) -> Any:
    """calls to module-level functions of the repository, by name: with `record` given, exactly those are logged (name, args,
    kwargs) and answer with results[name] (default: a token) while every other one is entered; without it, those in `evaluate`
    are entered and the others logged"""
    results = results or {}

    def hook(e: ast.expr, f: Folder) -> Any:
        if base_hook is not None:
            r = base_hook(e, f)
            if r is not NotImplemented:
                return r
        target = None
        if isinstance(e, ast.Call) and isinstance(e.func, ast.Name) and e.func.id not in f.env:
            if e.func.id in module.functions:
                target = module.functions[e.func.id]
            else:
                try:
                    r = ctx.repo.resolve_expr(f.mod or module, e.func, None)
                except Exception:
                    r = None
                if type(r).__name__ == "FuncInfo" and r.cls is None:
                    target = r
        elif isinstance(e, ast.Call) and isinstance(e.func, ast.Attribute) and dotted(e.func) and dotted(e.func).split(".")[0] not in f.env:
            try:
                r = ctx.repo.resolve_expr(f.mod or module, e.func, None)
            except Exception:
                r = None
            if type(r).__name__ == "FuncInfo" and r.cls is None:
                target = r
        if target is not None:
            name = target.name
            # (a function imported under another name is known to the rule by the name it is called with)
            alias = e.func.id if isinstance(e.func, ast.Name) else e.func.attr
            if alias != name and ((record is not None and alias in record) or alias in results or alias in evaluate):
                name = alias
            args = fold_args(f, e)
            kwargs = {k.arg: f.fold(k.value) for k in e.keywords if k.arg}
            if (record is not None and name not in record) or (record is None and name in evaluate):
                return call_fn(ctx, target, args, kwargs, f.hook or hook, keep=tuple(target.module.functions))
            log.append((name, args, kwargs))
            res = results.get(name, ("RESULT-OF", name))
            return res(*args, **kwargs) if callable(res) and not isinstance(res, Abstract) else res
        return NotImplemented

    return hook


def ctor_hook(ctx: Any, base_hook: Any = None, only: Optional[Sequence[str]] = None) -> Any:
    """`K(args)` where K is a class of the repository: the abstract instance its constructor builds (Raised propagates)"""

    def hook(e: ast.expr, f: Folder) -> Any:
        if base_hook is not None:
            r = base_hook(e, f)
            if r is not NotImplemented:
                return r
        if isinstance(e, ast.Call) and isinstance(e.func, (ast.Name, ast.Attribute)) and (dotted(e.func) or "").split(".")[0] not in f.env:
            try:
                k = ctx.repo.resolve_expr(f.mod, e.func, f.cls) if f.mod is not None else None
            except Exception:
                k = None
            if isinstance(k, ast.Call) and (dotted(k.func) or "").endswith("NamedTuple") and len(k.args) == 2 and isinstance(k.args[1], (ast.List, ast.Tuple)):
                # X = typing.NamedTuple("X", [("a", T), ...]): a record with those fields
                fields = [el.elts[0].value for el in k.args[1].elts if isinstance(el, ast.Tuple) and el.elts and isinstance(el.elts[0], ast.Constant)]
                vals = fold_args(f, e)
                kw = {x.arg: f.fold(x.value) for x in e.keywords if x.arg}
                if len(vals) > len(fields) or any(n not in fields for n in kw):
                    raise Unfoldable(unparse(e))
                for n_, v_ in zip(fields, vals):
                    kw.setdefault(n_, v_)
                if set(kw) != set(fields):
                    raise Unfoldable(unparse(e))
                return make_record(fields, [kw[n_] for n_ in fields])
            if isinstance(k, ClassInfo) and (only is None or k.name in only):
                args = fold_args(f, e)
                kwargs = {x.arg: f.fold(x.value) for x in e.keywords if x.arg}
                return construct(ctx, k, *args, hook=f.hook or hook, **kwargs)  # the whole hook chain of the evaluation in progress
        return NotImplemented

    return hook


def make_record(fields: Sequence[str], values: Sequence[Any]) -> Any:
    """a named tuple value (attribute access by field name, positional access, equality as a tuple)"""

    class Record(tuple):
        _fields = tuple(fields)

        def __getattr__(self, name: str) -> Any:
            if name in type(self)._fields:
                return self[type(self)._fields.index(name)]
            raise AttributeError(name)

    return Record(values)


# ----------------------------------------------------------------------------------------------------------------------
import pathlib as _pathlib


class APath(_pathlib.PurePosixPath, Abstract):
    """a path as pure syntax (no file system): pathlib.Path(...) in evaluated code; resolve() / absolute() are the identity on
    the absolute, normalised paths the rules use"""

    ALIASES: Dict[str, str] = {}  # other spellings of directories (symbolic links, relative forms): alias prefix -> real prefix
    FS: List[str] = []  # the files of the abstract file system (absolute, normalised), set by the rule that needs listings
    CWD: Optional[str] = None  # the working directory, for the rules that speak about relative paths (None: every path the rule uses is absolute)
    STRICT: bool = False  # with a working directory set: exists() / is_dir() / resolve(strict=True) answer from FS

    def _abs(self) -> str:
        """the absolute, normalised spelling of this path (relative ones are relative to the working directory)"""
        s_ = str(self)
        if not s_.startswith("/"):
            s_ = (APath.CWD or "") + "/" + s_
        out: List[str] = []
        for part in s_.split("/"):
            if part in ("", "."):
                continue
            if part == "..":
                if out:
                    out.pop()
                continue
            out.append(part)
        return "/" + "/".join(out)

    def _present(self, p_: str) -> bool:
        return p_ in APath.FS or any(f_.startswith(p_.rstrip("/") + "/") for f_ in APath.FS) or p_ == "/"

    def resolve(self, strict: bool = False) -> "APath":
        me = self._abs() if APath.CWD is not None else str(self)
        for alias, real in APath.ALIASES.items():
            if me == alias or me.startswith(alias.rstrip("/") + "/"):
                me = real + me[len(alias):]
                break
        if strict and APath.STRICT and not self._present(me):
            raise FileNotFoundError(me)
        return self if me == str(self) else APath(me)

    def absolute(self) -> "APath":
        return APath(self._abs()) if APath.CWD is not None else self

    @classmethod
    def cwd(cls) -> "APath":
        if APath.CWD is None:
            raise Unfoldable("the working directory is not part of this rule's world")
        return APath(APath.CWD)

    def expanduser(self) -> "APath":
        return self

    def samefile(self, other: Any) -> bool:
        o = other.resolve() if isinstance(other, APath) else APath(str(other)).resolve()
        return _pathlib.PurePosixPath(str(self.resolve())) == _pathlib.PurePosixPath(str(o))

    def exists(self) -> bool:
        if APath.STRICT:
            return self._present(str(self.resolve()))
        return True  # the rules speak about paths that exist

    def is_dir(self) -> bool:
        if APath.STRICT:
            p_ = str(self.resolve())
            return p_ not in APath.FS and self._present(p_)
        return not str(self).rsplit("/", 1)[-1].count(".")

    def _listing(self, pattern: str, deep: bool) -> List["APath"]:
        import fnmatch

        # (listed by the spelling given: an alias that was not resolved finds nothing; a relative path lists relative to the
        # working directory and yields paths of the same spelling)
        given = str(self).rstrip("/")
        base = (self._abs() if APath.CWD is not None else str(self)).rstrip("/") + "/"
        hits = [f_ for f_ in APath.FS if f_.startswith(base) and (deep or "/" not in f_[len(base):]) and fnmatch.fnmatchcase(f_.rsplit("/", 1)[-1], pattern)]
        # deliberately not sorted by name: reversed, so that code relying on the listing order is exposed
        return [APath((given + "/" if given != "." else "") + h[len(base):]) if not str(self).startswith("/") else APath(h) for h in reversed(hits)]

    def rglob(self, pattern: str) -> List["APath"]:
        """every file at any depth under this directory whose name matches the pattern - in an order the caller may not rely on"""
        return self._listing(pattern, True)

    def glob(self, pattern: str) -> List["APath"]:
        return self._listing(pattern, False)

    def is_file(self) -> bool:
        if APath.STRICT:
            return str(self.resolve()) in APath.FS
        return True


def path_hook(base_hook: Any = None) -> Any:
    """Path(x) / pathlib.Path(x) -> APath(x)"""

    def hook(e: ast.expr, f: Folder) -> Any:
        if base_hook is not None:
            r = base_hook(e, f)
            if r is not NotImplemented:
                return r
        if isinstance(e, ast.Call) and (dotted(e.func) or "") in ("Path", "pathlib.Path", "PurePath", "pathlib.PurePath") and (dotted(e.func) or "").split(".")[0] not in f.env:
            vals = fold_args(f, e)
            return APath(*[str(v) for v in vals])
        return NotImplemented

    return hook


# ----------------------------------------------------------------------------------------------------------------------
class LocalClass(Abstract):
    """a class defined inside the evaluated function: instances evaluate its methods with the defining environment"""

    def __init__(self, node: ast.ClassDef, ev: Evaluator):
        self.node = node
        self.env = ev.env
        self.ctx = (ev.repo, ev.mod, ev.cls, ev.hook)
        self.methods = {n.name: n for n in node.body if isinstance(n, ast.FunctionDef)}
        self._isa_ = frozenset([node.name] + [(dotted(b) or "?").split(".")[-1] for b in node.bases])

    def __call__(self, *args: Any, **kwargs: Any) -> Any:
        inst = LocalInstance(self)
        if "__init__" in self.methods:
            inst._call("__init__", list(args), kwargs)
        return inst


class LocalInstance(Sym):
    def __init__(self, cls: LocalClass):
        super().__init__()
        self.__dict__["_lcls_"] = cls
        self.__dict__["_isa_"] = cls._isa_

    def _call(self, name: str, args: List[Any], kwargs: Dict[str, Any]) -> Any:
        cls = self._lcls_
        node = cls.methods[name]
        a = node.args
        params = [x.arg for x in a.posonlyargs + a.args]
        env = dict(cls.env)
        env[params[0]] = self
        if len(args) > len(params) - 1:
            raise Unfoldable("too many arguments for %s.%s" % (cls.node.name, name))
        env.update(zip(params[1:], args))
        env.update(kwargs)
        repo, mod, kls, hook = cls.ctx
        # free variables are the defining function's (late binding): look-ups fall back to the shared environment
        ev = Evaluator(_Chain(env, cls.env), repo, mod, kls, hook)
        ev.outer_env = cls.env  # type: ignore
        return ev.run(body_without_docstring_(node))

    def __getattr__(self, name: str) -> Any:
        cls = self.__dict__.get("_lcls_")
        if cls is not None and name in cls.methods:
            return lambda *a, **k: self._call(name, list(a), k)
        raise AttributeError(name)


class _Chain(dict):
    """local bindings over a shared outer environment (reads fall through; writes stay local unless the name is outer-only and
    mutated in place, which is what closures over mutable containers do)"""

    def __init__(self, local: Dict[str, Any], outer: Dict[str, Any]):
        super().__init__(local)
        self.outer = outer

    def __missing__(self, k: str) -> Any:
        return self.outer[k]

    def __contains__(self, k: object) -> bool:
        return dict.__contains__(self, k) or k in self.outer

    def get(self, k: Any, d: Any = None) -> Any:
        if dict.__contains__(self, k):
            return dict.__getitem__(self, k)
        return self.outer.get(k, d)


def aobj_eq(f: Folder, left: Any, right: Any) -> Any:
    """left == right where one side is an abstract instance of a repository class that defines __eq__"""
    for a, b in ((left, right), (right, left)):
        if type(a).__name__ == "AObj" and a._record() is not None:
            # a record (class-syntax NamedTuple): equality of the field tuples, element by element as the program would compare
            other = list(b) if (type(b).__name__ == "AObj" and b._record() is not None) or isinstance(b, tuple) else None
            if other is None or len(other) != len(a._record()):
                return False
            mine = list(a)
            for x, y in zip(mine, other):
                if type(x).__name__ == "AObj" or type(y).__name__ == "AObj":
                    r = aobj_eq(f, x, y)
                    if r is NotImplemented:
                        r = x is y
                    if not r:
                        return False
                elif not (x == y):
                    return False
            return True
    for a, b in ((left, right), (right, left)):
        if type(a).__name__ == "AObj":
            m = a._ctx_.repo.lookup_method(a._cls_, "__eq__")
            if m is not None:
                r = _BoundMethod(a, m).call(f, [b], {})
                if not (isinstance(r, ast.AST) or r is NotImplemented or (isinstance(r, Sym) and getattr(r, "_kind_", "") == "NotImplemented")):
                    return r
    return NotImplemented


def fold_args(f: Folder, call: ast.Call) -> List[Any]:
    """positional arguments of a call, `*xs` expanded"""
    out: List[Any] = []
    for a in call.args:
        if isinstance(a, ast.Starred):
            out.extend(list(f.fold(a.value)))
        else:
            out.append(f.fold(a))
    return out
