"""
E2 / E3 -- annotation-seeded type inference and an over-approximate call graph.

Nodes: every function / method / nested function (FuncInfo.qualname), every lambda ("<lambda> F:line"), one
pseudo-node per class body ("<classbody> C") for functions referenced by class-level assignments.

Edges F -> G:
  * direct calls resolved through the symbol table, constructors (first __init__ in the MRO),
  * `self.m` / `cls.m`: MRO lookup plus every override in subclasses (dynamic dispatch),
  * `super().m`, `obj.m` / `obj.prop` through inferred candidate classes; fallback: every method/property of that name
    (flagged unresolved; sound for reachability / escape rules),
  * operator / builtin dunder dispatch (`a + b`, `a | b`, `a % d`, `a == b`, `hash(a)`, `len(a)`, `iter`, `for`, `in`,
    `str`, `bool`) on inferred candidates,
  * any *reference* to a function or class as a value (callbacks, factories, map/filter/partial, dict of handlers),
  * visitor dispatch: a call of `.visit(` on a NodeVisitor subclass reaches all its visit_* / generic_visit members
    and its class body.
"""
from __future__ import annotations

import ast
from typing import Any, Dict, Iterable, Iterator, List, Optional, Set, Tuple

from .core import ClassInfo, External, FuncInfo, Module, Repo, dotted, norm, walk_no_nested

BINOP_DUNDER = {
    ast.Add: ("__add__", "__radd__"),
    ast.Sub: ("__sub__", "__rsub__"),
    ast.Mult: ("__mul__", "__rmul__"),
    ast.Mod: ("__mod__", "__rmod__"),
    ast.BitOr: ("__or__", "__ror__"),
    ast.BitAnd: ("__and__", "__rand__"),
    ast.FloorDiv: ("__floordiv__", "__rfloordiv__"),
    ast.Div: ("__truediv__", "__rtruediv__"),
}
CMP_DUNDER = {ast.Eq: "__eq__", ast.NotEq: "__eq__", ast.Lt: "__lt__", ast.LtE: "__le__", ast.Gt: "__gt__", ast.GtE: "__ge__", ast.In: "__contains__", ast.NotIn: "__contains__"}
BUILTIN_DUNDER = {"len": "__len__", "hash": "__hash__", "str": "__str__", "repr": "__repr__", "iter": "__iter__", "bool": "__bool__", "next": "__next__"}
ITERATING_BUILTINS = {"set", "list", "sorted", "min", "max", "sum", "any", "all", "tuple", "frozenset", "map", "filter", "enumerate", "zip", "dict"}


class Ty:
    """A set of candidate repository classes (+ element type for containers, + external type names)."""

    __slots__ = ("classes", "elem", "ext")

    def __init__(self, classes: Iterable[ClassInfo] = (), elem: Optional["Ty"] = None, ext: Iterable[str] = ()):
        self.classes: Set[ClassInfo] = set(classes)
        self.elem = elem
        self.ext: Set[str] = set(ext)

    def union(self, other: Optional["Ty"]) -> "Ty":
        if other is None:
            return self
        e = self.elem.union(other.elem) if (self.elem and other.elem) else (self.elem or other.elem)
        return Ty(self.classes | other.classes, e, self.ext | other.ext)

    def __bool__(self) -> bool:
        return bool(self.classes or self.ext or self.elem)

    def __repr__(self) -> str:
        return "Ty(%s%s%s)" % (sorted(c.name for c in self.classes), (", elem=%r" % self.elem) if self.elem else "", (", ext=%s" % sorted(self.ext)) if self.ext else "")


CONTAINERS = {"List", "list", "Sequence", "Iterable", "Iterator", "Set", "set", "FrozenSet", "frozenset", "Collection", "SortedFileList", "Generator"}


class Types:
    def __init__(self, repo: Repo):
        self.repo = repo
        self._attr: Dict[Tuple[str, str], Optional[Ty]] = {}
        self._busy: Set[Any] = set()

    # ---- annotations
    def ann(self, mod: Module, cls: Optional[ClassInfo], a: Optional[ast.AST]) -> Optional[Ty]:
        if a is None:
            return None
        if isinstance(a, ast.Constant) and isinstance(a.value, str):
            try:
                a = ast.parse(a.value, mode="eval").body
            except SyntaxError:
                return None
        if isinstance(a, ast.Constant) and a.value is None:
            return None
        if isinstance(a, ast.BinOp) and isinstance(a.op, ast.BitOr):
            l, r = self.ann(mod, cls, a.left), self.ann(mod, cls, a.right)
            return (l or Ty()).union(r) or None
        if isinstance(a, ast.Subscript):
            head = dotted(a.value) or ""
            h = head.split(".")[-1]
            args = a.slice.elts if isinstance(a.slice, ast.Tuple) else [a.slice]
            if h in ("Optional", "Union"):
                out = Ty()
                for x in args:
                    out = out.union(self.ann(mod, cls, x))
                return out or None
            if h in CONTAINERS:
                return Ty(elem=self.ann(mod, cls, args[0]) or Ty())
            if h in ("Dict", "dict", "DefaultDict", "Mapping"):
                return Ty(ext={"dict"}, elem=self.ann(mod, cls, args[-1]))
            if h in ("Tuple", "tuple"):
                out = Ty(ext={"tuple"})
                e = Ty()
                for x in args:
                    e = e.union(self.ann(mod, cls, x))
                out.elem = e or None
                return out
            if h == "Type":
                return None
            return None
        r = self.repo.resolve_expr(mod, a, cls)  # type: ignore
        if isinstance(r, ClassInfo):
            return Ty([r])
        if isinstance(r, External):
            return Ty(ext={r.dotted.split(".")[-1]})
        if isinstance(r, ast.expr):
            # alias like `_Children = typing.Tuple[...]` / NamedTuple definitions
            if isinstance(r, ast.Call) and (dotted(r.func) or "").endswith("NamedTuple"):
                return Ty(ext={"namedtuple:" + (dotted(a) or "?")})
            return self.ann(mod, cls, r)
        return None

    # ---- instance attributes
    def attr_type(self, c: ClassInfo, attr: str) -> Optional[Ty]:
        key = (c.qualname, attr)
        if key in self._attr:
            return self._attr[key]
        self._attr[key] = None
        out = Ty()
        for k in self.repo.mro(c):
            if not isinstance(k, ClassInfo):
                continue
            for fn in k.methods.values():
                for st in ast.walk(fn.node):
                    tgt = val = annot = None
                    if isinstance(st, ast.Assign) and len(st.targets) == 1:
                        tgt, val = st.targets[0], st.value
                    elif isinstance(st, ast.AnnAssign):
                        tgt, val, annot = st.target, st.value, st.annotation
                    if tgt is None or not (isinstance(tgt, ast.Attribute) and isinstance(tgt.value, ast.Name) and tgt.value.id == "self" and tgt.attr == attr):
                        continue
                    if annot is not None:
                        out = out.union(self.ann(k.module, k, annot))
                    tc = _type_comment(k.module, st)
                    if tc is not None:
                        out = out.union(self.ann(k.module, k, tc))
                    if val is not None:
                        out = out.union(self.expr(fn, val, self._param_types(fn)))
        self._attr[key] = out or None
        return self._attr[key]

    def _param_types(self, fn: FuncInfo) -> Dict[str, Optional[Ty]]:
        loc: Dict[str, Optional[Ty]] = {}
        a = fn.node.args
        for arg in a.posonlyargs + a.args + a.kwonlyargs:
            loc[arg.arg] = self.ann(fn.module, fn.cls, arg.annotation)
        if fn.cls is not None and not fn.is_static and "self" in loc:
            loc["self"] = Ty([fn.cls])
        return loc

    def member_type(self, c: ClassInfo, name: str) -> Optional[Ty]:
        """type of `obj.name` for obj: c -- property/method return annotation or instance attribute"""
        m = self.repo.lookup_method(c, name)
        if m is not None:
            if m.is_property:
                return self.ann(m.module, m.cls, m.node.returns)
            return None
        return self.attr_type(c, name)

    # ---- expressions
    def expr(self, fn: FuncInfo, e: ast.AST, local: Dict[str, Optional[Ty]], depth: int = 0) -> Optional[Ty]:
        if depth > 6:
            return None
        repo = self.repo
        if isinstance(e, ast.Name):
            if e.id in local:
                return local[e.id]
            if e.id == "self" and fn.cls is not None and not fn.is_static:
                return Ty([fn.cls])
            r = repo.resolve_expr(fn.module, e, fn.cls)
            return None
        if isinstance(e, ast.Attribute):
            base = self.expr(fn, e.value, local, depth + 1)
            if base is not None and base.classes:
                out = Ty()
                for c in base.classes:
                    out = out.union(self.member_type(c, e.attr))
                return out or None
            if base is not None and any(x.startswith("namedtuple:") for x in base.ext):
                return None
            return None
        if isinstance(e, ast.Call):
            f = e.func
            r = repo.resolve_expr(fn.module, f, fn.cls) if isinstance(f, (ast.Name, ast.Attribute)) else None
            if isinstance(r, ClassInfo):
                return Ty([r])
            if isinstance(r, FuncInfo):
                return self.ann(r.module, r.cls, r.node.returns)
            if isinstance(f, ast.Attribute):
                if isinstance(f.value, ast.Call) and dotted(f.value.func) == "super" and fn.cls is not None:
                    m = self._super_method(fn, f.attr)
                    return self.ann(m.module, m.cls, m.node.returns) if m else None
                base = self.expr(fn, f.value, local, depth + 1)
                if base is not None and base.classes:
                    out = Ty()
                    for c in base.classes:
                        m = repo.lookup_method(c, f.attr)
                        if m is not None:
                            out = out.union(self.ann(m.module, m.cls, m.node.returns))
                    return out or None
                if base is not None and "dict" in base.ext and f.attr in ("values",):
                    return Ty(elem=base.elem)
                if base is not None and "dict" in base.ext and f.attr in ("get", "setdefault", "pop"):
                    return base.elem
            name = dotted(f)
            if name == "open":
                return Ty(ext={"file"})
            if name in ("int", "len", "str", "float", "bool", "bytes", "repr", "hash", "round", "abs", "ord", "chr"):
                return Ty(ext={name if name in ("int", "str", "float", "bool", "bytes") else "int"})
            if name in ("list", "sorted", "set", "tuple", "frozenset", "filter", "reversed", "iter") and e.args:
                a = self.expr(fn, e.args[-1] if name == "filter" else e.args[0], local, depth + 1)
                return Ty(elem=a.elem) if a is not None and a.elem is not None else None
            if name == "next" and e.args:
                a = self.expr(fn, e.args[0], local, depth + 1)
                return a.elem if a is not None else None
            return None
        if isinstance(e, ast.Subscript):
            base = self.expr(fn, e.value, local, depth + 1)
            if base is not None and base.elem is not None:
                if isinstance(e.slice, ast.Slice):
                    return Ty(elem=base.elem)
                return base.elem
            return None
        if isinstance(e, (ast.List, ast.Tuple, ast.Set)):
            el = Ty()
            for x in e.elts:
                el = el.union(self.expr(fn, x, local, depth + 1))
            return Ty(elem=el) if el else None
        if isinstance(e, (ast.ListComp, ast.SetComp, ast.GeneratorExp)):
            loc = dict(local)
            for g in e.generators:
                it = self.expr(fn, g.iter, loc, depth + 1)
                self._bind_target(g.target, it.elem if it is not None else None, loc)
            el = self.expr(fn, e.elt, loc, depth + 1)
            return Ty(elem=el) if el else None
        if isinstance(e, ast.IfExp):
            a, b = self.expr(fn, e.body, local, depth + 1), self.expr(fn, e.orelse, local, depth + 1)
            return (a or Ty()).union(b) or None
        if isinstance(e, ast.BoolOp):
            out = Ty()
            for v in e.values:
                out = out.union(self.expr(fn, v, local, depth + 1))
            return out or None
        if isinstance(e, ast.Constant):
            return Ty(ext={type(e.value).__name__})
        if isinstance(e, ast.BinOp):
            l = self.expr(fn, e.left, local, depth + 1)
            r = self.expr(fn, e.right, local, depth + 1)
            d = BINOP_DUNDER.get(type(e.op))
            out = Ty()
            if d:
                for side, dn in ((l, d[0]), (r, d[1])):
                    if side is not None:
                        for c in side.classes:
                            m = repo.lookup_method(c, dn)
                            if m is not None:
                                out = out.union(self.ann(m.module, m.cls, m.node.returns))
                if isinstance(e.op, ast.Add) and l is not None and l.elem is not None:
                    out = out.union(Ty(elem=l.elem.union(r.elem if r is not None else None)))
            if not out and l is not None and r is not None and l.ext and r.ext and not l.classes and not r.classes:
                out = Ty(ext=l.ext | r.ext)
            return out or None
        return None

    def _bind_target(self, t: ast.AST, ty: Optional[Ty], loc: Dict[str, Optional[Ty]]) -> None:
        if isinstance(t, ast.Name):
            loc[t.id] = ty
        elif isinstance(t, (ast.Tuple, ast.List)):
            for x in t.elts:
                # tuples of typed things: element union (imprecise but sound as a candidate set)
                self._bind_target(x, ty.elem if (ty is not None and ty.elem is not None and "tuple" in ty.ext) else None, loc)

    def _super_method(self, fn: FuncInfo, name: str) -> Optional[FuncInfo]:
        if fn.cls is None:
            return None
        mro = self.repo.mro(fn.cls)
        for k in mro[1:]:
            if isinstance(k, ClassInfo) and name in k.methods:
                return k.methods[name]
        return None

    # ---- locals of a function (flow-insensitive, with isinstance narrowing ignored = superset)
    def locals_of(self, fn: FuncInfo) -> Dict[str, Optional[Ty]]:
        loc: Dict[str, Optional[Ty]] = {}
        a = fn.node.args
        allargs = a.posonlyargs + a.args + a.kwonlyargs
        for arg in allargs:
            loc[arg.arg] = self.ann(fn.module, fn.cls, arg.annotation)
        if fn.cls is not None and not fn.is_static and allargs:
            first = allargs[0].arg
            if first in ("self", "_self"):
                loc[first] = Ty([fn.cls])
        # closure variables of enclosing functions
        p = fn.parent
        chain = []
        while p is not None:
            chain.append(p)
            p = p.parent
        for outer in reversed(chain):
            for k, v in self.locals_of(outer).items():
                loc.setdefault(k, v)
        for _ in range(2):  # two passes for simple dependencies
            for st in walk_no_nested(fn.node):
                if isinstance(st, ast.Assign):
                    tc = _type_comment(fn.module, st)
                    for t in st.targets:
                        if isinstance(t, ast.Name):
                            ty = self.ann(fn.module, fn.cls, tc) if tc is not None else self.expr(fn, st.value, loc)
                            loc[t.id] = (loc.get(t.id) or Ty()).union(ty) or None
                        elif isinstance(t, (ast.Tuple, ast.List)):
                            v = self.expr(fn, st.value, loc)
                            self._bind_target(t, v, loc)
                elif isinstance(st, ast.AnnAssign) and isinstance(st.target, ast.Name):
                    loc[st.target.id] = self.ann(fn.module, fn.cls, st.annotation)
                elif isinstance(st, (ast.For, ast.comprehension)):
                    it = self.expr(fn, st.iter, loc)
                    tmp: Dict[str, Optional[Ty]] = {}
                    self._bind_target(st.target, it.elem if it is not None else None, tmp)
                    for k, v in tmp.items():
                        loc[k] = (loc.get(k) or Ty()).union(v) or None
                elif isinstance(st, ast.With):
                    for item in st.items:
                        if isinstance(item.optional_vars, ast.Name):
                            loc[item.optional_vars.id] = self.expr(fn, item.context_expr, loc)
                elif isinstance(st, ast.ExceptHandler) and st.name:
                    ts = st.type.elts if isinstance(st.type, ast.Tuple) else ([st.type] if st.type is not None else [])
                    ty = Ty()
                    for t in ts:
                        r = self.repo.resolve_expr(fn.module, t, fn.cls)
                        if isinstance(r, ClassInfo):
                            ty = ty.union(Ty([r]))
                        elif isinstance(r, External):
                            ty = ty.union(Ty(ext={r.dotted.split(".")[-1]}))
                    loc[st.name] = (loc.get(st.name) or Ty()).union(ty) or None
                elif isinstance(st, ast.Call) and dotted(st.func) == "isinstance" and len(st.args) == 2 and isinstance(st.args[0], ast.Name):
                    # narrowing is flow-insensitive here: the tested classes are added to the candidate set
                    ks = st.args[1].elts if isinstance(st.args[1], ast.Tuple) else [st.args[1]]
                    ty = Ty()
                    for k in ks:
                        r = self.repo.resolve_expr(fn.module, k, fn.cls)
                        if isinstance(r, ClassInfo):
                            ty = ty.union(Ty([r]))
                    if ty:
                        loc[st.args[0].id] = (loc.get(st.args[0].id) or Ty()).union(ty)
        return loc


def _type_comment(mod: Module, st: ast.AST) -> Optional[ast.AST]:
    """`x = ...  # type: T` comments (the code base predates variable annotations in places)."""
    line = mod.source.splitlines()[st.end_lineno - 1] if getattr(st, "end_lineno", None) else ""
    if "# type:" in line:
        txt = line.split("# type:", 1)[1].strip()
        if txt.startswith("ignore"):
            return None
        txt = txt.split("#")[0].strip()
        try:
            return ast.parse(txt, mode="eval").body
        except SyntaxError:
            return None
    return None


class Site:
    __slots__ = ("caller", "node", "callees", "resolved", "kind")

    def __init__(self, caller: str, node: ast.AST, callees: List[str], resolved: bool, kind: str):
        self.caller = caller
        self.node = node
        self.callees = callees
        self.resolved = resolved
        self.kind = kind  # call | prop | dunder | ref | visit


class CallGraph:
    def __init__(self, repo: Repo):
        self.repo = repo
        self.types = Types(repo)
        self.funcs: Dict[str, FuncInfo] = dict(repo.all_functions())
        self.edges: Dict[str, Set[str]] = {}
        self.sites: Dict[str, List[Site]] = {}
        self.lambdas: Dict[str, Tuple[FuncInfo, ast.Lambda]] = {}
        self.by_name: Dict[str, List[FuncInfo]] = {}
        for f in self.funcs.values():
            if f.cls is not None and f.parent is None:
                self.by_name.setdefault(f.name, []).append(f)
        self._build()

    # ---- helpers
    def add(self, a: str, b: str) -> None:
        self.edges.setdefault(a, set()).add(b)

    def methods_named(self, name: str) -> List[FuncInfo]:
        return self.by_name.get(name, [])

    def dispatch(self, classes: Iterable[ClassInfo], name: str) -> List[FuncInfo]:
        """MRO lookup on each candidate + overrides in all subclasses of each candidate."""
        out: List[FuncInfo] = []
        for c in classes:
            m = self.repo.lookup_method(c, name)
            if m is not None and m not in out:
                out.append(m)
            for sub in self.repo.subclasses(c, strict=True):
                if name in sub.methods and sub.methods[name] not in out:
                    out.append(sub.methods[name])
                s = sub.methods.get(name + ".setter")
        return out

    def _class_init(self, c: ClassInfo) -> List[str]:
        out = []
        m = self.repo.lookup_method(c, "__init__")
        if m is not None:
            out.append(m.qualname)
        return out

    def _build(self) -> None:
        repo = self.repo
        for q, fn in list(self.funcs.items()):
            self._scan_function(fn)
        # class bodies
        for c in repo.all_classes().values():
            node = "<classbody> " + c.qualname
            self.edges.setdefault(node, set())
            for name, val in c.assigns.items():
                for n in ast.walk(val):
                    if isinstance(n, (ast.Name, ast.Attribute)):
                        r = repo.resolve_expr(c.module, n, c)
                        if isinstance(r, FuncInfo):
                            self.add(node, r.qualname)
                        elif isinstance(r, ClassInfo):
                            for i in self._class_init(r):
                                self.add(node, i)
            for m in c.methods.values():
                for d in m.node.decorator_list:
                    for n in ast.walk(d):
                        if isinstance(n, (ast.Name, ast.Attribute)):
                            r = repo.resolve_expr(c.module, n, c)
                            if isinstance(r, FuncInfo):
                                self.add(node, r.qualname)
                                # a decorated method is reached through the decorator's wrapper
                                for nested in _all_nested(r):
                                    self.add(nested.qualname, m.qualname)
        # module-level decorated functions (e.g. @_auto_swap(...)): wrapper -> decorated function
        for fn in self.funcs.values():
            if fn.cls is None and fn.parent is None:
                for d in fn.node.decorator_list:
                    for n in ast.walk(d):
                        if isinstance(n, (ast.Name, ast.Attribute)):
                            r = repo.resolve_expr(fn.module, n, None)
                            if isinstance(r, FuncInfo):
                                for nested in _all_nested(r):
                                    self.add(nested.qualname, fn.qualname)

    def _scan_function(self, fn: FuncInfo) -> None:
        q = fn.qualname
        self.edges.setdefault(q, set())
        loc = self.types.locals_of(fn)
        # nested functions are reachable from their definer
        for n in fn.nested.values():
            self.add(q, n.qualname)
        self._scan_body(fn, q, fn.node, loc)

    def _scan_body(self, fn: FuncInfo, q: str, root: ast.AST, loc: Dict[str, Optional[Ty]]) -> None:
        repo = self.repo
        call_funcs: Set[int] = set()
        stack = [root]
        first = True
        nodes: List[ast.AST] = []
        while stack:
            n = stack.pop()
            if not first and isinstance(n, (ast.FunctionDef, ast.AsyncFunctionDef, ast.ClassDef)):
                continue
            if not first and isinstance(n, ast.Lambda):
                lq = "<lambda> %s:%d" % (fn.qualname, n.lineno)
                self.lambdas[lq] = (fn, n)
                self.edges.setdefault(lq, set())
                self.add(q, lq)
                lloc = dict(loc)
                for a in n.args.args:
                    lloc[a.arg] = None
                self._scan_body(fn, lq, n.body if True else n, lloc)
                continue
            first = False
            nodes.append(n)
            stack.extend(reversed(list(ast.iter_child_nodes(n))))
        # comprehension variables
        loc = dict(loc)
        for n in nodes:
            if isinstance(n, ast.comprehension):
                it = self.types.expr(fn, n.iter, loc)
                self.types._bind_target(n.target, it.elem if it is not None else None, loc)
        for n in nodes:
            if isinstance(n, ast.Call):
                call_funcs.add(id(n.func))
                self._call(fn, q, n, loc)
            elif isinstance(n, ast.BinOp):
                d = BINOP_DUNDER.get(type(n.op))
                if d:
                    self._dunder(fn, q, n, [(n.left, d[0]), (n.right, d[1])], loc)
            elif isinstance(n, ast.Compare):
                left = n.left
                for op, c in zip(n.ops, n.comparators):
                    dn = CMP_DUNDER.get(type(op))
                    if dn:
                        if isinstance(op, (ast.In, ast.NotIn)):
                            self._dunder(fn, q, n, [(c, "__contains__"), (c, "__iter__")], loc)
                        else:
                            self._dunder(fn, q, n, [(left, dn), (c, dn)], loc)
                    left = c
            elif isinstance(n, (ast.For, ast.comprehension)):
                self._dunder(fn, q, n, [(n.iter, "__iter__")], loc)
            elif isinstance(n, ast.Starred):
                self._dunder(fn, q, n, [(n.value, "__iter__")], loc)
            elif isinstance(n, (ast.If, ast.While, ast.IfExp)):
                self._dunder(fn, q, n, [(n.test, "__bool__"), (n.test, "__len__")], loc, quiet=True)
        for n in nodes:
            if isinstance(n, ast.Attribute) and isinstance(n.ctx, ast.Load) and id(n) not in call_funcs:
                self._attr_load(fn, q, n, loc)
            elif isinstance(n, ast.Name) and isinstance(n.ctx, ast.Load) and id(n) not in call_funcs:
                r = repo.resolve_expr(fn.module, n, fn.cls)
                self._ref(fn, q, n, r)
                if n.id in fn.nested:
                    self.add(q, fn.nested[n.id].qualname)

    def _site(self, q: str, node: ast.AST, callees: List[str], resolved: bool, kind: str) -> None:
        self.sites.setdefault(q, []).append(Site(q, node, callees, resolved, kind))
        for c in callees:
            self.add(q, c)

    def _ref(self, fn: FuncInfo, q: str, node: ast.AST, r: Any) -> None:
        if isinstance(r, FuncInfo):
            self._site(q, node, [r.qualname], True, "ref")
        elif isinstance(r, ClassInfo):
            # a class used as a value may be instantiated by whoever receives it
            self._site(q, node, self._class_init(r), True, "ref")

    def _attr_load(self, fn: FuncInfo, q: str, n: ast.Attribute, loc: Dict[str, Optional[Ty]]) -> None:
        repo = self.repo
        r = repo.resolve_expr(fn.module, n, fn.cls)
        if isinstance(r, (FuncInfo, ClassInfo)):
            if isinstance(r, FuncInfo) and r.is_property:
                pass
            else:
                self._ref(fn, q, n, r)
                return
        if isinstance(r, (Module, External)) or isinstance(r, ast.expr):
            return
        base = self.types.expr(fn, n.value, loc)
        if base is not None and base.classes:
            ms = [m for m in self.dispatch(base.classes, n.attr)]
            props = [m.qualname for m in ms if m.is_property]
            meths = [m.qualname for m in ms if not m.is_property]
            if props:
                self._site(q, n, props, True, "prop")
            if meths:
                self._site(q, n, meths, True, "ref")  # bound method used as a value
            return
        if base is not None and (base.ext or base.elem is not None) and not base.classes:
            return  # attribute of an external / container value
        # unresolved receiver: every property / method of that name
        cands = [m for m in self.methods_named(n.attr)]
        if cands:
            props = [m.qualname for m in cands if m.is_property]
            if props:
                self._site(q, n, props, False, "prop")

    def _call(self, fn: FuncInfo, q: str, n: ast.Call, loc: Dict[str, Optional[Ty]]) -> None:
        repo = self.repo
        f = n.func
        name = dotted(f)
        # builtins with dunder dispatch
        if name in BUILTIN_DUNDER and n.args:
            self._dunder(fn, q, n, [(n.args[0], BUILTIN_DUNDER[name])], loc)
            if name in ("str", "repr"):
                return
        if name in ITERATING_BUILTINS:
            for a in n.args:
                self._dunder(fn, q, n, [(a, "__iter__")], loc, quiet=True)
        if isinstance(f, ast.Name):
            if f.id in fn.nested:
                self._site(q, n, [fn.nested[f.id].qualname], True, "call")
                return
            p = fn.parent
            while p is not None:
                if f.id in p.nested:
                    self._site(q, n, [p.nested[f.id].qualname], True, "call")
                    return
                p = p.parent
            r = repo.resolve_expr(fn.module, f, fn.cls)
            if isinstance(r, FuncInfo):
                self._site(q, n, [r.qualname], True, "call")
            elif isinstance(r, ClassInfo):
                self._site(q, n, self._class_init(r), True, "call")
            elif isinstance(r, External) or r is None and f.id in dir(__builtins__) if not isinstance(__builtins__, dict) else False:
                pass
            else:
                # local callable variable: its possible values were already linked by reference edges
                self._site(q, n, [], f.id in loc or r is not None, "call")
            return
        if isinstance(f, ast.Attribute):
            # super().m(...)
            if isinstance(f.value, ast.Call) and dotted(f.value.func) == "super":
                m = self.types._super_method(fn, f.attr)
                self._site(q, n, [m.qualname] if m else [], True, "call")
                return
            r = repo.resolve_expr(fn.module, f, fn.cls)
            if isinstance(r, FuncInfo) and not (isinstance(f.value, ast.Name) and f.value.id in ("self", "cls")):
                # module function or Class.method referenced statically (+ overrides for Class.method)
                callees = [r.qualname]
                if r.cls is not None:
                    callees = [m.qualname for m in self.dispatch([r.cls], r.name)] or callees
                self._site(q, n, callees, True, "call")
                return
            if isinstance(r, ClassInfo):
                self._site(q, n, self._class_init(r), True, "call")
                return
            if isinstance(r, External):
                return
            base = self.types.expr(fn, f.value, loc)
            if base is not None and base.classes:
                ms = self.dispatch(base.classes, f.attr)
                if ms:
                    self._site(q, n, [m.qualname for m in ms], True, "call")
                    # visitor dispatch
                    return
                # attribute holding a callable (e.g. self._element_callback(...)) or inherited external method
                if f.attr == "visit":
                    self._visit_dispatch(q, n, base.classes)
                    return
                self._site(q, n, [], True, "call")
                return
            if base is not None and (base.ext or base.elem is not None):
                return  # method of an external / container object
            # unresolved receiver: by name
            cands = self.methods_named(f.attr)
            if f.attr == "visit":
                self._visit_dispatch(q, n, [c for c in repo.all_classes().values() if any(m.startswith("visit_") for m in c.methods)])
                return
            if cands:
                self._site(q, n, [m.qualname for m in cands], False, "call")
            return
        # call of a call result / subscript etc.
        self._site(q, n, [], False, "call")

    def _visit_dispatch(self, q: str, n: ast.AST, classes: Iterable[ClassInfo]) -> None:
        callees = []
        for c in classes:
            for k in self.repo.mro(c):
                if isinstance(k, ClassInfo):
                    callees.append("<classbody> " + k.qualname)
                    for mname, m in k.methods.items():
                        if mname.startswith("visit_") or mname in ("generic_visit", "_visit_binary_operator_chain"):
                            callees.append(m.qualname)
        self._site(q, n, callees, True, "visit")

    def _dunder(self, fn: FuncInfo, q: str, node: ast.AST, operands: List[Tuple[ast.AST, str]], loc: Dict[str, Optional[Ty]], quiet: bool = False) -> None:
        callees: List[str] = []
        for e, dn in operands:
            t = self.types.expr(fn, e, loc)
            if t is not None and t.classes:
                for m in self.dispatch(t.classes, dn):
                    if m.qualname not in callees:
                        callees.append(m.qualname)
        if callees:
            self._site(q, node, callees, True, "dunder")

    # ---- queries
    def reachable(self, roots: Iterable[str], stop: Iterable[str] = ()) -> Dict[str, Optional[str]]:
        """BFS; returns node -> predecessor (for witness paths)."""
        stop_s = set(stop)
        pred: Dict[str, Optional[str]] = {}
        work = []
        for r in roots:
            if r not in pred:
                pred[r] = None
                work.append(r)
        while work:
            nxt = []
            for a in work:
                if a in stop_s:
                    continue
                for b in sorted(self.edges.get(a, ())):
                    if b not in pred:
                        pred[b] = a
                        nxt.append(b)
            work = nxt
        return pred

    @staticmethod
    def path_to(pred: Dict[str, Optional[str]], node: str) -> List[str]:
        out = [node]
        while pred.get(out[-1]) is not None:
            out.append(pred[out[-1]])  # type: ignore
        return list(reversed(out))

    def stats(self) -> Dict[str, Any]:
        n_sites = sum(len(v) for v in self.sites.values())
        calls = [s for v in self.sites.values() for s in v if s.kind == "call"]
        res = sum(1 for s in calls if s.resolved)
        return {
            "nodes": len(self.edges),
            "edges": sum(len(v) for v in self.edges.values()),
            "sites": n_sites,
            "call_sites": len(calls),
            "call_sites_resolved_pct": round(100.0 * res / max(1, len(calls)), 1),
        }


def _all_nested(f: FuncInfo) -> List[FuncInfo]:
    out = [f]
    for n in f.nested.values():
        out.extend(_all_nested(n))
    return out
