"""
E8 (part 1) -- layout terms.

Maps expressions of kind BitLengthSet to terms of a tiny algebra, so that layout definitions are compared by what
they *mean* in the bit-length-set algebra rather than by their text:

  ('leaf', s)            BitLengthSet(<scalar s>) or a bare scalar operand of + / concatenate
  ('bls', t)             <type expression t>.bit_length_set
  ('pad', T, a)          T.pad_to_alignment(a)
  ('rep', T, k)          T.repeat(k)
  ('repr', T, k)         T.repeat_range(k)
  ('cat', T1, .., Tn)    T1 + T2 / BitLengthSet.concatenate([..])     (flattened, order preserved)
  ('uni', X)             BitLengthSet.unite(X) / T1 | T2
  ('var', name)          a local accumulator
  ('call', f, args..)    a call to an aggregation helper (aggregate_bit_length_sets)

Scalars and type expressions are canonical texts after substitution of locals and inlining of trivial properties.
An expression that is not recognisably of BLS kind raises NotLayout (-> ANALYSIS-ERROR at an anchored site).
"""
from __future__ import annotations

import ast
from typing import Any, Callable, Dict, List, Optional, Tuple

from .core import dotted, norm


class NotLayout(Exception):
    pass


Term = Any


def scalar(e: ast.AST) -> str:
    return norm(e)


def bls_term(e: ast.AST, is_bls_name: Callable[[str], bool] = lambda n: False, helpers: Tuple[str, ...] = ("aggregate_bit_length_sets",)) -> Term:
    """Translate an expression known (or expected) to be a BitLengthSet."""
    if isinstance(e, ast.Name):
        if is_bls_name(e.id):
            return ("var", e.id)
        raise NotLayout("name %s is not a known bit length set" % e.id)
    if isinstance(e, ast.IfExp):
        return ("ite", norm(e.test), bls_term(e.body, is_bls_name, helpers), bls_term(e.orelse, is_bls_name, helpers))
    if isinstance(e, ast.Attribute):
        if e.attr == "bit_length_set":
            return ("bls", norm(e.value))
        if e.attr in ("_bls",):
            return ("bls", norm(e.value))
        d = dotted(e)
        if d and is_bls_name(d):
            return ("var", d)
        raise NotLayout("attribute %s is not a bit length set" % norm(e))
    if isinstance(e, ast.Subscript):
        # ms[0] where ms is a list of bit length sets
        d = norm(e.value)
        if is_bls_name(d + "[]"):
            return ("elem", d, norm(e.slice))
        raise NotLayout("subscript %s" % norm(e))
    if isinstance(e, ast.BinOp) and isinstance(e.op, ast.Add):
        parts: List[Term] = []
        for side in (e.left, e.right):
            try:
                t = bls_term(side, is_bls_name, helpers)
            except NotLayout:
                t = ("leaf", scalar(side))
            if t[0] == "cat":
                parts.extend(t[1:])
            else:
                parts.append(t)
        if all(p[0] == "leaf" for p in parts):
            raise NotLayout("sum of scalars %s" % norm(e))
        return ("cat",) + tuple(parts)
    if isinstance(e, ast.BinOp) and isinstance(e.op, ast.BitOr):
        return ("uni2", bls_term(e.left, is_bls_name, helpers), bls_term(e.right, is_bls_name, helpers))
    if isinstance(e, ast.Call):
        f = e.func
        name = dotted(f) or ""
        last = name.split(".")[-1] if name else (f.attr if isinstance(f, ast.Attribute) else "")
        if last == "BitLengthSet" and len(e.args) == 1:
            a = e.args[0]
            try:
                inner = bls_term(a, is_bls_name, helpers)
                return inner  # BitLengthSet(<bls>) is a copy
            except NotLayout:
                return ("leaf", scalar(a))
        if isinstance(f, ast.Attribute):
            if f.attr == "pad_to_alignment" and len(e.args) == 1:
                return ("pad", bls_term(f.value, is_bls_name, helpers), scalar(e.args[0]))
            if f.attr == "repeat" and len(e.args) == 1:
                return ("rep", bls_term(f.value, is_bls_name, helpers), scalar(e.args[0]))
            if f.attr == "repeat_range" and len(e.args) == 1:
                return ("repr", bls_term(f.value, is_bls_name, helpers), scalar(e.args[0]))
            if f.attr == "unite" and len(e.args) == 1:
                return ("uni", norm(e.args[0]))
            if f.attr == "concatenate" and len(e.args) == 1 and isinstance(e.args[0], (ast.List, ast.Tuple)):
                parts = []
                for x in e.args[0].elts:
                    try:
                        parts.append(bls_term(x, is_bls_name, helpers))
                    except NotLayout:
                        parts.append(("leaf", scalar(x)))
                return ("cat",) + tuple(parts)
            if f.attr in helpers:
                return ("call", f.attr, norm(f.value)) + tuple(norm(a) for a in e.args)
        raise NotLayout("call %s" % norm(e))
    raise NotLayout(norm(e))


def term_str(t: Term) -> str:
    if not isinstance(t, tuple):
        return str(t)
    return "%s(%s)" % (t[0], ", ".join(term_str(x) for x in t[1:]))


# ----------------------------------------------------------------------------------------------------------------------
# Abstract bit length sets: the operations of the algebra build canonical terms instead of computing sets.
# ----------------------------------------------------------------------------------------------------------------------
from .fold import Abstract as _Abstract  # noqa: E402


class NeedDecision(Exception):
    """an abstract truth value was needed that the current decision prefix does not cover"""

    def __init__(self, expr: Any, arity: int = 2):
        super().__init__(str(expr))
        self.expr = expr
        self.arity = arity


class Oracle:
    """decisions for abstract truth values, replayed along one explored run; what was assumed is kept as facts"""

    current: Optional["Oracle"] = None

    def __init__(self, decisions: List[bool]):
        self.decisions = list(decisions)
        self.pos = 0
        self.log: List[Tuple[Any, bool]] = []

    def _implied(self, expr: Any) -> Optional[bool]:
        """a comparison of an abstract integer with a constant that the facts assumed so far along this run already decide
        (interval reasoning over the earlier comparisons of the same quantity with constants): a loop that counts up to a
        quantity known to be at most c ends after c + 1 questions instead of asking for ever"""
        if not (isinstance(expr, tuple) and len(expr) == 3 and expr[0] in ("<", "<=", ">", ">=", "==", "!=") and isinstance(expr[2], int) and not isinstance(expr[2], bool)):
            return None
        lo, hi = None, None  # known: lo <= q <= hi
        for e, v in self.log:
            if not (isinstance(e, tuple) and len(e) == 3 and e[0] in ("<", "<=", ">", ">=", "==") and isinstance(e[2], int) and not isinstance(e[2], bool)):
                continue
            try:
                same = e[1] == expr[1]
            except Exception:
                same = False
            if same is not True:
                continue
            op, c = e[0], e[2]
            if not v:
                op = {"<": ">=", "<=": ">", ">": "<=", ">=": "<", "==": "!="}[op]
            if op == "<":
                hi = c - 1 if hi is None else min(hi, c - 1)
            elif op == "<=":
                hi = c if hi is None else min(hi, c)
            elif op == ">":
                lo = c + 1 if lo is None else max(lo, c + 1)
            elif op == ">=":
                lo = c if lo is None else max(lo, c)
            elif op == "==":
                lo = c if lo is None else max(lo, c)
                hi = c if hi is None else min(hi, c)
        op, c = expr[0], expr[2]
        if op == "<":
            return True if hi is not None and hi < c else (False if lo is not None and lo >= c else None)
        if op == "<=":
            return True if hi is not None and hi <= c else (False if lo is not None and lo > c else None)
        if op == ">":
            return True if lo is not None and lo > c else (False if hi is not None and hi <= c else None)
        if op == ">=":
            return True if lo is not None and lo >= c else (False if hi is not None and hi < c else None)
        if op == "==":
            return True if lo is not None and lo == hi == c else (False if (hi is not None and hi < c) or (lo is not None and lo > c) else None)
        if op == "!=":
            return False if lo is not None and lo == hi == c else (True if (hi is not None and hi < c) or (lo is not None and lo > c) else None)
        return None

    def decide(self, expr: Any, arity: int = 2) -> Any:
        for e, v in self.log:
            if e == expr:
                return v
        if arity == 2:
            imp = self._implied(expr)
            if imp is not None:
                return imp
        if self.pos >= len(self.decisions):
            raise NeedDecision(expr, arity)
        v = self.decisions[self.pos]
        self.pos += 1
        self.log.append((expr, v))
        return v

    def fact(self, expr: Any) -> Optional[bool]:
        for e, v in self.log:
            if e == expr:
                return v
        return None


def explore(run: Callable[[], Any], max_runs: int = 64) -> List[Tuple[List[Tuple[Any, bool]], Any]]:
    """all runs of `run` over the decisions of its abstract truth values: [(assumptions, result | exception)]"""
    out: List[Tuple[List[Tuple[Any, bool]], Any]] = []
    work: List[List[bool]] = [[]]
    n = 0
    prev = Oracle.current
    try:
        while work:
            n += 1
            if n > max_runs:
                raise NotLayout("too many abstract branches")
            dec = work.pop()
            o = Oracle(dec)
            Oracle.current = o
            try:
                res = run()
            except NeedDecision as nd:
                if nd.arity == 2:
                    work.append(dec + [False])
                    work.append(dec + [True])
                else:
                    for i in reversed(range(nd.arity)):
                        work.append(dec + [i])
                continue
            out.append((list(o.log), res))
    finally:
        Oracle.current = prev
    return out


def under(assumptions: List[Tuple[Any, bool]], run: Callable[[], Any]) -> Any:
    """evaluate `run` with the given assumptions as known facts (no new decisions allowed)"""
    prev = Oracle.current
    o = Oracle([])
    o.log = list(assumptions)
    Oracle.current = o
    try:
        return run()
    finally:
        Oracle.current = prev


class AbsBool(_Abstract):
    def __init__(self, expr: Any):
        self.expr = expr

    def __bool__(self) -> bool:
        if Oracle.current is None:
            raise NeedDecision(self.expr)
        return Oracle.current.decide(self.expr)

    def __repr__(self) -> str:
        return "AbsBool%r" % (self.expr,)


class AbsInt(_Abstract):
    """an integer that depends on the numeric content of an abstract bit length set"""

    def __init__(self, expr: Any):
        self.expr = expr

    def _bin(self, op: str, o: Any, swap: bool = False) -> "AbsInt":
        oe = o.expr if isinstance(o, AbsInt) else o
        return AbsInt((op, oe, self.expr) if swap else (op, self.expr, oe))

    def __add__(self, o: Any) -> "AbsInt":
        return self._bin("+", o)

    def __radd__(self, o: Any) -> "AbsInt":
        return self._bin("+", o, True)

    def __sub__(self, o: Any) -> "AbsInt":
        return self._bin("-", o)

    def __rsub__(self, o: Any) -> "AbsInt":
        return self._bin("-", o, True)

    def __mul__(self, o: Any) -> "AbsInt":
        return self._bin("*", o)

    def __rmul__(self, o: Any) -> "AbsInt":
        return self._bin("*", o, True)

    def __mod__(self, o: Any) -> "AbsInt":
        return self._bin("%", o)

    def __floordiv__(self, o: Any) -> "AbsInt":
        return self._bin("//", o)

    def __xor__(self, o: Any) -> "AbsInt":
        return self._bin("^", o)

    def __rxor__(self, o: Any) -> "AbsInt":
        return self._bin("^", o, True)

    def __and__(self, o: Any) -> "AbsInt":
        return self._bin("&", o)

    def __rand__(self, o: Any) -> "AbsInt":
        return self._bin("&", o, True)

    def __or__(self, o: Any) -> "AbsInt":
        return self._bin("|", o)

    def __ror__(self, o: Any) -> "AbsInt":
        return self._bin("|", o, True)

    def __lshift__(self, o: Any) -> "AbsInt":
        return self._bin("<<", o)

    def __rshift__(self, o: Any) -> "AbsInt":
        return self._bin(">>", o)

    def _cmp(self, op: str, o: Any) -> Any:
        oe = o.expr if isinstance(o, AbsInt) else o
        if oe == self.expr and isinstance(o, AbsInt):
            return op in ("==", "<=", ">=")  # the same abstract quantity on both sides
        return AbsBool((op, self.expr, oe))

    def __eq__(self, o: Any) -> Any:  # type: ignore
        return self._cmp("==", o)

    def __ne__(self, o: Any) -> Any:  # type: ignore
        return self._cmp("!=", o)

    def __lt__(self, o: Any) -> Any:
        return self._cmp("<", o)

    def __le__(self, o: Any) -> Any:
        return self._cmp("<=", o)

    def __gt__(self, o: Any) -> Any:
        return self._cmp(">", o)

    def __ge__(self, o: Any) -> Any:
        return self._cmp(">=", o)

    __hash__ = None  # type: ignore

    def choose_index(self, n: int) -> int:
        """this integer used as an index into a sequence of n elements: one run per element"""
        if Oracle.current is None:
            raise NeedDecision(("index", self.expr), n)
        return Oracle.current.decide(("index", self.expr), n)

    def __repr__(self) -> str:
        return "AbsInt%r" % (self.expr,)


def mentions_only_min_max(expr: Any) -> bool:
    """is the abstract condition a function of the set's minimum and maximum alone?"""
    if isinstance(expr, tuple):
        if expr and expr[0] in ("min", "max"):
            return True
        if expr and expr[0] in ("aligned", "fixed"):
            return False
        return all(mentions_only_min_max(x) for x in expr[1:]) if expr and isinstance(expr[0], str) else all(mentions_only_min_max(x) for x in expr)
    return True


def _aligned(term: Any, a: int) -> Optional[bool]:
    if a == 1:
        return True
    if Oracle.current is not None:
        f = Oracle.current.fact(("aligned", term, a))
        if f is not None:
            return f
    k = term[0]
    if k == "leaf":
        return all(v % a == 0 for v in term[1])
    if k == "var":
        return True if (len(term) > 2 and term[2] % a == 0) else None
    if k == "pad":
        if term[2] % a == 0:
            return True
        return None
    if k in ("rep", "rng"):
        return True if _aligned(term[1], a) else None
    if k == "cat":
        return True if all(_aligned(t, a) for t in term[1:]) else None
    if k == "uni":
        return True if all(_aligned(t, a) for t in term[1]) else None
    return None


_CONCRETE_CAP = 20000
_concrete_memo: Dict[Any, Any] = {}


def _concrete(t: Any) -> Optional[frozenset]:
    """the set a closed term denotes, or None (an unknown operand, or more than a few thousand elements)"""
    if t in _concrete_memo:
        return _concrete_memo[t]

    def sums(a: frozenset, b: frozenset) -> Optional[frozenset]:
        if len(a) * len(b) > 4 * _CONCRETE_CAP:
            return None
        r = frozenset(x + y for x in a for y in b)
        return r if len(r) <= _CONCRETE_CAP else None

    out: Optional[frozenset] = None
    k = t[0]
    if k == "leaf":
        out = t[1] if len(t[1]) <= _CONCRETE_CAP else None
    elif k == "pad":
        c = _concrete(t[1])
        out = frozenset(-(-v // t[2]) * t[2] for v in c) if c is not None else None
    elif k in ("rep", "rng"):
        c = _concrete(t[1])
        n = t[2]
        if c is not None and isinstance(n, int) and 0 <= n <= 4096:
            acc: Optional[frozenset] = frozenset([0])
            union = set([0])
            for _ in range(n):
                acc = sums(acc, c) if acc is not None else None
                if acc is None:
                    break
                union |= acc
                if len(union) > _CONCRETE_CAP:
                    acc = None
                    break
            if acc is not None:
                out = acc if k == "rep" else frozenset(union)
    elif k == "cat":
        acc2: Optional[frozenset] = frozenset([0])
        for p in t[1:]:
            c = _concrete(p)
            acc2 = sums(acc2, c) if (acc2 is not None and c is not None) else None
        out = acc2
    elif k == "uni":
        parts = [_concrete(p) for p in t[1]]
        out = frozenset().union(*parts) if all(p is not None for p in parts) and sum(len(p) for p in parts) <= _CONCRETE_CAP else None  # type: ignore
    _concrete_memo[t] = out
    return out


class TBls(_Abstract):
    """
    term := ('var', name) | ('leaf', frozenset of ints) | ('pad', T, a) | ('rep', T, k) | ('rng', T, k)
          | ('cat', T1, .., Tn) | ('uni', frozenset of T)
    with the identities of the algebra applied on construction: concatenation is associative and {0} is its unit,
    singletons concatenate by addition, union is associative / commutative / idempotent, pad(T, 1) = T,
    pad(pad(T, a), a) = pad(T, a), pad({0}, a) = {0}, BitLengthSet(T) = T.
    """

    def __init__(self, term: Any):
        self.term = term

    # ---- constructors
    @staticmethod
    def var(name: str, alignment: int = 1) -> "TBls":
        """an unknown set all of whose elements are multiples of `alignment`"""
        return TBls(("var", name, alignment))

    @staticmethod
    def of(x: Any) -> "TBls":
        if isinstance(x, TBls):
            return x
        if isinstance(x, bool):
            raise TypeError("bool is not a length")
        if isinstance(x, int):
            return TBls(("leaf", frozenset([x])))
        try:
            vals = frozenset(int(v) for v in x)
        except Exception:
            raise TypeError("not a bit length set: %r" % (x,))
        return TBls(("leaf", vals))

    # ---- algebra
    def pad_to_alignment(self, a: Any) -> "TBls":
        a = int(a)
        if a < 1:
            raise ValueError("alignment")
        if a == 1:
            return self
        t = self.term
        if t[0] == "leaf":
            return TBls(("leaf", frozenset(-(-v // a) * a for v in t[1])))
        if _aligned(t, a):
            return self  # padding an aligned set changes nothing
        if t[0] == "cat":
            # a prefix of aligned parts shifts what follows by multiples of the alignment: pad(A + R, a) = A + pad(R, a)
            k = 0
            while k < len(t) - 1 and _aligned(t[1 + k], a):
                k += 1
            if k:
                rest = t[1 + k :]
                r = TBls(rest[0] if len(rest) == 1 else ("cat",) + tuple(rest)).pad_to_alignment(a)
                return TBls.concatenate([TBls(x) for x in t[1 : 1 + k]] + [r])
        return TBls(("pad", t, a))

    def repeat(self, k: Any) -> "TBls":
        return TBls(("rep", self.term, int(k)))

    def repeat_range(self, k: Any) -> "TBls":
        return TBls(("rng", self.term, int(k)))

    @staticmethod
    def concatenate(sets: Any) -> "TBls":
        parts: List[Any] = []
        for s in sets:
            t = TBls.of(s).term
            for p in t[1:] if t[0] == "cat" else [t]:
                if p[0] == "leaf" and parts and parts[-1][0] == "leaf":
                    parts[-1] = ("leaf", frozenset(a + b for a in parts[-1][1] for b in p[1]))
                else:
                    parts.append(p)
        parts = [p for p in parts if p != ("leaf", frozenset([0]))] or [("leaf", frozenset([0]))]
        return TBls(parts[0] if len(parts) == 1 else ("cat",) + tuple(parts))

    @staticmethod
    def unite(sets: Any) -> "TBls":
        items = set()
        n = 0
        for s in sets:
            n += 1
            t = TBls.of(s).term
            items |= set(t[1]) if t[0] == "uni" else {t}
        if n == 0:
            raise ValueError("union of nothing")
        leaves = [t for t in items if t[0] == "leaf"]
        if len(leaves) > 1:
            merged = ("leaf", frozenset().union(*[t[1] for t in leaves]))
            items = {t for t in items if t[0] != "leaf"} | {merged}
        if len(items) == 1:
            return TBls(next(iter(items)))
        return TBls(("uni", frozenset(items)))

    def __add__(self, o: Any) -> "TBls":
        return TBls.concatenate([self, o])

    def __radd__(self, o: Any) -> "TBls":
        return TBls.concatenate([o, self])

    def __or__(self, o: Any) -> "TBls":
        return TBls.unite([self, o])

    def __ror__(self, o: Any) -> "TBls":
        return TBls.unite([o, self])

    def __eq__(self, o: Any) -> bool:
        if not isinstance(o, TBls):
            return False
        if self.term == o.term:
            return True
        # two closed terms (no unknown operand) denote sets that can simply be written out: {0, 8, ..., 64} is the same set
        # whether it was built as a literal, a range or a bounded repetition
        a, b = _concrete(self.term), _concrete(o.term)
        return a is not None and b is not None and a == b

    def __hash__(self) -> int:
        c = _concrete(self.term)
        return hash(c) if c is not None else hash(self.term)

    def is_aligned_at(self, a: Any) -> Any:
        r = _aligned(self.term, int(a))
        return r if r is not None else AbsBool(("aligned", self.term, int(a)))

    def is_aligned_at_byte(self) -> Any:
        return self.is_aligned_at(8)

    @property
    def min(self) -> Any:
        return min(self.term[1]) if self.term[0] == "leaf" else AbsInt(("min", self.term))

    @property
    def max(self) -> Any:
        return max(self.term[1]) if self.term[0] == "leaf" else AbsInt(("max", self.term))

    @property
    def fixed_length(self) -> Any:
        return len(self.term[1]) == 1 if self.term[0] == "leaf" else AbsBool(("fixed", self.term))

    def __iter__(self) -> Any:
        # numerical expansion: the elements are not known here, only that they are this set's
        return iter([("ELEMENTS-OF", self.term)])

    def __repr__(self) -> str:
        return show_term(self.term)


def show_term(t: Any) -> str:
    if t[0] == "var":
        return t[1]
    if t[0] in ("min", "max", "aligned", "fixed"):
        return "%s(%s)" % (t[0], ", ".join(show_term(x) if isinstance(x, tuple) else str(x) for x in t[1:]))
    if t[0] == "leaf":
        return "{%s}" % ",".join(str(v) for v in sorted(t[1]))
    if t[0] == "uni":
        return "uni(%s)" % ", ".join(sorted(show_term(x) for x in t[1]))
    if t[0] == "cat":
        return "cat(%s)" % ", ".join(show_term(x) for x in t[1:])
    return "%s(%s, %s)" % (t[0], show_term(t[1]), t[2])
