"""
E8 (part 1) -- layout terms.

Maps expressions of kind BitLengthSet to terms of a tiny algebra, so that layout definitions are compared by what
they *mean* in the bit-length-set algebra rather than by their text:

  ('leaf', s)            BitLengthSet(<scalar s>) or a bare scalar operand of + / concatenate
  ('bls', t)             <type expression t>.bit_length_set
  ('pad', T, a)          T.pad_to_alignment(a)
  ('rep', T, k)          T.repeat(k)
  ('repr', T, k)         T.repeat_range(k)
  ('cat', T1, .., Tn)    T1 + T2 / BitLengthSet.concatenate([..])     (flattened, order preserved)
  ('uni', X)             BitLengthSet.unite(X) / T1 | T2
  ('var', name)          a local accumulator
  ('call', f, args..)    a call to an aggregation helper (aggregate_bit_length_sets)

Scalars and type expressions are canonical texts after substitution of locals and inlining of trivial properties.
An expression that is not recognisably of BLS kind raises NotLayout (-> ANALYSIS-ERROR at an anchored site).
"""
from __future__ import annotations

import ast
from typing import Any, Callable, Dict, List, Optional, Tuple

from .core import dotted, norm


class NotLayout(Exception):
    pass


Term = Any


def scalar(e: ast.AST) -> str:
    return norm(e)


def bls_term(e: ast.AST, is_bls_name: Callable[[str], bool] = lambda n: False, helpers: Tuple[str, ...] = ("aggregate_bit_length_sets",)) -> Term:
    """Translate an expression known (or expected) to be a BitLengthSet."""
    if isinstance(e, ast.Name):
        if is_bls_name(e.id):
            return ("var", e.id)
        raise NotLayout("name %s is not a known bit length set" % e.id)
    if isinstance(e, ast.IfExp):
        return ("ite", norm(e.test), bls_term(e.body, is_bls_name, helpers), bls_term(e.orelse, is_bls_name, helpers))
    if isinstance(e, ast.Attribute):
        if e.attr == "bit_length_set":
            return ("bls", norm(e.value))
        if e.attr in ("_bls",):
            return ("bls", norm(e.value))
        d = dotted(e)
        if d and is_bls_name(d):
            return ("var", d)
        raise NotLayout("attribute %s is not a bit length set" % norm(e))
    if isinstance(e, ast.Subscript):
        # ms[0] where ms is a list of bit length sets
        d = norm(e.value)
        if is_bls_name(d + "[]"):
            return ("elem", d, norm(e.slice))
        raise NotLayout("subscript %s" % norm(e))
    if isinstance(e, ast.BinOp) and isinstance(e.op, ast.Add):
        parts: List[Term] = []
        for side in (e.left, e.right):
            try:
                t = bls_term(side, is_bls_name, helpers)
            except NotLayout:
                t = ("leaf", scalar(side))
            if t[0] == "cat":
                parts.extend(t[1:])
            else:
                parts.append(t)
        if all(p[0] == "leaf" for p in parts):
            raise NotLayout("sum of scalars %s" % norm(e))
        return ("cat",) + tuple(parts)
    if isinstance(e, ast.BinOp) and isinstance(e.op, ast.BitOr):
        return ("uni2", bls_term(e.left, is_bls_name, helpers), bls_term(e.right, is_bls_name, helpers))
    if isinstance(e, ast.Call):
        f = e.func
        name = dotted(f) or ""
        last = name.split(".")[-1] if name else (f.attr if isinstance(f, ast.Attribute) else "")
        if last == "BitLengthSet" and len(e.args) == 1:
            a = e.args[0]
            try:
                inner = bls_term(a, is_bls_name, helpers)
                return inner  # BitLengthSet(<bls>) is a copy
            except NotLayout:
                return ("leaf", scalar(a))
        if isinstance(f, ast.Attribute):
            if f.attr == "pad_to_alignment" and len(e.args) == 1:
                return ("pad", bls_term(f.value, is_bls_name, helpers), scalar(e.args[0]))
            if f.attr == "repeat" and len(e.args) == 1:
                return ("rep", bls_term(f.value, is_bls_name, helpers), scalar(e.args[0]))
            if f.attr == "repeat_range" and len(e.args) == 1:
                return ("repr", bls_term(f.value, is_bls_name, helpers), scalar(e.args[0]))
            if f.attr == "unite" and len(e.args) == 1:
                return ("uni", norm(e.args[0]))
            if f.attr == "concatenate" and len(e.args) == 1 and isinstance(e.args[0], (ast.List, ast.Tuple)):
                parts = []
                for x in e.args[0].elts:
                    try:
                        parts.append(bls_term(x, is_bls_name, helpers))
                    except NotLayout:
                        parts.append(("leaf", scalar(x)))
                return ("cat",) + tuple(parts)
            if f.attr in helpers:
                return ("call", f.attr, norm(f.value)) + tuple(norm(a) for a in e.args)
        raise NotLayout("call %s" % norm(e))
    raise NotLayout(norm(e))


def term_str(t: Term) -> str:
    if not isinstance(t, tuple):
        return str(t)
    return "%s(%s)" % (t[0], ", ".join(term_str(x) for x in t[1:]))
