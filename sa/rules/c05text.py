"""
C05, text level (R11): a table of small definitions - for every static rule the property lists, texts on both sides of the
rule - is read by the repository's front end (evaluated from the source); each text must be accepted exactly when the
Specification accepts it, and every rejection must be an InvalidDefinitionError.  The verdicts are written down here from the
Specification (sa/spec_tables.py for the numeric limits, the reserved words and the regulated port-ID ranges), not taken from
the repository.
"""
from __future__ import annotations

import re
from typing import Any, Dict, List, Optional, Tuple

from .. import spec_tables as S
from ..core import AnalysisError, Ctx
from .c03text import front_end
from .c04text import is_invalid_definition

DEPS = {
    "B.1.0.dsdl": "uint8 z\n@sealed\n",
    "Old.1.0.dsdl": "@deprecated\nuint8 z\n@sealed\n",
    "Svc.1.0.dsdl": "uint8 a\n@sealed\n---\nuint8 b\n@sealed\n",
}

Case = Tuple[str, bool, Dict[str, str], str, Dict[str, Any]]  # label, accepted, files, root directory name, kwargs


def reserved(name: str) -> bool:
    low = name.lower()
    return low in S.RESERVED_WORDS or any(re.fullmatch(p, low) for p in S.RESERVED_PATTERNS)


def well_formed(name: str) -> bool:
    return bool(name) and name[0] in S.NAME_FIRST and all(c in S.NAME_REST for c in name)


def cases(thorough: bool) -> List[Case]:
    out: List[Case] = []

    def one(label: str, ok: bool, text: str, file: str = "T.1.0.dsdl", root: str = "ns", extra: Optional[Dict[str, str]] = None, **kwargs: Any) -> None:
        # (the dependencies are there only when the text refers to one: every file is read on every run)
        files = {k: v for k, v in DEPS.items() if k.split(".")[0] + "." in text}
        files.update(extra or {})
        files[file] = text
        kw = {"allow_unregulated_fixed_port_id": True}
        kw.update(kwargs)
        out.append((label, ok, files, root, kw))

    # ---- bit widths
    for n in (1, 2, 8, 63, 64, 65, 100):
        one("uint%d" % n, n <= 64, "uint%d a\n@sealed\n" % n)
        one("truncated uint%d" % n, n <= 64, "truncated uint%d a\n@sealed\n" % n)
        one("int%d" % n, 2 <= n <= 64, "int%d a\n@sealed\n" % n)
        one("void%d" % n, n <= 64, "void%d\n@sealed\n" % n)
        one("truncated int%d" % n, False, "truncated int%d a\n@sealed\n" % n)
    one("saturated int2", True, "saturated int2 a\n@sealed\n")
    one("uint0", False, "uint0 a\n@sealed\n")
    one("int0", False, "int0 a\n@sealed\n")
    one("void0", False, "void0\n@sealed\n")
    one("uint08", False, "uint08 a\n@sealed\n")
    for n in (8, 15, 16, 17, 31, 32, 33, 63, 64, 65, 128):
        one("float%d" % n, n in S.FLOAT_BITS, "float%d a\n@sealed\n" % n)
        one("truncated float%d" % n, n in S.FLOAT_BITS, "truncated float%d a\n@sealed\n" % n)
    one("saturated bool", False, "saturated bool a\n@sealed\n")
    one("truncated bool", False, "truncated bool a\n@sealed\n")
    one("truncated B.1.0", False, "truncated B.1.0 a\n@sealed\n")
    # ---- array capacity
    for form, cap_of in (("[%s]", lambda n: n), ("[<=%s]", lambda n: n), ("[<%s]", lambda n: n - 1)):
        for n in (-1, 0, 1, 2, 3):
            one("capacity uint8" + form % n, cap_of(n) >= 1, ("uint8" + form + " a\n@sealed\n") % n)
        for e in ("1.5", "true", "'a'", "{1}", "1 / 2", "4 / 2", "2.0"):
            ok = e in ("4 / 2", "2.0") and cap_of(2) >= 1
            one("capacity uint8" + form % e, ok, ("uint8" + form + " a\n@sealed\n") % e)
    one("array of arrays", False, "uint8[2][2] a\n@sealed\n")
    one("empty capacity", False, "uint8[] a\n@sealed\n")
    # ---- names: attributes, short names, namespace components
    words = sorted(S.RESERVED_WORDS) + ["void", "void8", "int", "uint", "int8", "uint64", "uint999", "float", "float16", "float1", "q1_2", "uq16_16", "com1", "lpt9", "_a_", "__", "_0_", "___"]
    near = ["truncated_", "saturate", "bools", "voidx", "void_8", "int_8", "uintx", "xint8", "floats", "float_16", "q1_", "uq", "q_1_2", "com", "com10", "lpt", "lpt10", "_a", "a_", "_", "a", "A9", "optional1", "types", "selfie", "android", "nullable", "con_", "a__b"]
    if not thorough:
        words = words[::2] + ["_a_", "uint8", "void", "float16", "q1_2", "com1"]
    for w in words:
        assert reserved(w), w
        for spelling in {w, w.upper(), w.capitalize()}:
            one("attribute named %s" % spelling, False, "uint8 %s\n@sealed\n" % spelling)
        one("constant named %s" % w.upper(), False, "uint8 %s = 1\n@sealed\n" % w.upper())
        one("type named %s" % w.capitalize(), False, "uint8 a\n@sealed\n", file="%s.1.0.dsdl" % w.capitalize())
        one("namespace component %s" % w, False, "uint8 a\n@sealed\n", file="%s/T.1.0.dsdl" % w)
    for w in near:
        assert not reserved(w) and well_formed(w), w
        one("attribute named %s" % w, True, "uint8 %s\n@sealed\n" % w)
        one("type named %s" % w, True, "uint8 a\n@sealed\n", file="%s.1.0.dsdl" % w)
        one("namespace component %s" % w, True, "uint8 a\n@sealed\n", file="%s/T.1.0.dsdl" % w)
    for w in ("1a", "a-b", "a b", "a.b", "é", "aé", "a$"):
        one("type named %r" % w, False, "uint8 a\n@sealed\n", file="%s.1.0.dsdl" % w)
        if "." not in w:
            one("namespace component %r" % w, False, "uint8 a\n@sealed\n", file="%s/T.1.0.dsdl" % w)
    for w in ("1a", "a-b", "é", "a$"):
        one("attribute named %r" % w, False, "uint8 %s\n@sealed\n" % w)
    one("root namespace with a reserved name", False, "uint8 a\n@sealed\n", root="bool")
    one("root namespace with a malformed name", False, "uint8 a\n@sealed\n", root="1ns")
    # ---- unique attribute names
    one("two fields, one name, one type", False, "uint8 a\nuint8 a\n@sealed\n")
    one("two fields, one name, two types", False, "uint8 a\nuint16 a\n@sealed\n")
    one("two fields, one name, far apart", False, "uint8 a\nuint8 b\nuint8 c\nvoid8\nuint8 a\n@sealed\n")
    one("field and constant, one name", False, "uint8 a\nuint8 a = 1\n@sealed\n")
    one("two equal constants, one name", False, "uint8 A = 1\nuint8 A = 1\n@sealed\n")
    one("names that differ in case", True, "uint8 a\nuint8 A\n@sealed\n")
    one("one name in request and response", True, "uint8 a\n@sealed\n---\nuint8 a\n@sealed\n")
    one("a duplicate in the response", False, "uint8 a\n@sealed\n---\nuint8 b\nuint8 b\n@sealed\n")
    one("a duplicate among union variants", False, "@union\nuint8 a\nuint8 a\n@sealed\n")
    one("several paddings", True, "void8\nvoid8\nuint8 a\nvoid8\n@sealed\n")
    # ---- unions
    one("union of no variants", False, "@union\n@sealed\n")
    one("union of one variant", False, "@union\nuint8 a\n@sealed\n")
    one("union of one variant and constants", False, "@union\nuint8 a\nuint8 B = 1\nuint8 C = 2\n@sealed\n")
    one("union of two variants", True, "@union\nuint8 a\nuint8 b\n@sealed\n")
    one("union with a padding", False, "@union\nuint8 a\nvoid8\nuint8 b\n@sealed\n")
    one("union with a leading padding", False, "@union\nvoid1\nuint8 a\nuint8 b\n@sealed\n")
    one("union in the response only, one variant", False, "uint8 a\n@sealed\n---\n@union\nuint8 b\n@sealed\n")
    # ---- void / utf8 / byte
    one("a named void field", False, "void8 a\n@sealed\n")
    one("an array of void", False, "void8[2] a\n@sealed\n")
    one("a variable array of void", False, "void8[<=2] a\n@sealed\n")
    one("utf8 scalar", False, "utf8 a\n@sealed\n")
    one("utf8 fixed array", False, "utf8[4] a\n@sealed\n")
    one("utf8 variable array <=", True, "utf8[<=4] a\n@sealed\n")
    one("utf8 variable array <", True, "utf8[<5] a\n@sealed\n")
    one("byte scalar", False, "byte a\n@sealed\n")
    one("byte fixed array", True, "byte[4] a\n@sealed\n")
    one("byte variable array", True, "byte[<=4] a\n@sealed\n")
    one("utf8 in a union", True, "@union\nutf8[<=4] a\nbyte[2] b\n@sealed\n")
    one("a service type as a field", False, "Svc.1.0 s\n@sealed\n")
    one("an array of a service type", False, "Svc.1.0[2] s\n@sealed\n")
    one("an undefined type", False, "Nope.1.0 s\n@sealed\n")
    one("an undefined version", False, "B.1.1 s\n@sealed\n")
    # ---- deprecation
    one("non-deprecated uses deprecated", False, "Old.1.0 a\n@sealed\n")
    one("non-deprecated uses deprecated in a fixed array", False, "Old.1.0[2] a\n@sealed\n")
    one("non-deprecated uses deprecated in a variable array", False, "uint8 x\nOld.1.0[<=2] a\n@sealed\n")
    one("non-deprecated union uses deprecated", False, "@union\nuint8 x\nOld.1.0 a\n@sealed\n")
    one("non-deprecated service uses deprecated in the response", False, "uint8 x\n@sealed\n---\nOld.1.0 a\n@sealed\n")
    one("deprecated uses deprecated", True, "@deprecated\nOld.1.0 a\nOld.1.0[2] b\n@sealed\n")
    one("deprecated uses non-deprecated", True, "@deprecated\nB.1.0 a\n@sealed\n")
    one("deprecated service uses deprecated in the response", True, "@deprecated\nuint8 x\n@sealed\n---\nOld.1.0 a\n@sealed\n")
    # ---- @sealed / @extent
    one("neither @sealed nor @extent", False, "uint8 a\n")
    one("an empty definition", False, "")
    one("both @sealed and @extent", False, "uint8 a\n@extent 64\n@sealed\n")
    one("both @extent and @sealed (other order)", False, "uint8 a\n@sealed\n@extent 64\n")
    one("@sealed twice", False, "uint8 a\n@sealed\n@sealed\n")
    one("@extent twice", False, "uint8 a\n@extent 64\n@extent 64\n")
    one("@extent before the last attribute", False, "uint8 a\n@extent 64\nuint8 b\n")
    one("@extent before a padding", False, "uint8 a\n@extent 64\nvoid8\n")
    one("@extent before a constant", False, "uint8 a\n@extent 64\nuint8 K = 1\n")
    one("@extent before the only attribute", False, "@extent 64\nuint8 a\n")
    one("@extent then a directive", True, "uint8 a\n@extent 64\n@assert true\n")
    one("request without mode", False, "uint8 a\n---\nuint8 b\n@sealed\n")
    one("response without mode", False, "uint8 a\n@sealed\n---\nuint8 b\n")
    one("a mode for each section", True, "uint8 a\n@extent 64\n---\nuint8 b\n@sealed\n")
    for ext, ok in (("0", False), ("7", False), ("8", True), ("9", False), ("15", False), ("16", True), ("64", True), ("-8", False), ("8.0", True), ("17 / 2", False), ("true", False), ("'8'", False), ("{8}", False), ("2 ** 40", True)):
        one("uint8 a; @extent %s" % ext, ok, "uint8 a\n@extent %s\n" % ext)
    one("empty; @extent 0", True, "@extent 0\n")
    one("empty; @extent 4", False, "@extent 4\n")
    one("uint8[<=2]; @extent 16", False, "uint8[<=2] a\n@extent 16\n")
    one("uint8[<=2]; @extent 24", True, "uint8[<=2] a\n@extent 24\n")
    one("nested delimited; extent covers header", False, "T2.1.0 a\n@extent 32\n", extra={"T2.1.0.dsdl": "uint8 a\n@extent 8\n"})
    one("nested delimited; extent covers header + extent", True, "T2.1.0 a\n@extent 40\n", extra={"T2.1.0.dsdl": "uint8 a\n@extent 8\n"})
    # ---- directive placement, duplication, operands
    one("@union after an attribute", False, "uint8 a\n@union\nuint8 b\n@sealed\n")
    one("@union after a padding", False, "void8\n@union\nuint8 a\nuint8 b\n@sealed\n")
    one("@union after a constant", False, "uint8 K = 1\n@union\nuint8 a\nuint8 b\n@sealed\n")
    one("@union twice", False, "@union\n@union\nuint8 a\nuint8 b\n@sealed\n")
    one("@union with an operand", False, "@union 1\nuint8 a\nuint8 b\n@sealed\n")
    one("@deprecated after an attribute", False, "uint8 a\n@deprecated\n@sealed\n")
    one("@deprecated twice", False, "@deprecated\n@deprecated\nuint8 a\n@sealed\n")
    one("@deprecated in the response", False, "uint8 a\n@sealed\n---\n@deprecated\nuint8 b\n@sealed\n")
    one("@deprecated with an operand", False, "@deprecated true\nuint8 a\n@sealed\n")
    one("@deprecated after @union", True, "@union\n@deprecated\nuint8 a\nuint8 b\n@sealed\n")
    one("@sealed with an operand", False, "uint8 a\n@sealed true\n")
    one("@extent without an operand", False, "uint8 a\n@extent\n")
    one("@assert without an operand", False, "uint8 a\n@assert\n@sealed\n")
    one("@assert of a number", False, "uint8 a\n@assert 1\n@sealed\n")
    one("@assert false", False, "uint8 a\n@assert false\n@sealed\n")
    one("@assert true", True, "uint8 a\n@assert true\n@sealed\n")
    one("@print without an operand", True, "uint8 a\n@print\n@sealed\n")
    one("an unknown directive", False, "uint8 a\n@foo\n@sealed\n")
    one("an unknown directive with an operand", False, "uint8 a\n@foo 1\n@sealed\n")
    one("a directive in capitals", False, "uint8 a\n@SEALED\n")
    one("two service markers", False, "uint8 a\n@sealed\n---\nuint8 b\n@sealed\n---\nuint8 c\n@sealed\n")
    one("a long service marker", True, "uint8 a\n@sealed\n-----\nuint8 b\n@sealed\n")
    one("a short service marker", False, "uint8 a\n@sealed\n--\nuint8 b\n@sealed\n")
    # ---- versions
    for mj, mn in ((0, 0), (0, 1), (1, 0), (255, 0), (0, 255), (255, 255), (256, 0), (0, 256), (1, 256), (1000, 1)):
        one("version %d.%d" % (mj, mn), (mj, mn) != (0, 0) and mj <= S.MAX_VERSION and mn <= S.MAX_VERSION, "uint8 a\n@sealed\n", file="V.%d.%d.dsdl" % (mj, mn))
    one("version -1.0", False, "uint8 a\n@sealed\n", file="V.-1.0.dsdl")
    one("version 1 only", False, "uint8 a\n@sealed\n", file="V.1.dsdl")
    one("no version", False, "uint8 a\n@sealed\n", file="V.dsdl")
    one("three version numbers", False, "uint8 a\n@sealed\n", file="1.V.1.0.0.dsdl")
    # ---- fixed port-IDs
    msg, svc = "uint8 a\n@sealed\n", "uint8 a\n@sealed\n---\nuint8 b\n@sealed\n"
    for pid in (0, 1, 6143, 6144, 7167, 7168, 8191, 8192, 65535):
        one("subject-ID %d, unregulated allowed" % pid, pid <= S.MAX_SUBJECT_ID, msg, file="%d.P.1.0.dsdl" % pid)
        for root, kind in (("ns", "vendor"), ("uavcan", "standard")):
            lo, hi = S.REGULATED[("subject", kind)]
            one("subject-ID %d in %s, regulated only" % (pid, root), lo <= pid <= hi, msg, file="%d.P.1.0.dsdl" % pid, root=root, allow_unregulated_fixed_port_id=False)
    for pid in (0, 255, 256, 383, 384, 511, 512, 8191):
        one("service-ID %d, unregulated allowed" % pid, pid <= S.MAX_SERVICE_ID, svc, file="%d.P.1.0.dsdl" % pid)
        for root, kind in (("ns", "vendor"), ("uavcan", "standard")):
            lo, hi = S.REGULATED[("service", kind)]
            one("service-ID %d in %s, regulated only" % (pid, root), lo <= pid <= hi, svc, file="%d.P.1.0.dsdl" % pid, root=root, allow_unregulated_fixed_port_id=False)
    one("no port-ID, regulated only", True, msg, allow_unregulated_fixed_port_id=False)
    one("port-ID -1", False, msg, file="-1.P.1.0.dsdl")
    one("port-ID 0x10", False, msg, file="0x10.P.1.0.dsdl")
    return out


def rule_r11_table(ctx: Ctx) -> None:
    ctx.rule("C05.R11", "a table of definitions on both sides of every static rule the property lists (bit widths, capacities, names and reserved words for attributes / types / namespace components, unique names, unions, void / utf8 / byte, deprecation, @sealed / @extent, extent values, directive placement / duplication / operands, versions, port-IDs with and without the regulated ranges) read by the evaluated front end: accepted exactly when the Specification accepts, every rejection an InvalidDefinitionError", min_instances=3)
    fe = front_end(ctx)
    table = cases(ctx.tier == "thorough")
    n_ok = sum(1 for c in table if c[1])
    if n_ok < 100 or len(table) - n_ok < 250:
        raise AnalysisError("degenerate table: %d accepted, %d rejected" % (n_ok, len(table) - n_ok))
    jobs = []
    for label, ok, files, root, kw in table:
        base = "/w/" + root
        jobs.append({"files": {base + "/" + k: v for k, v in files.items()}, "root": base, "kwargs": kw})
    outs = fe.read_many(jobs)
    ctx.count(len(jobs))
    wrongly_accepted, wrongly_rejected, wrong_class = [], [], []
    undecided = []
    for (label, ok, files, root, kw), o in zip(table, outs):
        shown = {k: v for k, v in files.items() if k not in DEPS}
        if o.get("too_large"):
            # the evaluated code enumerates a collection whose size follows a number in the definition: neither an acceptance nor
            # a rejection was seen - what that costs is C16's question, not this rule's
            undecided.append(label)
            continue
        if o["raised"] is None and not ok:
            wrongly_accepted.append({"case": label, "files": shown, "arguments": kw})
        elif o["raised"] is not None and ok:
            wrongly_rejected.append({"case": label, "files": shown, "arguments": kw, "raised": "%s at %s:%s" % (o["raised"], o["path"], o["line"])})
        elif o["raised"] is not None and not is_invalid_definition(ctx, o["raised"]):
            wrong_class.append({"case": label, "files": shown, "raised": o["raised"] + (" (%s)" % o.get("wrapped") if o.get("wrapped") else "")})
    if len(undecided) * 20 > len(table):
        raise AnalysisError("%d of %d definitions of the table cannot be read to the end (enumeration too large): %s" % (len(undecided), len(table), undecided[:3]))
    ctx.analysed["C05.R11.undecided"] = undecided
    where = "pydsdl/_data_type_builder.py"
    ctx.check(not wrongly_accepted, "read_namespace over the table", "%d definitions that break a static rule are rejected" % (len(table) - n_ok), "a definition that breaks a static rule of DSDL is accepted: %s" % "; ".join("%s %r" % (b["case"], b["files"]) for b in wrongly_accepted[:4]), where, wrongly_accepted[:12])
    ctx.check(not wrongly_rejected, "read_namespace over the table", "%d definitions that obey the static rules are accepted" % n_ok, "a definition that obeys the static rules of DSDL is rejected: %s" % "; ".join("%s %r: %s" % (b["case"], b["files"], b["raised"]) for b in wrongly_rejected[:4]), where, wrongly_rejected[:12])
    ctx.check(not wrong_class, "read_namespace over the table", "the rejections are InvalidDefinitionErrors", "a definition that breaks a static rule is rejected with an error that is not an InvalidDefinitionError: %s" % "; ".join("%s -> %s" % (b["case"], b["raised"]) for b in wrong_class[:4]), where, wrong_class[:12])
    ctx.analysed["C05.R11.cases"] = {"accepted by the Specification": n_ok, "rejected by the Specification": len(table) - n_ok}


def run(ctx: Ctx) -> None:
    ctx.attempt(rule_r11_table, ctx)
