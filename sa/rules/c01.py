"""
C01 -- Bit length set algebra is exact for every composition and every divisor.

The heart of C01 is number theory over unbounded integers and is *not* a shape property.  Decided here are the
structural necessary conditions:

R1  operator immutability: instance attributes are stored only in __init__ (exception: the four memo slots);
    constructors copy caller-owned containers.
R2  no mutation through aliases: a value obtained from child.modulo()/expand(), an instance container or a cache slot is
    never mutated in place and never returned by reference by a non-memo operator.
R3  memo transparency: each cache slot holds exactly the child's answer to the same query with the same arguments.
R4  query-dependency matrix: min reads only children's min, max only max, modulo only modulo (+max), expand only expand;
    and the BitLengthSet plumbing maps each public query to the operator query of the same name.
R5  residue homomorphism: child residues are requested modulo the divisor or an lcm with it, and everything returned by
    modulo() is reduced modulo the divisor.
R6  repetition-count reduction is exact (E9): K == k, or K ≡ k (mod d) with d-1 <= K <= k, for all k >= 0, d >= 1.
R7  composition plumbing: every public composition builds the operator of the matching kind over the operands in order.
R8  analytic min / max forms and the padding function.
"""
from __future__ import annotations

import ast
from typing import Any, Dict, List, Optional, Set, Tuple

from ..absint import AObj, Raised, Recorder, construct
from ..core import AnalysisError, ClassInfo, Ctx, FuncInfo, body_without_docstring, calls_in, dotted, norm, walk_no_nested
from ..decide import paths_of
from ..fold import Abstract, Folder, Sym, Unfoldable
from ..linform import prove_count_reduction

SYM = "_bit_length_set._symbolic"
BLS = "_bit_length_set._bit_length_set.BitLengthSet"
MEMO_SLOTS = {"_min": "min", "_max": "max", "_modula": "modulo", "_expansion": "expand"}
MUTATORS = {"add", "update", "discard", "remove", "pop", "clear", "intersection_update", "difference_update", "symmetric_difference_update", "append", "extend", "insert", "sort", "reverse", "setdefault", "popitem"}
COPIERS = {"set", "list", "frozenset", "sorted", "tuple", "dict"}
QUERIES = ("min", "max", "modulo", "expand")



def single_return(ctx: Ctx, fn: FuncInfo) -> Optional[ast.AST]:
    """the returned expression of a function with one return path, private helpers expanded and temporaries substituted"""
    ps = [p for p in paths_of(ctx.inl(fn)) if p.kind == "return"]
    others = [p for p in paths_of(ctx.inl(fn)) if p.kind not in ("return", "raise")]
    if len(ps) != 1 or others:
        return None
    return ps[0].value


def _sample_ints(n: int, lo: int, hi: int, seed: int) -> List[int]:
    # deterministic spread, including the boundaries
    out = [lo, hi, lo + 1, (lo + hi) // 2]
    x = seed
    while len(out) < n:
        x = (x * 1103515245 + 12345) % (1 << 31)
        out.append(lo + x % (hi - lo + 1))
    return out[:n]


def operators(ctx: Ctx) -> List[ClassInfo]:
    return [c for c in ctx.repo.subclasses(ctx.cls(SYM + ".Operator"), strict=True)]


def concrete_operators(ctx: Ctx) -> List[ClassInfo]:
    """the operator classes that can be instantiated: every query resolves (through the MRO) to a non-abstract method"""
    out = []
    for c in operators(ctx):
        ms = [ctx.repo.lookup_method(c, q) for q in QUERIES]
        if all(m is not None and not m.is_abstract for m in ms):
            out.append(c)
    return out


class Tok(Abstract):
    """an opaque answer of a stand-in operand: it can only be handed on, so what comes back identifies what was asked"""

    def __init__(self, name: str):
        self.name = name

    def __repr__(self) -> str:
        return "<%s>" % self.name


def _quiet_hook(e: ast.expr, f: Folder) -> Any:
    """clock reads answer 0 and the run-time self-check / logging have no effect the model observes"""
    if isinstance(e, ast.Call):
        n = (dotted(e.func) or "").split(".")
        if n[-1] in ("monotonic", "perf_counter", "time", "process_time", "monotonic_ns", "perf_counter_ns"):
            return 0
        if n[-1] == "validate_numerically" or n[0] in ("_logger", "logging", "logger"):
            return None
    return NotImplemented


def _ask(ctx: Ctx, obj: Any, query: str, *args: Any) -> Any:
    """evaluate `obj.<query>` / `obj.<query>(args)` from the source of obj's class"""
    cls = obj._cls_
    env = {"x": obj}
    env.update({"a%d" % i: a for i, a in enumerate(args)})
    m = ctx.repo.lookup_method(cls, query)
    if m is None:
        raise AnalysisError("%s has no member %s" % (cls.qualname, query))
    src = "x.%s" % query if m.is_property else "x.%s(%s)" % (query, ", ".join("a%d" % i for i in range(len(args))))
    try:
        return Folder(env, ctx.repo, cls.module, None, _quiet_hook).fold(ast.parse(src, mode="eval").body)
    except Unfoldable as ex:
        raise AnalysisError("%s.%s: cannot be evaluated over the rule's operands: %s" % (cls.qualname, query, ex))


def stand_in_operand(ctx: Ctx, name: str, log: Optional[List[Any]] = None) -> AObj:
    """an operand of the abstract base class whose four queries answer with tokens that name the query and its arguments"""
    o = AObj(ctx.cls(SYM + ".Operator"), ctx)
    answers: Dict[Any, Tok] = {}

    def ans(q: str, *a: Any) -> Tok:
        return answers.setdefault((q, a), Tok("%s.%s%s" % (name, q, "(%s)" % ", ".join(map(repr, a)) if q in ("modulo", "expand") else "")))

    o.__dict__["min"] = ans("min")
    o.__dict__["max"] = ans("max")
    o.__dict__["modulo"] = Recorder("modulo", lambda d: ans("modulo", d), log)
    o.__dict__["expand"] = Recorder("expand", lambda: ans("expand"), log)
    o.__dict__["_answers_"] = ans
    return o


def rule_r1(ctx: Ctx) -> None:
    ctx.rule("C01.R1", "operators are immutable: attributes stored only in __init__ (memo slots excepted); constructors copy caller-owned containers", min_instances=7)
    for c in operators(ctx):
        offenders = []
        for name, fn in c.methods.items():
            if name == "__init__":
                continue
            for n in walk_no_nested(fn.node):
                tg: List[ast.AST] = []
                if isinstance(n, ast.Assign):
                    tg = list(n.targets)
                elif isinstance(n, (ast.AugAssign, ast.AnnAssign)):
                    tg = [n.target]
                for t in tg:
                    base = t
                    while isinstance(base, ast.Subscript):
                        base = base.value
                    d = dotted(base) or ""
                    if d.startswith("self.") and not c.name == "MemoizationOperator":  # (the memo's own slots, whatever they are called: R3 decides its transparency)
                        offenders.append("%s: %s" % (name, norm(n)[:60]))
        init = c.methods.get("__init__")
        shared = []
        if init is not None:
            for n in walk_no_nested(init.node):
                if isinstance(n, ast.Assign) and len(n.targets) == 1 and (dotted(n.targets[0]) or "").startswith("self."):
                    v = n.value
                    # a parameter annotated as an iterable must be copied, not stored
                    if isinstance(v, ast.Name) and v.id in init.params:
                        ann = next((a.annotation for a in init.node.args.args if a.arg == v.id), None)
                        if ann is not None and any(k in norm(ann) for k in ("Iterable", "List", "Set", "Sequence")):
                            shared.append(norm(n))
        ctx.check(not offenders and not shared, c.short, "no state change outside __init__; containers copied", "operands are never changed by building new sets from them", c.module.relpath, {"stores": offenders, "shared_containers": shared})


def _tainted_sources(e: ast.AST) -> bool:
    """does the expression evaluate to (a reference to) a child's answer, an instance container or a cache slot?"""
    if isinstance(e, ast.Call):
        f = e.func
        if isinstance(f, ast.Attribute) and f.attr in ("modulo", "expand"):
            return True
        return False
    if isinstance(e, ast.Attribute):
        d = dotted(e) or ""
        return d.startswith("self._")
    if isinstance(e, ast.Subscript):
        return _tainted_sources(e.value)
    if isinstance(e, ast.IfExp):
        return _tainted_sources(e.body) or _tainted_sources(e.orelse)
    return False


def rule_r2(ctx: Ctx, rid: str = "C01.R2") -> None:
    repo = ctx.repo
    ctx.rule(rid, "no in-place mutation of (and no return by reference of) a child's modulo()/expand() result, an instance container or a cache slot", min_instances=25)
    mods = [repo.module(SYM), repo.module("_bit_length_set._bit_length_set")]
    n_checked = 0
    for fn in repo.all_functions().values():
        if fn.module not in mods or fn.cls is None:
            continue
        aliases: Dict[str, str] = {}
        for st in walk_no_nested(fn.node):
            if isinstance(st, ast.Assign) and len(st.targets) == 1 and isinstance(st.targets[0], ast.Name) and _tainted_sources(st.value):
                aliases[st.targets[0].id] = norm(st.value)
        bad = []
        for st in walk_no_nested(fn.node):
            recv: Optional[ast.AST] = None
            what = ""
            if isinstance(st, ast.Call) and isinstance(st.func, ast.Attribute) and st.func.attr in MUTATORS:
                recv, what = st.func.value, ".%s()" % st.func.attr
            elif isinstance(st, ast.AugAssign) and isinstance(st.op, (ast.BitOr, ast.BitAnd, ast.Sub, ast.BitXor, ast.Add)):
                recv, what = st.target, " %s=" % type(st.op).__name__
            elif isinstance(st, (ast.Assign, ast.Delete)):
                for t in st.targets:
                    if isinstance(t, ast.Subscript):
                        recv, what = t.value, "[...] store"
            if recv is None:
                continue
            is_memo_slot = fn.cls.name == "MemoizationOperator" and (dotted(recv) or "").startswith("self.")
            if is_memo_slot and what == "[...] store":
                continue  # filling the cache itself
            if isinstance(recv, ast.Name) and recv.id in aliases:
                bad.append("%s%s where %s = %s" % (recv.id, what, recv.id, aliases[recv.id]))
            elif _tainted_sources(recv) and fn.name != "__init__":
                bad.append("%s%s" % (norm(recv), what))
        # return by reference
        if fn.cls.name != "MemoizationOperator" and repo.is_subclass(fn.cls, ctx.cls(SYM + ".Operator")) and fn.name in ("modulo", "expand"):
            for r in walk_no_nested(fn.node):
                if isinstance(r, ast.Return) and r.value is not None:
                    v = r.value
                    if _tainted_sources(v) or (isinstance(v, ast.Name) and v.id in aliases):
                        bad.append("returns %s by reference" % (aliases.get(v.id, norm(v)) if isinstance(v, ast.Name) else norm(v)))
        n_checked += 1
        ctx.check(not bad, fn.short, "alias purity", "a set obtained from a child / cache / instance field must be copied before it is modified or handed out", fn.where(), bad, nontrivial=bool(aliases) or bool(bad))
    ctx.analysed["C01.R2.functions"] = n_checked


def rule_r3(ctx: Ctx) -> None:
    ctx.rule("C01.R3", "memo transparency: the memoising operator, constructed over a stand-in operand and asked any sequence of queries, answers each with exactly what the operand answers to the same query with the same arguments", min_instances=4)
    m = ctx.cls(SYM + ".MemoizationOperator")
    log: List[Any] = []
    child = stand_in_operand(ctx, "child", log)
    try:
        memo = construct(ctx, m, child, hook=_quiet_hook)
    except (Unfoldable, Raised) as ex:
        raise AnalysisError("%s cannot be constructed over a stand-in operand: %s" % (m.qualname, ex))
    # divisors that a truncated / hashed / scaled memo key would confuse: d + 2**6, d + 2**32, d + 2**64, d + (2**61 - 1) [the
    # modulus of int.__hash__], multiples, neighbours
    ds = [5, 7, 5, 5 + 64, 5 + 2**32, 5 + 2**61 - 1, 5 + 2**64, 10, 320, 35, 4, 6, 1, 7, 5 + 64]
    sequence: List[Any] = [("min", ()), ("max", ())]
    for i, d in enumerate(ds):
        sequence.append(("modulo", (d,)))
        if i % 5 == 2:
            sequence += [("expand", ()), ("min", ()), ("max", ())]
    bad: Dict[str, List[str]] = {q: [] for q in QUERIES}
    for i, (q, a) in enumerate(sequence):
        got = _ask(ctx, memo, q, *a)
        want = child._answers_(q, *a)
        ctx.count()
        if got is not want:
            bad[q].append("query #%d %s%r answered %r, the operand answers %r" % (i + 1, q, a, got, want))
    for q in QUERIES:
        fn = ctx.repo.lookup_method(m, q)
        ctx.check(not bad[q], (fn.short if fn else m.short + "." + q), "%s of the memo == %s of the operand, on a sequence of %d interleaved queries (divisors that a truncated or hashed key would confuse)" % (q, q, len(sequence)), "the cache must be transparent: same answers as the uncached child", fn.where() if fn else m.module.relpath, bad[q][:3])
    ctx.analysed["C01.R3.operand_queries"] = ["%s%r" % (n, a) for n, a, _ in log]


def rule_r4(ctx: Ctx) -> None:
    ctx.rule("C01.R4", "query-dependency matrix: min<-min, max<-max, modulo<-modulo(+max), expand<-expand; BitLengthSet queries map to the operator queries of the same name", min_instances=28)
    allowed = {"min": {"min"}, "max": {"max"}, "modulo": {"modulo", "max"}, "expand": {"expand", "min", "max", "modulo"}}
    for c in concrete_operators(ctx):
        for q in QUERIES:
            fn = ctx.repo.lookup_method(c, q)
            if fn is None or fn.cls is not c:
                continue  # inherited: analysed on the class that defines it
            used = set()
            for n in ast.walk(fn.node):
                if isinstance(n, ast.Attribute) and n.attr in QUERIES and not (isinstance(n.value, ast.Name) and n.value.id in ("itertools",)):
                    used.add(n.attr)
                if isinstance(n, ast.Name) and n.id == "validate_numerically":
                    used.add("expand")
            extra = sorted(used - allowed[q])
            ctx.check(not extra, fn.short, "reads %s" % sorted(used), "%s must be derived from the children's %s only" % (q, "/".join(sorted(allowed[q]))), fn.where(), extra)
    # the public queries of BitLengthSet, asked of sets built over logging operands that stand for known sets: each answer is the
    # definition's, and the analytic ones are answered without expanding the operand
    b = ctx.cls(BLS)
    bad: Dict[str, List[Any]] = {}
    for vals in ({8, 16}, {3}, {0, 4, 12}, {5, 6, 7, 40}):
        log: List[Any] = []
        opnd = _residue_operand(ctx, vals, log)
        try:
            bs = construct(ctx, b, opnd, hook=_quiet_hook)
        except (Unfoldable, Raised) as ex:
            raise AnalysisError("BitLengthSet cannot be constructed over a stand-in operator: %s" % ex)
        env = {"s": bs}
        expanded = opnd.__dict__["expand"].log
        want: Dict[str, Any] = {"min": ("s.min", min(vals)), "max": ("s.max", max(vals)), "fixed_length": ("s.fixed_length", len(vals) == 1)}
        for d in (1, 2, 4, 8, 3):
            want["__mod__ %d" % d] = ("set(s %% %d)" % d, {x % d for x in vals})
            want["is_aligned_at %d" % d] = ("s.is_aligned_at(%d)" % d, all(x % d == 0 for x in vals))
        want["is_aligned_at_byte"] = ("s.is_aligned_at_byte()", all(x % 8 == 0 for x in vals))
        for name, (src, expect) in want.items():
            del expanded[:]
            got = _eval_bls(ctx, src, env)
            got = set(got) if isinstance(got, (set, frozenset, list)) else got
            ctx.count()
            key = name.split(" ")[0]
            if got != expect or type(got) is not type(expect):
                bad.setdefault(key, []).append({"set": sorted(vals), "query": src, "found": repr(got)[:60], "expected": repr(expect)})
            elif expanded:
                bad.setdefault(key, []).append({"set": sorted(vals), "query": src, "note": "answered by expanding the operand"})
        for name, src, expect in (("__iter__", "sorted(s)", sorted(vals)), ("__len__", "len(s)", len(vals))):
            got = _eval_bls(ctx, src, env)
            ctx.count()
            if got != expect:
                bad.setdefault(name, []).append({"set": sorted(vals), "query": src, "found": repr(got)[:60], "expected": repr(expect)})
    for name in ("min", "max", "fixed_length", "__mod__", "is_aligned_at", "is_aligned_at_byte", "__iter__", "__len__"):
        fn = b.methods.get(name)
        if fn is None:
            raise AnalysisError("anchor BitLengthSet.%s missing" % name)
        ctx.check(not bad.get(name), b.short + "." + name, "answers for 4 operand sets x divisors", "public query %s must give the definition's answer, the analytic ones without expansion" % name, fn.where(), (bad.get(name) or [])[:3])


def _residue_operand(ctx: Ctx, values: Any, log: List[Any]) -> AObj:
    """an operand that stands for the set `values`: min / max / modulo(m) answer for that set; every modulo query is logged"""
    o = AObj(ctx.cls(SYM + ".Operator"), ctx)
    vals = frozenset(values)
    o.__dict__["min"] = min(vals)
    o.__dict__["max"] = max(vals)

    def mod(m: Any) -> Any:
        log.append(m)
        if not isinstance(m, int) or isinstance(m, bool) or m < 1:
            raise Unfoldable("child asked for residues modulo %r" % (m,))
        return {x % m for x in vals}

    o.__dict__["modulo"] = Recorder("modulo", mod, [])
    o.__dict__["expand"] = Recorder("expand", lambda: set(vals), [])
    return o


def rule_r5(ctx: Ctx) -> None:
    """the residue homomorphism, observed: every operator is constructed over operands that log the divisors they are asked for
    and is asked for its residues on a grid of divisors (the helpers it uses, the loops it runs and the names of its fields are
    immaterial)"""
    ctx.rule("C01.R5", "residue homomorphism, on operators constructed over logging operands: each operand is asked for residues modulo a multiple of the divisor only, and every residue returned is reduced modulo the divisor", min_instances=5)
    sets = [{0}, {1, 5}, {3, 4, 9}, {8, 16, 40}]
    divisors = [1, 2, 3, 5, 8, 12]
    for c in concrete_operators(ctx):
        if c.name == "MemoizationOperator" or c.name not in OPERATOR_ROLES:
            continue
        roles = OPERATOR_ROLES[c.name]
        if "values" in roles:
            continue  # a leaf has no operand to ask
        bad_q, bad_r = [], []
        n = 0
        params = [2, 3, 7] if "k" in roles else ([1, 4, 6, 8] if "alignment" in roles else [None])
        for vals in sets:
            for par in params:
                for d in divisors:
                    log: List[Any] = []
                    kids = [_residue_operand(ctx, vals, log), _residue_operand(ctx, {2, 7}, log)]
                    actual = {"child": kids[0], "children": kids, "k": par, "alignment": par}
                    me = _operator_instance(ctx, c, actual)
                    got = _ask(ctx, me, "modulo", d)
                    n += 1
                    if any(not isinstance(m, int) or m % d != 0 for m in log) or not log:
                        bad_q.append({"divisor": d, "parameter": par, "operands asked modulo": log[:6]})
                    try:
                        unreduced = [r for r in got if not (isinstance(r, int) and 0 <= r < d)]
                    except TypeError:
                        unreduced = [repr(got)[:40]]
                    if unreduced:
                        bad_r.append({"divisor": d, "parameter": par, "operand set": sorted(vals), "not reduced": unreduced[:4]})
        ctx.count(n)
        fn = ctx.repo.lookup_method(c, "modulo")
        ctx.check(not bad_q and not bad_r, (fn.short if fn else c.short + ".modulo"), "operands asked modulo multiples of the divisor; residues reduced (%d evaluations)" % n, "residues mod d are determined by residues mod a multiple of d and by nothing coarser; results are residues mod d", fn.where() if fn else c.module.relpath, {"bad_child_queries": bad_q[:3], "unreduced_returns": bad_r[:3]})


def _count_reduction_grid(ctx: Ctx, method: str) -> Tuple[List[Dict[str, Any]], int]:
    import itertools as _it

    leaves = [frozenset({0}), frozenset({1}), frozenset({2, 3}), frozenset({0, 5}), frozenset({1, 2, 4}), frozenset({8, 16})]
    bad: List[Dict[str, Any]] = []
    n = 0
    for leaf in leaves:
        env = {"s": _eval_bls(ctx, "BitLengthSet(%r)" % set(leaf), {})}
        for d in (1, 2, 3, 4, 5, 6, 8):
            for k in range(0, 3 * d + 3):
                if method == "repeat":
                    want = frozenset(sum(c) % d for c in _it.combinations_with_replacement(sorted(leaf), k))
                else:
                    want = frozenset(sum(c) % d for j in range(k + 1) for c in _it.combinations_with_replacement(sorted(leaf), j))
                r = _eval_bls(ctx, "set(s.%s(%d) %% %d)" % (method, k, d), env)
                got = frozenset(r) if isinstance(r, (set, frozenset, list)) else r
                n += 1
                if got != want:
                    bad.append({"elements": sorted(leaf), "count": k, "divisor": d, "found": sorted(got) if isinstance(got, frozenset) else got, "expected": sorted(want)})
    return bad, n


def rule_r6(ctx: Ctx) -> None:
    ctx.rule("C01.R6", "repetition-count reduction is exact for all k >= 0, d >= 1: K == k, or (K ≡ k mod d and d-1 <= K <= k)", min_instances=2)
    for cname in ("RepetitionOperator", "RangeRepetitionOperator"):
        c = ctx.cls(SYM + "." + cname)
        fn = c.methods.get("modulo")
        if fn is None:
            raise AnalysisError("anchor %s.modulo missing" % cname)
        res = prove_count_reduction(ctx, c, fn)
        if res.get("collection") is None and "error" in res:
            # the residues are not obtained by one enumeration of multicombinations written in the method: the proof for all
            # (k, d) has nothing to instantiate on.  What is left within reach is the bounded statement: the residues the
            # source gives, evaluated through the public API, are those of the definition for every count up to 3d + 2 over
            # small element sets (the reduction K = f(k, d) is periodic in k with period d beyond its threshold)
            bad_g, n_g = _count_reduction_grid(ctx, "repeat" if cname == "RepetitionOperator" else "repeat_range")
            ctx.count(n_g)
            ctx.check(not bad_g, fn.short, "the count-reduction proof cannot be instantiated (%s); bounded grid instead: %d (elements, count, divisor) triples, counts up to 3d + 2" % (res["error"][:120], n_g), "the residues of a k-fold repetition are those of the k-fold sums of the elements, for every k and d", fn.where(), bad_g[:4])
            continue
        ctx.count(len(res.get("alternatives", [])))
        ctx.check(bool(res.get("exact")) and res.get("collection_is_residue_set", False), fn.short, "count = %s over %s" % (res.get("count_expr"), res.get("collection")), "the reduced repetition count must give the same residues as the true count for every divisor and residue set", fn.where(), res)
        # the summed elements are reduced modulo the divisor (R5 covers it); the expand() twin uses the true count
        ex = c.methods.get("expand")
        if ex is not None:
            from ..linform import _local_defs, count_attr_of, count_domain, enumerations

            kattr = count_attr_of(c)
            ens = enumerations(ctx, ex)
            good = len(ens) == 1
            if good:
                dom = count_domain(ens[0], _local_defs(ex, ctx.inl(ex)))
                if cname == "RepetitionOperator":
                    good = dom is not None and dom[0] == "one" and norm(dom[1]) == kattr
                else:
                    good = dom is not None and dom[0] == "range" and norm(dom[1]) in ("%s + 1" % kattr, "1 + %s" % kattr)
            ctx.check(good, ex.short, "numerical expansion uses the true count", "expansion is the definition (k-fold multiset sums) against which the analytic answers are validated", ex.where(), nontrivial=False)
    ctx.sample({"rule": "C01.R6", "proved": "min(k, d + k % d): K==k under k<=d+r; K=d+r: K≡k (mod d), K>=d-1, K<=k under d+r<=k"})


def _is_operator(ctx: Ctx, v: Any) -> bool:
    return isinstance(v, AObj) and ctx.repo.is_subclass(v._cls_, ctx.cls(SYM + ".Operator"))


def _fields(o: AObj) -> Dict[str, Any]:
    return {k: v for k, v in o.__dict__.items() if k not in ("_cls_", "_ctx_") and not k.endswith("_")}


def _unwrap(ctx: Ctx, op: Any) -> Any:
    """the operator under any number of memoising wrappers"""
    memo = ctx.cls(SYM + ".MemoizationOperator")
    for _ in range(4):
        if not (isinstance(op, AObj) and ctx.repo.is_subclass(op._cls_, memo)):
            break
        inner = [v for v in _fields(op).values() if _is_operator(ctx, v)]
        if len(inner) != 1:
            break
        op = inner[0]
    return op


def _op_of(ctx: Ctx, bls: Any) -> Any:
    if not (isinstance(bls, AObj) and bls._cls_.name == "BitLengthSet"):
        return None
    ops = [v for v in _fields(bls).values() if _is_operator(ctx, v)]
    return _unwrap(ctx, ops[0]) if len(ops) == 1 else None


def _describe(ctx: Ctx, op: Any) -> Any:
    """(class name, operand operators in order, scalar parameters, constant values) of a constructed operator"""
    op = _unwrap(ctx, op)
    if not _is_operator(ctx, op):
        return ("?", repr(op)[:40])
    if "min" in op.__dict__ and isinstance(op.__dict__["min"], Tok):
        return op  # a stand-in operand: identified by itself
    kids: List[Any] = []
    scalars: List[Any] = []
    consts: List[Any] = []
    for v in _fields(op).values():
        if _is_operator(ctx, v):
            kids.append(_describe(ctx, v))
        elif isinstance(v, (list, tuple)) and v and all(_is_operator(ctx, x) for x in v):
            kids.extend(_describe(ctx, x) for x in v)
        elif isinstance(v, (set, frozenset)):
            consts.append(frozenset(v))
        elif isinstance(v, int) and not isinstance(v, bool):
            scalars.append(v)
    return (op._cls_.name, kids, scalars, consts)


def _eval_bls(ctx: Ctx, src: str, env: Dict[str, Any]) -> Any:
    b = ctx.cls(BLS)
    try:
        return Folder(env, ctx.repo, b.module, None, _quiet_hook).fold(ast.parse(src, mode="eval").body)
    except Unfoldable as ex:
        raise AnalysisError("%s cannot be evaluated over the rule's operands: %s" % (src, ex))
    except Raised as ex:
        return ("raised", ex.cls_name)


def rule_r7(ctx: Ctx) -> None:
    ctx.rule("C01.R7", "composition plumbing: every public composition, evaluated over stand-in operands, builds the operator of the matching kind over the operands' operators, in order; a set built from a set / operator / int / iterable represents exactly that", min_instances=10)
    b = ctx.cls(BLS)
    X, Y = stand_in_operand(ctx, "X"), stand_in_operand(ctx, "Y")
    try:
        bx = construct(ctx, b, X, hook=_quiet_hook)
        by = construct(ctx, b, Y, hook=_quiet_hook)
    except (Unfoldable, Raised) as ex:
        raise AnalysisError("BitLengthSet cannot be constructed over a stand-in operator: %s" % ex)
    env = {"bx": bx, "by": by, "X": X, "Y": Y}
    nul = lambda *vals: ("NullaryOperator", [], [], [frozenset(vals)])  # noqa: E731
    cases = [
        ("pad_to_alignment", "bx.pad_to_alignment(8)", ("PaddingOperator", [X], [8], [])),
        ("repeat", "bx.repeat(5)", ("RepetitionOperator", [X], [5], [])),
        ("repeat_range", "bx.repeat_range(5)", ("RangeRepetitionOperator", [X], [5], [])),
        ("concatenate", "BitLengthSet.concatenate([bx, 7, by, {1, 2}])", ("ConcatenationOperator", [X, nul(7), Y, nul(1, 2)], [], [])),
        ("unite", "BitLengthSet.unite([by, bx, {1, 2}, 7])", ("UnionOperator", [Y, X, nul(1, 2), nul(7)], [], [])),
        # the operands arrive as any iterable: a list, a tuple, a one-shot iterator, a generator; of sets, of plain integers
        ("concatenate", "BitLengthSet.concatenate(iter([bx, 7, by]))", ("ConcatenationOperator", [X, nul(7), Y], [], [])),
        ("unite", "BitLengthSet.unite(iter([by, bx, 7]))", ("UnionOperator", [Y, X, nul(7)], [], [])),
        # (over concrete operands only the *set* is compared - folding constants into one leaf is as good as an operator tree)
        ("concatenate", "BitLengthSet.concatenate(x for x in [7, 9, 11])", frozenset({27})),
        ("concatenate", "BitLengthSet.concatenate((7, 9))", frozenset({16})),
        ("concatenate", "BitLengthSet.concatenate(iter([7, {1, 2}, 9]))", frozenset({17, 18})),
        ("concatenate", "BitLengthSet.concatenate([5])", frozenset({5})),
        ("unite", "BitLengthSet.unite(x for x in [7, 9, 11])", frozenset({7, 9, 11})),
        ("unite", "BitLengthSet.unite((7, {1, 2}))", frozenset({1, 2, 7})),
        ("unite", "BitLengthSet.unite(iter([7, 7, 9]))", frozenset({7, 9})),
        ("__add__", "bx + by", ("ConcatenationOperator", [X, Y], [], [])),
        ("__add__", "bx + 7", ("ConcatenationOperator", [X, nul(7)], [], [])),
        ("__radd__", "7 + bx", ("ConcatenationOperator", [nul(7), X], [], [])),
        ("__or__", "bx | by", ("UnionOperator", [X, Y], [], [])),
        ("__or__", "bx | {1, 2}", ("UnionOperator", [X, nul(1, 2)], [], [])),
        ("__ror__", "{1, 2} | bx", ("UnionOperator", [nul(1, 2), X], [], [])),
        ("__init__", "BitLengthSet(bx)", X),
        ("__init__", "BitLengthSet(X)", X),
        ("__init__", "BitLengthSet(7)", nul(7)),
        ("__init__", "BitLengthSet([3, 4, 4])", nul(3, 4)),
        ("__init__", "BitLengthSet({3, 4})", nul(3, 4)),
    ]
    per: Dict[str, List[Any]] = {}
    for name, src, want in cases:
        r = _eval_bls(ctx, src, env)
        ctx.count()
        if isinstance(want, frozenset):
            if isinstance(r, tuple):
                per.setdefault(name, []).append((src, False, r, sorted(want)))
                continue
            e2 = dict(env)
            e2["r"] = r
            meaning = (_eval_bls(ctx, "r.min", e2), _eval_bls(ctx, "r.max", e2), frozenset(_eval_bls(ctx, "set(r)", e2)), frozenset(_eval_bls(ctx, "set(r % 5)", e2)))
            expect = (min(want), max(want), want, frozenset(x % 5 for x in want))
            per.setdefault(name, []).append((src, meaning == expect, [sorted(x) if isinstance(x, frozenset) else x for x in meaning], [sorted(x) if isinstance(x, frozenset) else x for x in expect]))
            continue
        got = _describe(ctx, _op_of(ctx, r)) if not isinstance(r, tuple) else r
        per.setdefault(name, []).append((src, got == want if not isinstance(want, AObj) else got is want, got, want))
    for name, rows in per.items():
        fn = b.methods.get(name)
        bad = [{"expression": src, "built": repr(got)[:200], "expected": repr(want)[:200]} for src, ok, got, want in rows if not ok]
        ctx.check(not bad, b.short + "." + name, "; ".join(src for src, *_ in rows), "%s must build the matching operator over the operands' operators, in the given order" % name, fn.where() if fn else b.module.relpath, bad[:3])
    # the operands of a composition are not changed by it: the stand-ins were only handed on (their fields are as before)
    # constructors that take a container copy it (the caller's list / set is not kept by reference)
    for cname, make in (("ConcatenationOperator", lambda: [X, Y]), ("UnionOperator", lambda: [X, Y]), ("NullaryOperator", lambda: {1, 2})):
        c = ctx.cls(SYM + "." + cname)
        arg = make()
        try:
            o = construct(ctx, c, arg, hook=_quiet_hook)
        except (Unfoldable, Raised) as ex:
            raise AnalysisError("%s cannot be constructed: %s" % (c.qualname, ex))
        kept = [k for k, v in _fields(o).items() if v is arg]
        same = [k for k, v in _fields(o).items() if isinstance(v, (list, tuple, set, frozenset)) and (list(v) == list(arg) if isinstance(arg, list) else set(v) == set(arg))]
        i2 = ctx.repo.lookup_method(c, "__init__")
        ctx.check(not kept and bool(same), c.short + ".__init__", "operands stored as a copy, in order", "operands are copied, in order", i2.where() if i2 else c.module.relpath, {"kept_by_reference": kept}, nontrivial=False)


# constructor parameter roles of the operators, by position after self
OPERATOR_ROLES = {
    "NullaryOperator": ("values",),
    "PaddingOperator": ("child", "alignment"),
    "ConcatenationOperator": ("children",),
    "RepetitionOperator": ("child", "k"),
    "RangeRepetitionOperator": ("child", "k"),
    "UnionOperator": ("children",),
}


def _operator_instance(ctx: Ctx, c: ClassInfo, actual: Dict[str, Any]) -> AObj:
    """the instance the constructor chain (super() flattened, helpers expanded) builds for the given arguments"""
    def operand(v: Any) -> Any:
        if isinstance(v, _MinMax):
            o = AObj(ctx.cls(SYM + ".Operator"), ctx)
            o.__dict__["min"], o.__dict__["max"] = v.min, v.max
            return o
        if isinstance(v, list):
            return [operand(x) for x in v]
        return v

    try:
        return construct(ctx, c, *[operand(actual[r]) for r in OPERATOR_ROLES[c.name]], hook=_quiet_hook)
    except Unfoldable as ex:
        raise AnalysisError("%s cannot be constructed over abstract operands: %s" % (c.qualname, ex))
    except Raised as ex:
        raise AnalysisError("%s rejects the operands %r: %s" % (c.qualname, actual, ex.cls_name))


class _MinMax:
    """(min, max) of an operand of R8; turned into an instance of the abstract operator class when the operator is built"""

    def __init__(self, lo: int, hi: int):
        self.min, self.max = lo, hi

    def __repr__(self) -> str:
        return "<operand min=%d max=%d>" % (self.min, self.max)


def _analytic_samples(cname: str) -> List[Dict[str, Any]]:
    out = []
    a = _sample_ints(24, 0, 97, 7)
    b = _sample_ints(24, 0, 64, 11)
    for i in range(24):
        lo, hi = sorted((a[i], a[(i * 7 + 3) % 24]))
        child = _MinMax(lo, hi)
        lo2, hi2 = sorted((b[i], b[(i * 5 + 1) % 24]))
        lo3, hi3 = sorted((a[(i + 9) % 24], b[(i + 4) % 24]))
        children = [child, _MinMax(lo2, hi2), _MinMax(lo3, hi3)][: 1 + i % 3]
        out.append({"child": child, "children": children, "k": b[(i * 3) % 24] % 9, "alignment": 1 + a[(i * 11) % 24] % 17, "values": frozenset(a[j % 24] for j in range(i, i + 1 + i % 4))})
    # the quantifier of the property reaches far beyond what fits a machine float: lengths around and above 2**53, counts up to
    # 2**63 (exact integer arithmetic must be used throughout)
    big = [2**53 + 1, 2**53 + 7, 2**56 + 2**3 + 1, 2**59 + 65, 2**63 - 1, 2**64 + 3, 3 * 2**70 + 5]
    for i, v in enumerate(big):
        child = _MinMax(v - (i % 3), v + i)
        other = _MinMax(big[(i + 2) % len(big)], big[(i + 2) % len(big)] + 9)
        out.append({"child": child, "children": [child, other][: 1 + i % 2], "k": [1, 3, 2**40 + 1, 2**63][i % 4], "alignment": [8, 3, 64, 7, 1, 8, 5][i], "values": frozenset({v, v + 1})})
    return out


def _spec_minmax(cname: str, q: str, x: Dict[str, Any]) -> int:
    pick = (lambda o: o.min) if q == "min" else (lambda o: o.max)
    agg = min if q == "min" else max
    if cname == "NullaryOperator":
        return agg(x["values"])
    if cname == "PaddingOperator":
        v, r = pick(x["child"]), x["alignment"]
        return -(-v // r) * r
    if cname == "ConcatenationOperator":
        return sum(pick(o) for o in x["children"])
    if cname == "RepetitionOperator":
        return pick(x["child"]) * x["k"]
    if cname == "RangeRepetitionOperator":
        return 0 if q == "min" else x["child"].max * x["k"]
    if cname == "UnionOperator":
        return agg(pick(o) for o in x["children"])
    raise AnalysisError("no specification for %s" % cname)


def rule_r8(ctx: Ctx) -> None:
    repo = ctx.repo
    ctx.rule("C01.R8", "analytic min / max of every operator and the padding function equal their definitions (extension over a grid of abstract operands; private helpers expanded)", min_instances=12)
    for cname in OPERATOR_ROLES:
        c = ctx.cls(SYM + "." + cname)
        for q in ("min", "max"):
            fn = ctx.repo.lookup_method(c, q)
            if fn is None or fn.is_abstract:
                raise AnalysisError("anchor %s.%s missing" % (cname, q))
            bad = []
            for x in _analytic_samples(cname):
                me = _operator_instance(ctx, c, x)
                got = _ask(ctx, me, q)
                want = _spec_minmax(cname, q, x)
                ctx.count()
                if got != want:
                    bad.append({"operands": repr(x)[:160], "found": got, "expected": want})
            ctx.check(not bad, c.short + "." + q, "%s evaluated on %d constructed instances" % (q, len(_analytic_samples(cname))), "%s of a %s must equal its definition" % (q, cname), fn.where(), bad[:3])
    pc = ctx.cls(SYM + ".PaddingOperator")
    pad = pc.methods.get("_pad")
    if pad is None:
        # the rounding may have been folded into min / max / modulo: it is then covered by the grid above
        ctx.check(True, pc.short, "no separate rounding helper", "scan completed", pc.module.relpath, nontrivial=False)
    else:
        v = single_return(ctx, pad)
        if v is None:
            raise AnalysisError("_pad: expected a single returned expression")
        bad = []
        for r in range(1, 18):
            me = _operator_instance(ctx, pc, {"child": Sym(min=0, max=0), "alignment": r})
            for x in list(range(0, 70)) + [2**53 - 1, 2**53 + 1, 2**53 + 3, 2**56 + 9, 2**59 + 65, 2**63 - 1, 2**64 + 1]:
                try:
                    got = Folder({"self": me, pad.params[1]: x}, repo, pad.module, pad.cls).fold(v)
                except Unfoldable as ex:
                    raise AnalysisError("_pad: cannot fold %s: %s" % (norm(v), ex))
                want = -(-x // r) * r
                ctx.count()
                if got != want:
                    bad.append({"x": x, "alignment": r, "found": got, "expected": want})
        ctx.check(not bad, pad.short, norm(v), "_pad rounds up to the next multiple of the alignment (0..69 and values around 2**53 .. 2**64, for every alignment 1..17)", pad.where(), bad[:4])
    lcm = ctx.func(SYM + ".least_common_multiple")  # (wherever it is defined, as seen from the operators' module)
    lv = single_return(ctx, lcm)
    bad = []
    if lv is None:
        raise AnalysisError("least_common_multiple: not a single returned expression")
    import math as _math

    for a in range(1, 40):
        for b_ in range(1, 40):
            try:
                got = Folder({lcm.params[0]: a, lcm.params[1]: b_}, repo, lcm.module, None).fold(lv)
            except Unfoldable as ex:
                raise AnalysisError("least_common_multiple: cannot fold %s: %s" % (norm(lv), ex))
            ctx.count()
            if got != _math.lcm(a, b_):
                bad.append({"a": a, "b": b_, "found": got})
    ctx.check(not bad, SYM + ".least_common_multiple", norm(lv), "least common multiple on the 39 x 39 grid", lcm.where(), bad[:3])
    # padding constructor guard: a non-positive alignment is rejected before it is stored
    pi = pc.methods["__init__"]
    al = pi.params[2]
    rejects = [p for p in paths_of(ctx.inl(pi)) if p.kind == "raise"]
    region_ok = False
    for pth in rejects:
        conds = [(c_, pol) for c_, pol in pth.conds if not isinstance(c_, tuple)]
        if len(conds) == 1:
            c_, pol = conds[0]
            try:
                vals = {a: bool(Folder({al: a}, repo, pi.module, pc).fold(c_)) == pol for a in range(-3, 5)}
            except Unfoldable:
                continue
            if all(vals[a] == (a < 1) for a in vals):
                region_ok = True
    ctx.check(region_ok, pi.short, "alignment < 1 rejected", "a padding needs a positive alignment", pi.where(), nontrivial=False)


def rule_r10(ctx: Ctx) -> None:
    """two-level compositions through the public API over small concrete leaf sets: what a composition *of compositions* answers
    (constructors may look at what they are given - fold, flatten, unwrap - and must still mean the same set)"""
    import itertools as _it

    ctx.rule("C01.R10", "nested compositions (every ordered pair of pad / repeat / repeat_range / concatenate / unite over small leaf sets, built through BitLengthSet's own methods): min, max, the residues for a grid of divisors and the expansion are those of the mathematically defined set [a bounded grid, evaluated from the source; not a proof for all trees]", min_instances=1)
    b = ctx.cls(BLS)

    def define(op: Tuple[str, Any], xs: frozenset) -> frozenset:
        kind, par = op
        if kind == "pad":
            return frozenset(-(-x // par) * par for x in xs)
        if kind == "repeat":
            return frozenset(sum(c) for c in _it.combinations_with_replacement(sorted(xs), par))
        if kind == "range":
            return frozenset(sum(c) for j in range(par + 1) for c in _it.combinations_with_replacement(sorted(xs), j))
        if kind == "concat":
            return frozenset(x + y for x in xs for y in par)
        return frozenset(xs | par)

    def spell(op: Tuple[str, Any], inner: str) -> str:
        kind, par = op
        return {"pad": "%s.pad_to_alignment(%r)", "repeat": "%s.repeat(%r)", "range": "%s.repeat_range(%r)", "concat": "(%s + BitLengthSet(%r))", "unite": "(%s | BitLengthSet(%r))"}[kind] % (inner, set(par) if isinstance(par, frozenset) else par)

    ops = [("pad", 4), ("pad", 6), ("pad", 8), ("repeat", 2), ("repeat", 3), ("range", 2), ("concat", frozenset({2, 9})), ("unite", frozenset({4}))]
    leaves = [frozenset({1, 5, 7, 13, 20}), frozenset({0, 8})]
    divisors = (1, 2, 3, 4, 6, 8, 12)
    bad = []
    n = 0
    for leaf in leaves:
        for o1 in ops:
            for o2 in ops:
                src = spell(o2, spell(o1, "BitLengthSet(%r)" % set(leaf)))
                want = define(o2, define(o1, leaf))
                obj = _eval_bls(ctx, src, {})
                if isinstance(obj, tuple):
                    bad.append({"composition": src, "found": obj})
                    continue
                env = {"s": obj}
                got = {"min": _eval_bls(ctx, "s.min", env), "max": _eval_bls(ctx, "s.max", env)}
                exp = {"min": min(want), "max": max(want)}
                for d in divisors:
                    r = _eval_bls(ctx, "set(s %% %d)" % d, env)
                    got["%% %d" % d] = frozenset(r) if isinstance(r, (set, frozenset, list)) else r
                    exp["%% %d" % d] = frozenset(x % d for x in want)
                if len(want) <= 400:
                    r = _eval_bls(ctx, "set(s)", env)
                    got["expansion"] = frozenset(r) if isinstance(r, (set, frozenset, list)) else r
                    exp["expansion"] = want
                n += len(exp)
                wrong = sorted(k for k in exp if got.get(k) != exp[k])
                if wrong:
                    k0 = wrong[0]
                    bad.append({"composition": src, "query": k0, "found": sorted(got[k0]) if isinstance(got[k0], frozenset) else got[k0], "expected": sorted(exp[k0]) if isinstance(exp[k0], frozenset) else exp[k0]})
    ctx.count(n)
    ctx.check(not bad, b.short, "%d two-level compositions x (min, max, %d divisors, expansion)" % (len(leaves) * len(ops) ** 2, len(divisors)), "the analytic answers of a nested composition are those of the mathematically defined set", b.module.relpath, bad[:4])


def rule_r11(ctx: Ctx) -> None:
    """the last clause of the property, decided extensionally on a grid: sets are bound to names, asked everything, used as
    operands of further compositions (which are asked everything too - queries may fill or touch memos), and asked again.
    The evaluator keeps the repository's own lists / sets / dicts as Python objects, so a constructor that adopts an operand's
    container, or a query that merges into an operand's answer, shows up as a changed answer of the operand."""
    import itertools as _it

    ctx.rule("C01.R11", "operands are never changed by building new sets from them: every set bound to a name answers min, max, the residues and the expansion identically before and after it is used (once or several times) as an operand of pad / repeat / repeat_range / concatenate / unite and the results are queried [bounded grid, evaluated from the source]", min_instances=1)
    b = ctx.cls(BLS)
    divisors = (1, 3, 4, 8)

    def ask(env: Dict[str, Any], name: str, expand: bool = True) -> Dict[str, Any]:
        out: Dict[str, Any] = {"min": _eval_bls(ctx, "%s.min" % name, env), "max": _eval_bls(ctx, "%s.max" % name, env)}
        for d in divisors:
            r = _eval_bls(ctx, "set(%s %% %d)" % (name, d), env)
            out["%% %d" % d] = frozenset(r) if isinstance(r, (set, frozenset, list)) else r
        if expand:
            r = _eval_bls(ctx, "set(%s)" % name, env)
            out["expansion"] = frozenset(r) if isinstance(r, (set, frozenset, list)) else r
        return out

    def meaning(xs: frozenset) -> Dict[str, Any]:
        out: Dict[str, Any] = {"min": min(xs), "max": max(xs), "expansion": xs}
        for d in divisors:
            out["%% %d" % d] = frozenset(x % d for x in xs)
        return out

    firsts = [
        ("a + p", lambda a, p: frozenset(x + y for x in a for y in p)),
        ("a | p", lambda a, p: a | p),
        ("a.repeat(2)", lambda a, p: frozenset(x + y for x in a for y in a)),
        ("a.repeat_range(2)", lambda a, p: frozenset({0}) | a | frozenset(x + y for x in a for y in a)),
        ("a.pad_to_alignment(4)", lambda a, p: frozenset(-(-x // 4) * 4 for x in a)),
        ("BitLengthSet.concatenate([a, p, a])", lambda a, p: frozenset(x + y + z for x in a for y in p for z in a)),
        ("BitLengthSet.unite([a, p])", lambda a, p: a | p),
    ]
    seconds = [
        ("x + q", lambda x, q: frozenset(u + v for u in x for v in q)),
        ("q + x", lambda x, q: frozenset(u + v for u in x for v in q)),
        ("x | q", lambda x, q: x | q),
        ("q | x", lambda x, q: x | q),
        ("x.repeat(2)", lambda x, q: frozenset(u + v for u in x for v in x)),
        ("x.repeat_range(1)", lambda x, q: frozenset({0}) | x),
        ("x.pad_to_alignment(8)", lambda x, q: frozenset(-(-u // 8) * 8 for u in x)),
        ("BitLengthSet.concatenate([x, x, q])", lambda x, q: frozenset(u + v + w for u in x for v in x for w in q)),
        ("BitLengthSet.unite([q, x, p])", lambda x, q: x | q | P),
    ]
    A, P, Q = frozenset({1, 5, 12}), frozenset({0, 8, 9}), frozenset({2, 3, 40, 41})
    bad = []
    n = 0
    for warm in (True, False):  # with every memo filled before the set is used as an operand, and cold
        for f_src, f_def in firsts:
            env: Dict[str, Any] = {}
            for nm, xs in (("a", A), ("p", P), ("q", Q)):
                env[nm] = _eval_bls(ctx, "BitLengthSet(%r)" % set(xs), {})
            env["x"] = _eval_bls(ctx, f_src, env)
            if isinstance(env["x"], tuple):
                raise AnalysisError("%s cannot be built over the rule's sets: %r" % (f_src, env["x"]))
            mean = {"a": meaning(A), "p": meaning(P), "q": meaning(Q), "x": meaning(f_def(A, P))}
            if warm:
                for nm in ("a", "p", "q", "x"):
                    ask(env, nm)
            for g_src, g_def in seconds:
                env["y"] = _eval_bls(ctx, g_src, env)
                if isinstance(env["y"], tuple):
                    raise AnalysisError("%s cannot be built over the rule's sets: %r" % (g_src, env["y"]))
                want_y = meaning(g_def(f_def(A, P), Q))
                got_y = ask(env, "y")
                n += len(got_y)
                wrong = sorted(k for k in want_y if got_y.get(k) != want_y[k])
                if wrong:
                    bad.append({"x": f_src, "then": g_src, "memos filled before": warm, "changed": "y itself answers `%s` wrongly" % wrong[0], "found": _show(got_y[wrong[0]]), "expected": _show(want_y[wrong[0]])})
                for nm in ("x", "a", "p", "q"):
                    got = ask(env, nm)
                    n += len(got)
                    wrong = sorted(k for k in mean[nm] if got.get(k) != mean[nm][k])
                    if wrong:
                        bad.append({"x": f_src, "then": "y = " + g_src, "memos filled before": warm, "changed": "operand `%s` now answers `%s` differently" % (nm, wrong[0]), "found": _show(got[wrong[0]]), "expected": _show(mean[nm][wrong[0]])})
                        break
                if len(bad) > 8:
                    break
            if len(bad) > 8:
                break
    ctx.count(n)
    ctx.check(not bad, b.short, "%d (first composition, second composition) pairs x {memos filled, cold}: the operands' answers before and after" % (len(firsts) * len(seconds)), "operands are never changed by building new sets from them (nor by querying the results)", b.module.relpath, bad[:4])


def _show(v: Any) -> Any:
    return sorted(v) if isinstance(v, (set, frozenset)) else v


def rule_r9(ctx: Ctx) -> None:
    from . import approx_keys

    ctx.rule("C01.R9", "the algebra holds no container or memo that identifies a bit length set by its (approximate) equality: compositions and queries are computed for the operands given, not for an equal-comparing set seen earlier", min_instances=1)
    approx_keys.rule(ctx, "C01.R9", ["_bit_length_set"], "BitLengthSet.__eq__ / __hash__ compare min, max and a few residues only: a result looked up by them belongs to a different set", "pydsdl/_bit_length_set/_bit_length_set.py")


def run(ctx: Ctx) -> None:
    ctx.attempt(rule_r1, ctx)
    ctx.attempt(rule_r2, ctx)
    ctx.attempt(rule_r3, ctx)
    ctx.attempt(rule_r4, ctx)
    ctx.attempt(rule_r5, ctx)
    ctx.attempt(rule_r6, ctx)
    ctx.attempt(rule_r7, ctx)
    ctx.attempt(rule_r8, ctx)
    ctx.attempt(rule_r9, ctx)
    ctx.attempt(rule_r10, ctx)
    ctx.attempt(rule_r11, ctx)
    ctx.assume("itertools.product / combinations_with_replacement, math.lcm and set arithmetic are exact (trusted stdlib)")
    ctx.undecided("that the per-operator residue formulas equal the mathematical definition for all operator trees and divisors (number theory over unbounded integers); validate_numerically is a run-time self-check")
