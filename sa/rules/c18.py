"""
C18 -- Model objects are immutable values with a sound equality/hash/pickle contract.

R1  hash ⊆ eq: the state components read by __hash__ are a subset of those __eq__ compares; a class that overrides one
    overrides the other.
R2  eq shape: NotImplemented for foreign types; BitLengthSet.__eq__ is a conjunction of equalities of set-determined
    queries only; SerializableType.__eq__ tests the class relation in both directions.
R3  immutability: no instance-attribute store / in-place mutation outside __init__ in model classes (memo slots excepted).
R4  defensive copies: a public accessor never returns a mutable container attribute by reference.
R6  no mutation through aliases of cached / shared sets in the bit-length-set solver (shared with C01.R2).
R5  pickle-safety: instance attributes are never lambdas / local functions / generators / files / modules; no custom
    __reduce__ / __getstate__ / incomplete __slots__.
"""
from __future__ import annotations

import ast
from typing import Any, Dict, List, Optional, Set, Tuple

from ..core import AnalysisError, ClassInfo, Ctx, External, FuncInfo, body_without_docstring, calls_in, dotted, norm, walk_no_nested
from ..decide import paths_of
from ..regions import inline_properties, trivial_property_expr

MUTATORS = {"append", "extend", "insert", "remove", "pop", "clear", "sort", "reverse", "add", "update", "discard", "setdefault", "popitem", "difference_update", "intersection_update", "symmetric_difference_update"}
MEMO_SLOTS = {("MemoizationOperator", "_min"), ("MemoizationOperator", "_max"), ("MemoizationOperator", "_modula"), ("MemoizationOperator", "_expansion")}
NON_VALUE_CACHES = {
    ("DSDLDefinition", "_text"): "lazy text cache (not part of the value: equality is by name and version)",
    ("DSDLDefinition", "_cached_type"): "result cache of read()",
}


def model_classes(ctx: Ctx) -> List[ClassInfo]:
    repo = ctx.repo
    out: List[ClassInfo] = []
    any_c = ctx.cls("_expression._any.Any")
    out.extend(repo.subclasses(any_c))
    out.append(ctx.cls("_bit_length_set._bit_length_set.BitLengthSet"))
    out.extend(repo.subclasses(ctx.cls("_bit_length_set._symbolic.Operator")))
    seen = set()
    res = []
    for c in out:
        if c.qualname not in seen:
            seen.add(c.qualname)
            res.append(c)
    return res


def _components(ctx: Ctx, c: ClassInfo, fn: FuncInfo, who: str = "self", _depth: int = 0) -> Set[str]:
    """State components of `who` read in fn: instance fields (after accessor inlining), 'str', and query names."""
    repo = ctx.repo
    out: Set[str] = set()
    node = inline_properties(repo, c, fn.node) if who == "self" and fn.cls is not None else fn.node
    for n in ast.walk(node):
        if isinstance(n, ast.Attribute) and isinstance(n.value, ast.Name) and n.value.id == who:
            name = n.attr
            if who != "self":
                e = trivial_property_expr(repo, c, name)
                if e is not None and dotted(e) and dotted(e).startswith("self."):  # type: ignore
                    name = dotted(e).split(".", 1)[1]  # type: ignore
            out.add(name)
        elif isinstance(n, ast.Call) and dotted(n.func) in ("str", "repr") and n.args and isinstance(n.args[0], ast.Name) and n.args[0].id == who:
            out.add("str()")
        elif isinstance(n, ast.Call) and dotted(n.func) in ("type",) and n.args and isinstance(n.args[0], ast.Name) and n.args[0].id == who:
            out.add("type()")
        elif isinstance(n, ast.BinOp) and isinstance(n.op, ast.Mod) and isinstance(n.left, ast.Name) and n.left.id == who:
            out.add("% const")
    # what helper methods / functions read of the same object counts as read here
    if _depth < 4:
        for call in [n for n in ast.walk(node) if isinstance(n, ast.Call)]:
            f = call.func
            if isinstance(f, ast.Attribute) and isinstance(f.value, ast.Name) and f.value.id == who:
                m = repo.lookup_method(c, f.attr)
                if m is not None and not m.is_property and not m.is_static:
                    out.discard(f.attr)
                    out |= _components(ctx, c, m, m.params[0] if m.params else "self", _depth + 1)
            elif isinstance(f, ast.Attribute) and isinstance(f.value, ast.Call) and dotted(f.value.func) == "super" and who == (fn.params[0] if fn.params else "self") and fn.cls is not None:
                mro = repo.mro(c)
                start = mro.index(fn.cls) + 1 if fn.cls in mro else 1
                for k in mro[start:]:
                    if isinstance(k, ClassInfo) and f.attr in k.methods:
                        pm = k.methods[f.attr]
                        out |= _components(ctx, c, pm, pm.params[0] if pm.params else "self", _depth + 1)
                        break
            elif isinstance(f, (ast.Name, ast.Attribute)):
                idx = [i for i, a in enumerate(call.args) if isinstance(a, ast.Name) and a.id == who]
                if idx:
                    r = None
                    try:
                        r = repo.resolve_expr(fn.module, f, fn.cls)
                    except Exception:
                        r = None
                    if isinstance(r, FuncInfo) and r.cls is None and idx[0] < len(r.params):
                        out |= _components(ctx, c, r, r.params[idx[0]], _depth + 1)
    return out


def _eq_components(ctx: Ctx, c: ClassInfo, fn: FuncInfo) -> Set[str]:
    comps = _components(ctx, c, fn, "self")
    # super().__eq__(other) brings the parent's components
    for call in calls_in(fn.node):
        f = call.func
        if isinstance(f, ast.Attribute) and f.attr == "__eq__" and isinstance(f.value, ast.Call) and dotted(f.value.func) == "super":
            mro = ctx.repo.mro(c)
            for k in mro[1:]:
                if isinstance(k, ClassInfo) and "__eq__" in k.methods:
                    comps |= _eq_components(ctx, k, k.methods["__eq__"])
                    break
    return comps


def _bls_probe_rule(ctx: Ctx) -> None:
    """fallback when the sets cannot be constructed and compared (R8): the comparison evaluated on two probes"""
    repo = ctx.repo
    # BitLengthSet.__eq__ abstractly evaluated on two probes that stand for *equal* sets: every query of one set-determined kind
    # (min, max, residues modulo d, fixed_length) gives both the same abstract answer; anything else that is asked is recorded
    from ..absint import Raised, call_fn
    from ..fold import Abstract, Folder, Unfoldable
    from ..layout import AbsBool, AbsInt, NotLayout, explore

    b = ctx.cls("_bit_length_set._bit_length_set.BitLengthSet")
    eq = b.methods["__eq__"]
    asked: List[str] = []
    foreign: List[str] = []

    class Residues(Abstract):
        def __init__(self, d: Any):
            self.d = d

        def __iter__(self) -> Any:
            return iter([("residues-mod", self.d)])

        def __eq__(self, o: Any) -> Any:  # type: ignore
            return isinstance(o, Residues) and o.d == self.d

        __hash__ = None  # type: ignore

    class Probe(Abstract):
        _isa_ = frozenset({"BitLengthSet"})

        def __init__(self, name: str):
            self.__dict__["name"] = name

        @property
        def min(self) -> Any:
            asked.append("min")
            return AbsInt(("min", "S"))

        @property
        def max(self) -> Any:
            asked.append("max")
            return AbsInt(("max", "S"))

        @property
        def fixed_length(self) -> Any:
            asked.append("fixed_length")
            return AbsBool(("fixed", "S"))

        def __mod__(self, d: Any) -> Any:
            asked.append("residues mod %s" % (d,))
            return Residues(d)

        def is_aligned_at(self, d: Any) -> Any:
            asked.append("is_aligned_at")
            return AbsBool(("aligned", "S", d))

        def is_aligned_at_byte(self) -> Any:
            return self.is_aligned_at(8)

        def __iter__(self) -> Any:
            foreign.append("iteration (numerical expansion)")
            raise Unfoldable("expansion")

        def __len__(self) -> int:
            foreign.append("len() (numerical expansion)")
            raise Unfoldable("expansion")

        def __getattr__(self, name: str) -> Any:
            if name.startswith("__"):
                raise AttributeError(name)
            foreign.append(name)
            raise Unfoldable("asks for %s" % name)

    def hook(e: ast.expr, f: Folder) -> Any:
        if isinstance(e, ast.Call) and (dotted(e.func) or "").split(".")[-1] == "BitLengthSet" and len(e.args) == 1:
            v = f.fold(e.args[0])
            if isinstance(v, Probe):
                return v
        return NotImplemented

    results = []
    err = None
    try:
        for assumptions, r in explore(lambda: call_fn(ctx, eq, [Probe("a"), Probe("b")], hook=hook)):
            results.append(r)
    except (Unfoldable, NotLayout, Raised) as ex:
        err = str(ex)
    if err is not None and not foreign:
        raise AnalysisError("BitLengthSet.__eq__: cannot evaluate over abstract sets: %s" % err)
    good = not foreign and bool(results) and all(r is True for r in results) and "min" in asked and "max" in asked
    ctx.check(good, b.short + ".__eq__", "asks %s%s" % (sorted(set(asked)), (" and " + str(sorted(set(foreign)))) if foreign else ""), "set equality must be decided from set-determined queries only (min, max, residues) so equal sets never compare unequal - and without expanding", eq.where(), {"answers for equal sets": [repr(r) for r in results], "other queries": sorted(set(foreign))})


def rule_r1_r2(ctx: Ctx) -> None:
    repo = ctx.repo
    ctx.rule("C18.R1", "hash ⊆ eq: every state component read by __hash__ is compared by __eq__; eq and hash are overridden together (classes outside the type model, which R7 / R8 decide on constructed instances)", min_instances=5)
    ser_family = set(repo.subclasses(ctx.cls("_serializable._serializable.SerializableType"))) | set(repo.subclasses(ctx.cls("_serializable._attribute.Attribute")))
    bls_by_contract = bool(ctx.rule_docs.get("C18.R8")) and not any("rule_r8_bls_contract" in e_ for e_ in ctx.errors)
    by_contract = bool(ctx.rule_docs.get("C18.R7")) and not any("rule_r7_contract" in e_ for e_ in ctx.errors)
    # the type model's own equality / hash is decided by R7 on constructed instances (a comparison of source shapes would alarm on
    # an extracted helper or a hoisted method); the component comparison below covers every other class that defines them
    classes = [c for c in repo.all_classes().values() if ("__eq__" in c.methods or "__hash__" in c.methods) and not (by_contract and c in ser_family)]
    r2_items: List[Tuple[ClassInfo, FuncInfo]] = []
    for c in sorted(classes, key=lambda x: x.qualname):
        eq, hs = c.methods.get("__eq__"), c.methods.get("__hash__")
        if eq is None or hs is None:
            ctx.fail(c.short, "__eq__/__hash__ pairing", "a class that overrides one of __eq__/__hash__ must override the other", where=c.module.relpath, detail={"__eq__": eq is not None, "__hash__": hs is not None})
            continue
        if eq.is_abstract and hs.is_abstract:
            continue
        hc = _components(ctx, c, hs) - {"type()"}
        ec = _eq_components(ctx, c, eq)
        extra = sorted(hc - ec)
        ctx.check(not extra, c.short, "hash reads %s; eq compares %s" % (sorted(hc), sorted(ec)), "equal objects must have equal hashes: __hash__ may only read what __eq__ compares", hs.where(), {"hash_only": extra})
        r2_items.append((c, eq))
    ctx.rule("C18.R2", "eq shape: NotImplemented for foreign types (never False / an exception); BitLengthSet.__eq__ compares set-determined queries only; SerializableType.__eq__ checks the class both ways", min_instances=5)
    for c, eq in r2_items:
        paths = paths_of(eq.node)
        rets = [p for p in paths if p.kind == "return"]
        ni = [p for p in rets if norm(p.value) == "NotImplemented"]
        falls = [p for p in paths if p.kind in ("fall",)]
        raises = [p for p in paths if p.kind == "raise"]
        bare_false = [p for p in rets if norm(p.value) == "False" and any(isinstance(cnd, ast.Call) and dotted(cnd.func) == "isinstance" and not pol for cnd, pol in p.conds if not isinstance(cnd, tuple))]
        ctx.check(bool(ni) and not falls and not raises and not bare_false, c.short + ".__eq__", "foreign operand -> NotImplemented", "comparison with a foreign type must return NotImplemented", eq.where(), {"paths": [repr(p)[:120] for p in paths][:6]})
    if not bls_by_contract:
        _bls_probe_rule(ctx)
    if not by_contract:
        s = ctx.cls("_serializable._serializable.SerializableType")
        eq = s.methods["__eq__"]
        txt = norm(eq.node)
        both = "isinstance(other, type(self))" in txt and "isinstance(self, type(other))" in txt
        ctx.check(both, s.short + ".__eq__", "class relation tested both ways", "type equality must be symmetric", eq.where())
        hs = s.methods["__hash__"]
        ctx.check("str(self)" in norm(hs.node), s.short + ".__hash__", "hash of the normalised string form", "hash derives from the string form (+ set)", hs.where(), nontrivial=False)


def rule_r3(ctx: Ctx) -> None:
    ctx.rule("C18.R3", "immutability: no instance attribute store or in-place mutation outside __init__ in model classes (exceptions: the four memo slots)", min_instances=30)
    repo = ctx.repo

    def construction_only(c: ClassInfo) -> Set[str]:
        """private methods that run only while an instance is being constructed: every `self.m(...)` / `super().m(...)` call of
        them anywhere in the class hierarchy is inside a constructor or inside another such method (they are part of __init__,
        whatever it was split into); a method whose name is referenced in any other way is not one of them"""
        family = [k for k in repo.all_classes().values() if repo.is_subclass(k, c) or repo.is_subclass(c, k)]
        cand = {n_ for n_ in c.methods if n_.startswith("_") and not n_.startswith("__") and not c.methods[n_].is_property}
        changed = True
        while changed:
            changed = False
            for m_ in sorted(cand):
                ok_ = False
                bad_ = False
                for k in family:
                    for holder_name, holder in k.methods.items():
                        for node in ast.walk(holder.node):
                            if isinstance(node, ast.Attribute) and node.attr == m_:
                                from ..core import parents_map  # noqa: F401

                                is_call = any(isinstance(p_, ast.Call) and p_.func is node for p_ in ast.walk(holder.node))
                                recv_ok = (isinstance(node.value, ast.Name) and node.value.id == "self") or (isinstance(node.value, ast.Call) and dotted(node.value.func) == "super")
                                if is_call and recv_ok and (holder_name == "__init__" or (holder_name in cand and k is c)):
                                    ok_ = True
                                else:
                                    bad_ = True
                if bad_ or not ok_:
                    cand.discard(m_)
                    changed = True
        return cand

    for c in model_classes(ctx):
        offenders = []
        ctor_parts = construction_only(c)
        for name, fn in c.methods.items():
            if name == "__init__" or name in ctor_parts:
                continue
            for n in walk_no_nested(fn.node):
                targets: List[ast.AST] = []
                if isinstance(n, ast.Assign):
                    targets = list(n.targets)
                elif isinstance(n, (ast.AugAssign, ast.AnnAssign)):
                    targets = [n.target]
                elif isinstance(n, ast.Delete):
                    targets = list(n.targets)
                for t in targets:
                    base = t
                    while isinstance(base, ast.Subscript):
                        base = base.value
                    d = dotted(base)
                    if d and d.startswith("self.") and c.name != "MemoizationOperator":
                        offenders.append("%s: %s" % (fn.name, norm(n)[:60]))
                if isinstance(n, ast.Call) and isinstance(n.func, ast.Attribute) and n.func.attr in MUTATORS:
                    d = dotted(n.func.value)
                    if d and d.startswith("self.") and c.name != "MemoizationOperator":
                        offenders.append("%s: %s" % (fn.name, norm(n)[:60]))
        ctx.check(not offenders, c.short, "no state change outside __init__", "model objects are immutable values", c.module.relpath, offenders[:4], nontrivial=bool(c.methods))


def _mutable_source(e: ast.AST) -> Optional[str]:
    if isinstance(e, (ast.List, ast.ListComp, ast.Dict, ast.DictComp, ast.Set, ast.SetComp)):
        return type(e).__name__
    if isinstance(e, ast.Call):
        n = dotted(e.func) or (e.func.attr if isinstance(e.func, ast.Attribute) else "")
        last = n.split(".")[-1]
        if last in ("list", "dict", "set", "sorted", "split", "rsplit", "splitlines", "bytearray", "defaultdict"):
            return last + "()"
    return None


def rule_r4(ctx: Ctx) -> None:
    repo = ctx.repo
    ctx.rule("C18.R4", "defensive copies: public accessors of model classes never return a mutable container attribute by reference", min_instances=3)
    n_acc = 0
    for c in model_classes(ctx) + [ctx.cls("_dsdl_definition.DSDLDefinition")]:
        init = c.methods.get("__init__")
        if init is None:
            continue
        mutable: Dict[str, str] = {}
        for st in walk_no_nested(init.node):
            if isinstance(st, ast.Assign) and len(st.targets) == 1:
                d = dotted(st.targets[0])
                if d and d.startswith("self."):
                    src = _mutable_source(st.value)
                    if src:
                        mutable[d] = src
        if not mutable:
            continue
        for k in repo.subclasses(c):
            for name, fn in k.methods.items():
                if name.startswith("_") or name.endswith(".setter"):
                    continue
                for r in walk_no_nested(fn.node):
                    if isinstance(r, ast.Return) and r.value is not None:
                        d = dotted(r.value)
                        if d in mutable:
                            n_acc += 1
                            ctx.check(False, k.short + "." + name, "return %s" % d, "a public accessor returns the internal %s by reference; mutating the result changes the object" % mutable[d], fn.where(r))
                        elif any(dotted(x) in mutable for x in ast.walk(r.value) if isinstance(x, ast.Attribute)):
                            n_acc += 1
                            ctx.check(True, k.short + "." + name, "return %s" % norm(r.value)[:60], "copy / slice / derived value", fn.where(r))
    if n_acc < 3:
        raise AnalysisError("C18.R4 found only %d accessors over mutable attributes (expected attributes / name_components / namespace_components ...)" % n_acc)


def rule_r5(ctx: Ctx) -> None:
    ctx.rule("C18.R5", "pickle-safety: instance attributes are never lambdas / local functions / generators / map / filter / open files / modules; no __reduce__/__getstate__ overrides; no __slots__", min_instances=30)
    for c in model_classes(ctx):
        offenders = []
        for name, fn in c.methods.items():
            local_funcs = set(fn.nested)
            for n in walk_no_nested(fn.node):
                if isinstance(n, ast.Assign):
                    for t in n.targets:
                        d = dotted(t)
                        if d and d.startswith("self."):
                            v = n.value
                            bad = isinstance(v, (ast.Lambda, ast.GeneratorExp)) or (isinstance(v, ast.Name) and v.id in local_funcs) or (isinstance(v, ast.Call) and dotted(v.func) in ("map", "filter", "open", "iter", "zip", "enumerate", "functools.partial"))
                            if bad:
                                offenders.append("%s: %s" % (name, norm(n)[:70]))
        special = [m for m in ("__reduce__", "__reduce_ex__", "__getstate__", "__setstate__", "__getnewargs__") if m in c.methods]
        slots = "__slots__" in c.assigns
        ctx.check(not offenders and not special and not slots, c.short, "picklable state", "model objects must pickle by value with all fields", c.module.relpath, {"unpicklable_stores": offenders, "special": special, "slots": slots}, nontrivial=bool(c.methods))


# ----------------------------------------------------------------------------------------------------------------------
def _model_pool(ctx: Ctx) -> Tuple[List[Tuple[str, Any, Any]], Any]:
    """instances of the type model built through the repository's own constructors (evaluated from source), each with the
    identity the property assigns to it: (kind, normalised string form, bit length set).  Returns ([(label, instance, key)],
    hook)."""
    from ..absint import APath, Raised, construct, ctor_hook, module_call_hook, path_hook
    from ..fold import Folder, Unfoldable
    from .c11 import _version

    SER = "_serializable."
    prim = ctx.cls(SER + "_primitive.PrimitiveType")

    def hook_for(c: ClassInfo) -> Any:
        return path_hook(ctor_hook(ctx, module_call_hook(ctx, c.module, [], [], results={"check_name": None}, record=["check_name"])))

    def mk(short: str, *a: Any, **k: Any) -> Any:
        c = ctx.cls(SER + short)
        try:
            return construct(ctx, c, *a, hook=hook_for(c), **k)
        except Raised as r:
            raise AnalysisError("%s%r cannot be constructed: %s" % (c.name, a, r.cls_name))
        except Unfoldable as ex:
            raise AnalysisError("%s%r cannot be constructed over the rule's arguments: %s" % (c.name, a, ex))

    f0 = Folder({}, ctx.repo, prim.module, prim)
    try:
        TRU = f0.fold(ast.parse("PrimitiveType.CastMode.TRUNCATED", mode="eval").body)
        SAT = f0.fold(ast.parse("PrimitiveType.CastMode.SATURATED", mode="eval").body)
    except Unfoldable as ex:
        raise AnalysisError("the cast modes cannot be evaluated: %s" % ex)
    pool: List[Tuple[str, Any, Any]] = []

    def add(label: str, obj: Any, kind: str, text: str, bls: Any) -> Any:
        pool.append((label, obj, (kind, text, frozenset(bls))))
        return obj

    u8t = add("truncated uint8", mk("_primitive.UnsignedIntegerType", 8, TRU), "UnsignedIntegerType", "truncated uint8", {8})
    add("truncated uint8 (again)", mk("_primitive.UnsignedIntegerType", 8, TRU), "UnsignedIntegerType", "truncated uint8", {8})
    add("saturated uint8", mk("_primitive.UnsignedIntegerType", 8, SAT), "UnsignedIntegerType", "saturated uint8", {8})
    u16 = add("truncated uint16", mk("_primitive.UnsignedIntegerType", 16, TRU), "UnsignedIntegerType", "truncated uint16", {16})
    add("saturated int8", mk("_primitive.SignedIntegerType", 8, SAT), "SignedIntegerType", "saturated int8", {8})
    add("saturated float32", mk("_primitive.FloatType", 32, SAT), "FloatType", "saturated float32", {32})
    add("saturated bool", mk("_primitive.BooleanType"), "BooleanType", "saturated bool", {1})
    add("byte", mk("_primitive.ByteType"), "ByteType", "byte", {8})
    add("utf8", mk("_primitive.UTF8Type"), "UTF8Type", "utf8", {8})
    v8 = add("void8", mk("_void.VoidType", 8), "VoidType", "void8", {8})
    add("void8 (again)", mk("_void.VoidType", 8), "VoidType", "void8", {8})
    add("void16", mk("_void.VoidType", 16), "VoidType", "void16", {16})
    add("uint8[4]", mk("_array.FixedLengthArrayType", u8t, 4), "FixedLengthArrayType", "truncated uint8[4]", {32})
    add("uint8[4] (again)", mk("_array.FixedLengthArrayType", u8t, 4), "FixedLengthArrayType", "truncated uint8[4]", {32})
    add("uint8[5]", mk("_array.FixedLengthArrayType", u8t, 5), "FixedLengthArrayType", "truncated uint8[5]", {40})
    add("uint8[<=4]", mk("_array.VariableLengthArrayType", u8t, 4), "VariableLengthArrayType", "truncated uint8[<=4]", {8, 16, 24, 32, 40})
    fa, fb, fw = mk("_attribute.Field", u8t, "a"), mk("_attribute.Field", u8t, "b"), mk("_attribute.Field", u16, "a")

    def composite(kind: str, name: str, ver: Tuple[int, int], attrs: List[Any], deprecated: bool = False, pid: Any = None, doc: str = "") -> Any:
        comps = name.split(".")
        return mk("_composite." + kind, name=name, version=_version(*ver), attributes=list(attrs), deprecated=deprecated, fixed_port_id=pid, source_file_path=APath("/r/%s/X.%d.%d.dsdl" % ("/".join(comps[:-1]), ver[0], ver[1])), has_parent_service=False, doc=doc)

    A = add("ns.A.1.0 {uint8 a}", composite("StructureType", "ns.A", (1, 0), [fa]), "StructureType", "ns.A.1.0", {8})
    add("ns.A.1.0 {uint8 a} (again)", composite("StructureType", "ns.A", (1, 0), [fa]), "StructureType", "ns.A.1.0", {8})
    # the same name, version and length set with another field name: equal by the property's definition of equality
    Ax = add("ns.A.1.0 {uint8 b}", composite("StructureType", "ns.A", (1, 0), [fb]), "StructureType", "ns.A.1.0", {8})
    # documentation, deprecation and the port-ID are not part of what the property calls equal
    add("ns.A.1.0 {uint8 a}, documented, deprecated, port 7000", composite("StructureType", "ns.A", (1, 0), [fa], deprecated=True, pid=7000, doc="text"), "StructureType", "ns.A.1.0", {8})
    add("ns.A.1.0 {uint16 a}", composite("StructureType", "ns.A", (1, 0), [fw]), "StructureType", "ns.A.1.0", {16})
    add("ns.A.1.1 {uint8 a}", composite("StructureType", "ns.A", (1, 1), [fa]), "StructureType", "ns.A.1.1", {8})
    add("ns.B.1.0 {uint8 a}", composite("StructureType", "ns.B", (1, 0), [fa]), "StructureType", "ns.B.1.0", {8})
    add("union ns.A.1.0 {uint8 a, uint8 b}", composite("UnionType", "ns.A", (1, 0), [fa, fb]), "UnionType", "ns.A.1.0", {16})
    add("delimited ns.A.1.0, extent 64", mk("_composite.DelimitedType", A, 64), "DelimitedType", "ns.A.1.0", {32 + 8 * i for i in range(9)})
    add("delimited ns.A.1.0 {uint8 b}, extent 64", mk("_composite.DelimitedType", Ax, 64), "DelimitedType", "ns.A.1.0", {32 + 8 * i for i in range(9)})
    add("delimited ns.A.1.0, extent 128", mk("_composite.DelimitedType", A, 128), "DelimitedType", "ns.A.1.0", {32 + 8 * i for i in range(17)})
    # containers of equal-comparing element types are equal themselves
    add("ns.A.1.0[<=2] over {uint8 a}", mk("_array.VariableLengthArrayType", A, 2), "VariableLengthArrayType", "ns.A.1.0[<=2]", {8, 16, 24})
    add("ns.A.1.0[<=2] over {uint8 b}", mk("_array.VariableLengthArrayType", Ax, 2), "VariableLengthArrayType", "ns.A.1.0[<=2]", {8, 16, 24})
    add("ns.A.1.0[2] over {uint8 a}", mk("_array.FixedLengthArrayType", A, 2), "FixedLengthArrayType", "ns.A.1.0[2]", {16})
    add("ns.A.1.0[2] over {uint8 b}", mk("_array.FixedLengthArrayType", Ax, 2), "FixedLengthArrayType", "ns.A.1.0[2]", {16})
    # two element types of one name whose layouts differ ({32, 64} and {64}); arrays of them have *different* length sets with the
    # same bounds and the same residues modulo a small number, which the approximate set equality may report as equal - whatever
    # it answers, the hashes must follow
    u24, u56, u64 = mk("_primitive.UnsignedIntegerType", 24, TRU), mk("_primitive.UnsignedIntegerType", 56, TRU), mk("_primitive.UnsignedIntegerType", 64, TRU)
    E1 = composite("UnionType", "ns.E", (1, 0), [mk("_attribute.Field", u24, "a"), mk("_attribute.Field", u56, "b")])
    E2 = composite("StructureType", "ns.E", (1, 0), [mk("_attribute.Field", u64, "a")])
    add("ns.E.1.0[<=2] over a union {32, 64}", mk("_array.VariableLengthArrayType", E1, 2), "VariableLengthArrayType", "ns.E.1.0[<=2]", {8, 40, 72, 104, 136})
    add("ns.E.1.0[<=2] over a structure {64}", mk("_array.VariableLengthArrayType", E2, 2), "VariableLengthArrayType", "ns.E.1.0[<=2]", {8, 72, 136})
    add("ns.E.1.0[2] over a union {32, 64}", mk("_array.FixedLengthArrayType", E1, 2), "FixedLengthArrayType", "ns.E.1.0[2]", {64, 96, 128})
    add("ns.E.1.0[2] over a structure {64}", mk("_array.FixedLengthArrayType", E2, 2), "FixedLengthArrayType", "ns.E.1.0[2]", {128})
    # a service type that shares name and version with message types of the pool (as two root directories can give): it
    # differs from them in kind; its own bit length set is not defined
    def half(suffix: str, attrs: List[Any]) -> Any:
        return mk("_composite.StructureType", name="ns.A." + suffix, version=_version(1, 0), attributes=list(attrs), deprecated=False, fixed_port_id=None, source_file_path=APath("/r2/ns/A.1.0.dsdl"), has_parent_service=True, doc="")

    add("service ns.A.1.0", mk("_composite.ServiceType", half("Request", [fa]), half("Response", [fb]), None), "ServiceType", "ns.A.1.0", {"not defined for a service"})
    add("service ns.A.1.0 (again)", mk("_composite.ServiceType", half("Request", [fa]), half("Response", [fb]), None), "ServiceType", "ns.A.1.0", {"not defined for a service"})
    # attributes: equal exactly when kind, type, name (and value, for constants) agree
    rat = ctx.cls("_expression._primitive.Rational")

    def R(n: int) -> Any:
        try:
            return construct(ctx, rat, n, hook=hook_for(rat))
        except (Raised, Unfoldable) as ex:
            raise AnalysisError("Rational(%d) cannot be constructed: %s" % (n, ex))

    def addattr(label: str, obj: Any, *key: Any) -> None:
        pool.append((label, obj, ("attribute",) + key))

    addattr("uint8 a", fa, "Field", "truncated uint8", "a")
    addattr("uint8 a (again)", mk("_attribute.Field", u8t, "a"), "Field", "truncated uint8", "a")
    addattr("uint8 a, documented", mk("_attribute.Field", u8t, "a", "a doc comment"), "Field", "truncated uint8", "a")  # the comment is not part of the value
    addattr("uint8 K = 5, documented", mk("_attribute.Constant", u8t, "K", R(5), "another comment"), "Constant", "truncated uint8", "K", 5)
    addattr("uint8 b", fb, "Field", "truncated uint8", "b")
    addattr("uint16 a", fw, "Field", "truncated uint16", "a")
    addattr("ns.A.1.0 a over {uint8 a}", mk("_attribute.Field", A, "a"), "Field", "ns.A.1.0", "a")
    addattr("ns.A.1.0 a over {uint8 b}", mk("_attribute.Field", Ax, "a"), "Field", "ns.A.1.0", "a")
    addattr("void8", mk("_attribute.PaddingField", v8), "PaddingField", "void8", "")
    addattr("void8 (again)", mk("_attribute.PaddingField", v8), "PaddingField", "void8", "")
    addattr("void16", mk("_attribute.PaddingField", mk("_void.VoidType", 16)), "PaddingField", "void16", "")
    addattr("uint8 K = 5", mk("_attribute.Constant", u8t, "K", R(5)), "Constant", "truncated uint8", "K", 5)
    addattr("uint8 K = 5 (again)", mk("_attribute.Constant", u8t, "K", R(5)), "Constant", "truncated uint8", "K", 5)
    addattr("uint8 K = 6", mk("_attribute.Constant", u8t, "K", R(6)), "Constant", "truncated uint8", "K", 6)
    addattr("uint8 L = 5", mk("_attribute.Constant", u8t, "L", R(5)), "Constant", "truncated uint8", "L", 5)
    addattr("uint16 K = 5", mk("_attribute.Constant", u16, "K", R(5)), "Constant", "truncated uint16", "K", 5)
    return pool, hook_for(prim)


def rule_r8_bls_contract(ctx: Ctx) -> bool:
    """BitLengthSet equality / hash on sets built through the public compositions: the same set built in two ways compares equal,
    has the same hash, and deciding it expands nothing"""
    from ..absint import Raised, construct
    from ..fold import Folder, Unfoldable
    from .c01 import _quiet_hook

    ctx.rule("C18.R8", "BitLengthSet built through its own constructor and compositions: two constructions of the same set compare equal (both ways) and have equal hashes; whenever two sets compare equal their hashes agree; the comparison expands neither operand", min_instances=2)
    b = ctx.cls("_bit_length_set._bit_length_set.BitLengthSet")
    from .c01 import _op_of, _unwrap

    expansions: List[str] = []
    operands: List[Any] = []

    def hook(e: ast.expr, f: Any) -> Any:
        if isinstance(e, ast.Call) and isinstance(e.func, ast.Attribute) and e.func.attr == "expand" and operands:
            # an expansion of one of the two operands' own operators (the residue sets the comparison builds are small by
            # construction and may be enumerated)
            try:
                recv = _unwrap(ctx, f.fold(e.func.value))
            except Unfoldable:
                recv = None
            if any(recv is o for o in operands):
                expansions.append(norm(e)[:40])
        return _quiet_hook(e, f)

    env: Dict[str, Any] = {}
    f = Folder(env, ctx.repo, b.module, None, hook)

    def ev(src: str) -> Any:
        try:
            return Folder(env, ctx.repo, b.module, None, hook).fold(ast.parse(src, mode="eval").body)
        except Raised as r:
            return "raise " + r.cls_name
        except Unfoldable as ex:
            raise AnalysisError("%s cannot be evaluated: %s" % (src, ex))

    same = [
        ("BitLengthSet({0, 8, 16})", "BitLengthSet(8).repeat_range(2)"),
        ("BitLengthSet({3, 4, 5})", "BitLengthSet(1) + BitLengthSet({2, 3, 4})"),
        ("BitLengthSet({3, 4, 5})", "BitLengthSet({2, 3, 4}) + 1"),
        ("BitLengthSet({8, 16})", "BitLengthSet({1, 8, 9, 16}).pad_to_alignment(8)"),
        ("BitLengthSet({1, 2, 7})", "BitLengthSet({1, 2}) | BitLengthSet({7, 2})"),
        ("BitLengthSet({24})", "BitLengthSet(8).repeat(3)"),
        ("BitLengthSet({0, 40, 80, 120})", "BitLengthSet(40).repeat_range(3)"),
        ("BitLengthSet({8, 40, 72, 104, 136})", "BitLengthSet(8) + BitLengthSet({32, 64}).repeat_range(2)"),
        ("BitLengthSet(range(0, 257, 8))", "BitLengthSet(8).repeat_range(32)"),
        ("BitLengthSet(5)", "BitLengthSet([5])"),
        # beyond 2**53 (where a float no longer holds every integer) and beyond 2**64
        ("BitLengthSet({2**57 + 8, 2**57 + 16})", "BitLengthSet({2**57 + 8, 2**57 + 16}).pad_to_alignment(8)"),
        ("BitLengthSet({2**57 + 8, 2**57 + 16})", "BitLengthSet({2**57 + 1, 2**57 + 9}).pad_to_alignment(8)"),
        ("BitLengthSet({2**60 + 72})", "BitLengthSet(8) + BitLengthSet({2**60 + 57}).pad_to_alignment(64)"),
        ("BitLengthSet({(2**53 + 1) * 8})", "BitLengthSet(8).repeat(2**53 + 1)"),
        ("BitLengthSet({2**70, 2**70 + 8})", "BitLengthSet({2**70 - 7, 2**70 + 1}).pad_to_alignment(8)"),
    ]
    # pairs of *different* sets: whatever the comparison answers, equal => same hash
    other = [("BitLengthSet({2**57 + 8})", "BitLengthSet({2**57 + 16})"), ("BitLengthSet({2**57 + 8, 2**57 + 16}).pad_to_alignment(8)", "BitLengthSet({2**57 + 16, 2**57 + 24}).pad_to_alignment(8)"), ("BitLengthSet({8, 40, 72, 104, 136})", "BitLengthSet({8, 72, 136})"), ("BitLengthSet({0, 32, 64})", "BitLengthSet({0, 64})"), ("BitLengthSet({1, 2})", "BitLengthSet({1, 3})"), ("BitLengthSet({0, 8})", "BitLengthSet({0, 16})")]
    bad_eq, bad_hash = [], []
    for a, c in same + other:
        del expansions[:]
        del operands[:]
        env["p"], env["q"] = ev(a), ev(c)
        operands.extend(o for o in (_op_of(ctx, env["p"]), _op_of(ctx, env["q"])) if o is not None)
        ab, ba = ev("p == q"), ev("q == p")
        ha, hc = ev("hash(p)"), ev("hash(q)")
        exp = list(expansions)
        del operands[:]
        ctx.count(4)
        if (a, c) in same and (ab is not True or ba is not True):
            bad_eq.append({"a": a, "b": c, "a == b": ab, "b == a": ba, "note": "the same set built in two ways"})
        if ab != ba or ab not in (True, False):
            bad_eq.append({"a": a, "b": c, "a == b": ab, "b == a": ba})
        if exp:
            bad_eq.append({"a": a, "b": c, "note": "the comparison expands an operand: %s" % exp[:2]})
        if not isinstance(ha, int) or not isinstance(hc, int) or (ab is True and ha != hc):
            bad_hash.append({"a": a, "b": c, "a == b": ab, "hashes": (ha, hc)})
    eqf, hf = b.methods.get("__eq__"), b.methods.get("__hash__")
    ctx.check(not bad_eq, b.short + ".__eq__", "%d constructions of equal sets, %d of different ones" % (len(same), len(other)), "set equality never reports two equal sets as different, is symmetric, and does not enumerate the sets", eqf.where() if eqf else b.module.relpath, bad_eq[:4])
    ctx.check(not bad_hash, b.short + ".__hash__", "hash agrees wherever equality holds", "the hash of a bit length set is consistent with its equality", hf.where() if hf else b.module.relpath, bad_hash[:4])
    return True


def rule_r7_contract(ctx: Ctx) -> None:
    """the equality / hash contract of the type model, decided on instances built by the repository's own constructors"""
    from ..absint import Raised
    from ..fold import Folder, Unfoldable

    ctx.rule("C18.R7", "types and attributes built by the model's own constructors (primitives, voids, arrays, structures, unions, delimited types, containers of them; fields, paddings, constants): a == b exactly when kind, normalised string form and bit length set agree (attributes: kind, type, name, value); symmetric; reflexive; equal objects have equal hashes; a foreign operand compares unequal without an exception", min_instances=4)
    pool, hook = _model_pool(ctx)
    ser = ctx.cls("_serializable._serializable.SerializableType")
    env = {"x%d" % i: o for i, (_, o, _k) in enumerate(pool)}
    f = Folder(env, ctx.repo, ser.module, None, hook)

    def ev(src: str) -> Any:
        try:
            return f.fold(ast.parse(src, mode="eval").body)
        except Raised as r:
            return "raise " + r.cls_name
        except Unfoldable as ex:
            raise AnalysisError("%s cannot be evaluated on constructed model instances: %s" % (src, ex))

    hashes = [ev("hash(x%d)" % i) for i in range(len(pool))]
    ctx.count(len(pool))
    wrong_eq, asym, wrong_hash, irreflexive, foreign = [], [], [], [], []
    for (la, _, _k), h in zip(pool, hashes):
        if not isinstance(h, int):
            wrong_hash.append({"a": la, "hash": h, "note": "not hashable (a class that defines __eq__ must define __hash__ too)"})
    for i, (la, _, ka) in enumerate(pool):
        if ev("x%d == x%d" % (i, i)) is not True:
            irreflexive.append(la)
        for j, (lb, _, kb) in enumerate(pool):
            if j <= i:
                continue
            ab, ba = ev("x%d == x%d" % (i, j)), ev("x%d == x%d" % (j, i))
            ctx.count(2)
            if ab != ba:
                asym.append({"a": la, "b": lb, "a == b": ab, "b == a": ba})
            # equal identities must compare equal; a different kind, string form, smallest or largest length must compare
            # unequal; length sets that differ only inside the same bounds may compare either way (set equality may err towards
            # equality, never towards inequality)
            must_equal = ka == kb
            if ka[0] == "attribute" or kb[0] == "attribute":
                must_differ = ka != kb
            else:
                must_differ = ka[:2] != kb[:2] or min(ka[2]) != min(kb[2]) or max(ka[2]) != max(kb[2])
            if (must_equal and ab is not True) or (must_differ and ab is not False) or ab not in (True, False):
                wrong_eq.append({"a": la, "b": lb, "a == b": ab, "expected": True if must_equal else False})
            if ab is True and hashes[i] != hashes[j]:
                wrong_hash.append({"a": la, "b": lb, "note": "equal, but the hashes differ"})
        for fv in ("5", "'x'", "None", "(1, 2)"):
            r = ev("x%d == %s" % (i, fv))
            ctx.count()
            if r is not False:
                foreign.append({"a": la, "foreign": fv, "result": r})
    eqf = ctx.repo.lookup_method(ser, "__eq__")
    hf = ctx.repo.lookup_method(ser, "__hash__")
    where_eq = eqf.where() if eqf else ser.module.relpath
    ctx.check(not wrong_eq and not irreflexive, ser.short + ".__eq__", "equality over %d constructed instances = agreement of (kind, string form, bit length set)" % len(pool), "equality distinguishes types that differ in kind, normalised string form or bit length set - and nothing else - and is reflexive", where_eq, {"wrong": wrong_eq[:4], "not equal to itself": irreflexive[:3]})
    ctx.check(not asym, ser.short + ".__eq__", "a == b and b == a agree on every pair", "equality is symmetric", where_eq, asym[:4])
    ctx.check(not wrong_hash, ser.short + ".__hash__", "equal instances have equal hashes (%d equal pairs)" % sum(1 for i in range(len(pool)) for j in range(i + 1, len(pool)) if pool[i][2] == pool[j][2]), "equal objects must have equal hashes", hf.where() if hf else where_eq, wrong_hash[:4])
    ctx.check(not foreign, ser.short + ".__eq__", "foreign operands (int, str, None, tuple) compare unequal", "comparison with a foreign value yields False (through NotImplemented), never an exception or True", where_eq, foreign[:4])


def rule_r9_accessor_copies(ctx: Ctx) -> None:
    """R4 looks for `return self._x` where `_x` was stored from a mutable source.  This rule asks the objects themselves: every
    instance of the pool (types and attributes built by their own constructors) is asked every public property and
    argument-less public method; whatever comes back as a list / dict / set / bytearray is then modified by the caller
    (an element appended, the order reversed, emptied) and the object is asked everything again."""
    from ..absint import Evaluator, Raised, aobj_member
    from ..fold import Folder, Unfoldable

    ctx.rule("C18.R9", "lists returned by accessors are copies: every public property / argument-less method of every constructed type and attribute answers the same before and after the caller has modified each container that any of them returned [evaluated from the source on the pool of R7]", min_instances=10)
    pool, hook = _model_pool(ctx)
    seen_cls: Set[str] = set()
    MUTATE = ast.parse("def m(got):\n    if isinstance(got, list):\n        got.append(got[0] if got else 1)\n        got.reverse()\n        got.clear()\n    elif isinstance(got, dict):\n        got.clear()\n    elif isinstance(got, set):\n        got.add(-1)\n        got.clear()\n    else:\n        got.extend(b'x')\n").body[0].body

    def members(obj: Any) -> List[str]:
        out = []
        for k in ctx.repo.mro(obj._cls_):
            if not isinstance(k, ClassInfo):
                continue
            for name, fn in k.methods.items():
                if name.startswith("_") or name in out or fn.is_static or fn.is_classmethod or name.endswith(".setter"):
                    continue
                n_required = len(fn.params) - 1 - len(fn.node.args.defaults)
                if fn.is_property or (n_required <= 0 and not fn.node.args.kwonlyargs and name not in ("iterate_fields_with_offsets", "enumerate_elements_with_offsets")):
                    out.append(name)
        return sorted(out)

    def snap(v: Any, f: Any) -> Any:
        if isinstance(v, (list, tuple)):
            return (type(v).__name__, tuple(snap(x, f) for x in v))
        if isinstance(v, dict):
            return ("dict", tuple(sorted((repr(k), snap(x, f)) for k, x in v.items())))
        if isinstance(v, (set, frozenset)):
            return ("set", tuple(sorted(repr(snap(x, f)) for x in v)))
        if type(v).__name__ == "AObj":
            return ("obj", v._cls_.name, id(v) if v._cls_.name not in ("BitLengthSet",) else 0)
        if type(v).__name__ == "_BoundMethod":
            return ("method",)
        return repr(v)

    def ask_all(obj: Any, names: List[str]) -> Dict[str, Any]:
        out: Dict[str, Any] = {}
        for nm in names:
            f = Folder({"x": obj}, ctx.repo, obj._cls_.module, None, hook)
            m = ctx.repo.lookup_method(obj._cls_, nm)
            try:
                out[nm] = f.fold(ast.parse("x.%s" % nm if m is not None and m.is_property else "x.%s()" % nm, mode="eval").body)
            except Raised as r:
                out[nm] = ("raised", r.cls_name)
            except Unfoldable:
                out[nm] = ("not evaluated",)
        return out

    n = 0
    for label, obj, _key in pool:
        if obj._cls_.name in seen_cls:
            continue
        seen_cls.add(obj._cls_.name)
        names = members(obj)
        first = ask_all(obj, names)
        before = {k: snap(v, None) for k, v in first.items()}
        mutable = [k for k, v in first.items() if isinstance(v, (list, dict, set, bytearray))]
        for k in mutable:
            try:
                Evaluator({"got": first[k]}, ctx.repo, obj._cls_.module, None, hook).run(MUTATE)
            except (Raised, Unfoldable) as ex:
                raise AnalysisError("the caller-side modification of %s.%s cannot be evaluated: %s" % (obj._cls_.name, k, ex))
        after = {k: snap(v, None) for k, v in ask_all(obj, names).items()}
        n += 2 * len(names)
        changed = sorted(k for k in before if before[k] != after[k])
        ctx.check(not changed, obj._cls_.short, "%d public members, %d of them returning containers (%s)" % (len(names), len(mutable), ", ".join(mutable) or "-"), "modifying what an accessor returned must not change what the object answers", obj._cls_.module.relpath, {"changed": changed[:4], "before": {k: repr(before[k])[:100] for k in changed[:2]}, "after": {k: repr(after[k])[:100] for k in changed[:2]}}, nontrivial=bool(mutable))
    ctx.count(n)


def rule_r10_picklable_state(ctx: Ctx) -> None:
    """R5 looks at the stores of the classes.  This rule looks at the objects: the state (`__dict__`, recursively through
    containers and nested instances) of every constructed instance of the pool, after it has been asked every public member
    (so that memo slots are filled), consists of values that pickle by value - numbers, strings, bytes, None, enumeration
    members, paths, containers of those, and instances of classes of the package that define no pickling hook.  A function
    object, a bound method, a lambda, a partial application, an iterator or generator, a module or an open file does not."""
    from ..fold import Folder, Unfoldable
    from ..absint import Raised

    ctx.rule("C18.R10", "the state of every constructed type / attribute / bit length set - after all public members have been asked - consists of values that pickle by value (no function objects, bound methods, lambdas, partials, iterators, modules); classes reached define no __reduce__ / __getstate__ / __setstate__ / __slots__", min_instances=10)
    pool, hook = _model_pool(ctx)
    import fractions
    import pathlib

    def offending(v: Any, path: str, seen: Set[int], out: List[str]) -> None:
        if id(v) in seen or len(out) > 4:
            return
        seen.add(id(v))
        if v is None or isinstance(v, (bool, int, float, str, bytes, fractions.Fraction, pathlib.PurePath)):
            return
        if isinstance(v, (list, tuple, set, frozenset)):
            for i, x in enumerate(v):
                offending(x, "%s[%d]" % (path, i), seen, out)
            return
        if isinstance(v, dict):
            for k, x in v.items():
                offending(k, "%s key" % path, seen, out)
                offending(x, "%s[%r]" % (path, k if not hasattr(k, "__dict__") else "..."), seen, out)
            return
        tn = type(v).__name__
        if isinstance(v, (range, bytearray, complex)) or tn == "ARange":
            return  # ranges, byte arrays and complex numbers pickle by value as well
        if tn == "AObj":
            for k in ctx.repo.mro(v._cls_):
                if isinstance(k, ClassInfo):
                    special = [m for m in ("__reduce__", "__reduce_ex__", "__getstate__", "__setstate__", "__getnewargs__") if m in k.methods]
                    if special or "__slots__" in k.assigns:
                        out.append("%s: an instance of %s, which defines %s" % (path, k.name, special or "__slots__"))
            for a, x in v.__dict__.items():
                if a in ("_cls_", "_ctx_", "_record_fields_"):
                    continue
                offending(x, "%s.%s" % (path, a), seen, out)
            return
        if tn in ("Sym", "_V", "APath", "ClassInfo", "_TypeOf") or (hasattr(v, "_kind_") and tn != "AObj"):
            return  # enumeration members / records / paths / classes (classes pickle by reference to their name)
        out.append("%s: %s (%s)" % (path, tn, repr(v)[:50]))

    n = 0
    seen_cls: Set[str] = set()
    for label, obj, _key in pool:
        if obj._cls_.name in seen_cls:
            continue
        seen_cls.add(obj._cls_.name)
        # fill whatever is filled lazily
        for q in ("x.bit_length_set.min", "x.bit_length_set.max", "set(x.bit_length_set % 8)", "hash(x)", "str(x)", "x == x", "x.alignment_requirement"):
            try:
                Folder({"x": obj}, ctx.repo, obj._cls_.module, None, hook).fold(ast.parse(q, mode="eval").body)
            except (Raised, Unfoldable):
                pass
        bad: List[str] = []
        offending(obj, obj._cls_.name, set(), bad)
        n += 1
        ctx.check(not bad, obj._cls_.short, "state after all queries", "model objects pickle by value with all their fields", obj._cls_.module.relpath, bad[:4])
    ctx.count(n)


def run(ctx: Ctx) -> None:
    ctx.attempt(rule_r7_contract, ctx)
    ctx.attempt(rule_r8_bls_contract, ctx)
    ctx.attempt(rule_r1_r2, ctx)
    ctx.attempt(rule_r3, ctx)
    ctx.attempt(rule_r4, ctx)
    ctx.attempt(rule_r5, ctx)
    ctx.attempt(rule_r9_accessor_copies, ctx)
    ctx.attempt(rule_r10_picklable_state, ctx)
    from . import c01

    # immutability also fails through aliases: a memoised residue set handed out by reference and modified by the caller
    c01.rule_r2(ctx, rid="C18.R6")
    ctx.analysed["model_classes"] = [c.short for c in model_classes(ctx)]
    ctx.undecided("pickling round trip as a run-time fact; reflexivity / symmetry beyond the shape checked by R2")
