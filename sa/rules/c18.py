"""
C18 -- Model objects are immutable values with a sound equality/hash/pickle contract.

R1  hash ⊆ eq: the state components read by __hash__ are a subset of those __eq__ compares; a class that overrides one
    overrides the other.
R2  eq shape: NotImplemented for foreign types; BitLengthSet.__eq__ is a conjunction of equalities of set-determined
    queries only; SerializableType.__eq__ tests the class relation in both directions.
R3  immutability: no instance-attribute store / in-place mutation outside __init__ in model classes (memo slots excepted).
R4  defensive copies: a public accessor never returns a mutable container attribute by reference.
R6  no mutation through aliases of cached / shared sets in the bit-length-set solver (shared with C01.R2).
R5  pickle-safety: instance attributes are never lambdas / local functions / generators / files / modules; no custom
    __reduce__ / __getstate__ / incomplete __slots__.
"""
from __future__ import annotations

import ast
from typing import Any, Dict, List, Optional, Set, Tuple

from ..core import AnalysisError, ClassInfo, Ctx, External, FuncInfo, body_without_docstring, calls_in, dotted, norm, walk_no_nested
from ..decide import paths_of
from ..regions import inline_properties, trivial_property_expr

MUTATORS = {"append", "extend", "insert", "remove", "pop", "clear", "sort", "reverse", "add", "update", "discard", "setdefault", "popitem", "difference_update", "intersection_update", "symmetric_difference_update"}
MEMO_SLOTS = {("MemoizationOperator", "_min"), ("MemoizationOperator", "_max"), ("MemoizationOperator", "_modula"), ("MemoizationOperator", "_expansion")}
NON_VALUE_CACHES = {
    ("DSDLDefinition", "_text"): "lazy text cache (not part of the value: equality is by name and version)",
    ("DSDLDefinition", "_cached_type"): "result cache of read()",
}


def model_classes(ctx: Ctx) -> List[ClassInfo]:
    repo = ctx.repo
    out: List[ClassInfo] = []
    any_c = ctx.cls("_expression._any.Any")
    out.extend(repo.subclasses(any_c))
    out.append(ctx.cls("_bit_length_set._bit_length_set.BitLengthSet"))
    out.extend(repo.subclasses(ctx.cls("_bit_length_set._symbolic.Operator")))
    seen = set()
    res = []
    for c in out:
        if c.qualname not in seen:
            seen.add(c.qualname)
            res.append(c)
    return res


def _components(ctx: Ctx, c: ClassInfo, fn: FuncInfo, who: str = "self", _depth: int = 0) -> Set[str]:
    """State components of `who` read in fn: instance fields (after accessor inlining), 'str', and query names."""
    repo = ctx.repo
    out: Set[str] = set()
    node = inline_properties(repo, c, fn.node) if who == "self" and fn.cls is not None else fn.node
    for n in ast.walk(node):
        if isinstance(n, ast.Attribute) and isinstance(n.value, ast.Name) and n.value.id == who:
            name = n.attr
            if who != "self":
                e = trivial_property_expr(repo, c, name)
                if e is not None and dotted(e) and dotted(e).startswith("self."):  # type: ignore
                    name = dotted(e).split(".", 1)[1]  # type: ignore
            out.add(name)
        elif isinstance(n, ast.Call) and dotted(n.func) in ("str", "repr") and n.args and isinstance(n.args[0], ast.Name) and n.args[0].id == who:
            out.add("str()")
        elif isinstance(n, ast.Call) and dotted(n.func) in ("type",) and n.args and isinstance(n.args[0], ast.Name) and n.args[0].id == who:
            out.add("type()")
        elif isinstance(n, ast.BinOp) and isinstance(n.op, ast.Mod) and isinstance(n.left, ast.Name) and n.left.id == who:
            out.add("% const")
    # what helper methods / functions read of the same object counts as read here
    if _depth < 4:
        for call in [n for n in ast.walk(node) if isinstance(n, ast.Call)]:
            f = call.func
            if isinstance(f, ast.Attribute) and isinstance(f.value, ast.Name) and f.value.id == who:
                m = repo.lookup_method(c, f.attr)
                if m is not None and not m.is_property and not m.is_static:
                    out.discard(f.attr)
                    out |= _components(ctx, c, m, m.params[0] if m.params else "self", _depth + 1)
            elif isinstance(f, ast.Attribute) and isinstance(f.value, ast.Call) and dotted(f.value.func) == "super" and who == (fn.params[0] if fn.params else "self") and fn.cls is not None:
                mro = repo.mro(c)
                start = mro.index(fn.cls) + 1 if fn.cls in mro else 1
                for k in mro[start:]:
                    if isinstance(k, ClassInfo) and f.attr in k.methods:
                        pm = k.methods[f.attr]
                        out |= _components(ctx, c, pm, pm.params[0] if pm.params else "self", _depth + 1)
                        break
            elif isinstance(f, (ast.Name, ast.Attribute)):
                idx = [i for i, a in enumerate(call.args) if isinstance(a, ast.Name) and a.id == who]
                if idx:
                    r = None
                    try:
                        r = repo.resolve_expr(fn.module, f, fn.cls)
                    except Exception:
                        r = None
                    if isinstance(r, FuncInfo) and r.cls is None and idx[0] < len(r.params):
                        out |= _components(ctx, c, r, r.params[idx[0]], _depth + 1)
    return out


def _eq_components(ctx: Ctx, c: ClassInfo, fn: FuncInfo) -> Set[str]:
    comps = _components(ctx, c, fn, "self")
    # super().__eq__(other) brings the parent's components
    for call in calls_in(fn.node):
        f = call.func
        if isinstance(f, ast.Attribute) and f.attr == "__eq__" and isinstance(f.value, ast.Call) and dotted(f.value.func) == "super":
            mro = ctx.repo.mro(c)
            for k in mro[1:]:
                if isinstance(k, ClassInfo) and "__eq__" in k.methods:
                    comps |= _eq_components(ctx, k, k.methods["__eq__"])
                    break
    return comps


def rule_r1_r2(ctx: Ctx) -> None:
    repo = ctx.repo
    ctx.rule("C18.R1", "hash ⊆ eq: every state component read by __hash__ is compared by __eq__; eq and hash are overridden together", min_instances=8)
    classes = [c for c in repo.all_classes().values() if ("__eq__" in c.methods or "__hash__" in c.methods)]
    r2_items: List[Tuple[ClassInfo, FuncInfo]] = []
    for c in sorted(classes, key=lambda x: x.qualname):
        eq, hs = c.methods.get("__eq__"), c.methods.get("__hash__")
        if eq is None or hs is None:
            ctx.fail(c.short, "__eq__/__hash__ pairing", "a class that overrides one of __eq__/__hash__ must override the other", where=c.module.relpath, detail={"__eq__": eq is not None, "__hash__": hs is not None})
            continue
        if eq.is_abstract and hs.is_abstract:
            continue
        hc = _components(ctx, c, hs) - {"type()"}
        ec = _eq_components(ctx, c, eq)
        extra = sorted(hc - ec)
        ctx.check(not extra, c.short, "hash reads %s; eq compares %s" % (sorted(hc), sorted(ec)), "equal objects must have equal hashes: __hash__ may only read what __eq__ compares", hs.where(), {"hash_only": extra})
        r2_items.append((c, eq))
    ctx.rule("C18.R2", "eq shape: NotImplemented for foreign types (never False / an exception); BitLengthSet.__eq__ compares set-determined queries only; SerializableType.__eq__ checks the class both ways", min_instances=8)
    for c, eq in r2_items:
        paths = paths_of(eq.node)
        rets = [p for p in paths if p.kind == "return"]
        ni = [p for p in rets if norm(p.value) == "NotImplemented"]
        falls = [p for p in paths if p.kind in ("fall",)]
        raises = [p for p in paths if p.kind == "raise"]
        bare_false = [p for p in rets if norm(p.value) == "False" and any(isinstance(cnd, ast.Call) and dotted(cnd.func) == "isinstance" and not pol for cnd, pol in p.conds if not isinstance(cnd, tuple))]
        ctx.check(bool(ni) and not falls and not raises and not bare_false, c.short + ".__eq__", "foreign operand -> NotImplemented", "comparison with a foreign type must return NotImplemented", eq.where(), {"paths": [repr(p)[:120] for p in paths][:6]})
    # BitLengthSet.__eq__ abstractly evaluated on two probes that stand for *equal* sets: every query of one set-determined kind
    # (min, max, residues modulo d, fixed_length) gives both the same abstract answer; anything else that is asked is recorded
    from ..absint import Raised, call_fn
    from ..fold import Abstract, Folder, Unfoldable
    from ..layout import AbsBool, AbsInt, NotLayout, explore

    b = ctx.cls("_bit_length_set._bit_length_set.BitLengthSet")
    eq = b.methods["__eq__"]
    asked: List[str] = []
    foreign: List[str] = []

    class Residues(Abstract):
        def __init__(self, d: Any):
            self.d = d

        def __iter__(self) -> Any:
            return iter([("residues-mod", self.d)])

        def __eq__(self, o: Any) -> Any:  # type: ignore
            return isinstance(o, Residues) and o.d == self.d

        __hash__ = None  # type: ignore

    class Probe(Abstract):
        _isa_ = frozenset({"BitLengthSet"})

        def __init__(self, name: str):
            self.__dict__["name"] = name

        @property
        def min(self) -> Any:
            asked.append("min")
            return AbsInt(("min", "S"))

        @property
        def max(self) -> Any:
            asked.append("max")
            return AbsInt(("max", "S"))

        @property
        def fixed_length(self) -> Any:
            asked.append("fixed_length")
            return AbsBool(("fixed", "S"))

        def __mod__(self, d: Any) -> Any:
            asked.append("residues mod %s" % (d,))
            return Residues(d)

        def is_aligned_at(self, d: Any) -> Any:
            asked.append("is_aligned_at")
            return AbsBool(("aligned", "S", d))

        def is_aligned_at_byte(self) -> Any:
            return self.is_aligned_at(8)

        def __iter__(self) -> Any:
            foreign.append("iteration (numerical expansion)")
            raise Unfoldable("expansion")

        def __len__(self) -> int:
            foreign.append("len() (numerical expansion)")
            raise Unfoldable("expansion")

        def __getattr__(self, name: str) -> Any:
            if name.startswith("__"):
                raise AttributeError(name)
            foreign.append(name)
            raise Unfoldable("asks for %s" % name)

    def hook(e: ast.expr, f: Folder) -> Any:
        if isinstance(e, ast.Call) and (dotted(e.func) or "").split(".")[-1] == "BitLengthSet" and len(e.args) == 1:
            v = f.fold(e.args[0])
            if isinstance(v, Probe):
                return v
        return NotImplemented

    results = []
    err = None
    try:
        for assumptions, r in explore(lambda: call_fn(ctx, eq, [Probe("a"), Probe("b")], hook=hook)):
            results.append(r)
    except (Unfoldable, NotLayout, Raised) as ex:
        err = str(ex)
    if err is not None and not foreign:
        raise AnalysisError("BitLengthSet.__eq__: cannot evaluate over abstract sets: %s" % err)
    good = not foreign and bool(results) and all(r is True for r in results) and "min" in asked and "max" in asked
    ctx.check(good, b.short + ".__eq__", "asks %s%s" % (sorted(set(asked)), (" and " + str(sorted(set(foreign)))) if foreign else ""), "set equality must be decided from set-determined queries only (min, max, residues) so equal sets never compare unequal - and without expanding", eq.where(), {"answers for equal sets": [repr(r) for r in results], "other queries": sorted(set(foreign))})
    s = ctx.cls("_serializable._serializable.SerializableType")
    eq = s.methods["__eq__"]
    txt = norm(eq.node)
    both = "isinstance(other, type(self))" in txt and "isinstance(self, type(other))" in txt
    ctx.check(both, s.short + ".__eq__", "class relation tested both ways", "type equality must be symmetric", eq.where())
    hs = s.methods["__hash__"]
    ctx.check("str(self)" in norm(hs.node), s.short + ".__hash__", "hash of the normalised string form", "hash derives from the string form (+ set)", hs.where(), nontrivial=False)


def rule_r3(ctx: Ctx) -> None:
    ctx.rule("C18.R3", "immutability: no instance attribute store or in-place mutation outside __init__ in model classes (exceptions: the four memo slots)", min_instances=30)
    for c in model_classes(ctx):
        offenders = []
        for name, fn in c.methods.items():
            if name == "__init__":
                continue
            for n in walk_no_nested(fn.node):
                targets: List[ast.AST] = []
                if isinstance(n, ast.Assign):
                    targets = list(n.targets)
                elif isinstance(n, (ast.AugAssign, ast.AnnAssign)):
                    targets = [n.target]
                elif isinstance(n, ast.Delete):
                    targets = list(n.targets)
                for t in targets:
                    base = t
                    while isinstance(base, ast.Subscript):
                        base = base.value
                    d = dotted(base)
                    if d and d.startswith("self.") and (c.name, d.split(".")[1]) not in MEMO_SLOTS:
                        offenders.append("%s: %s" % (fn.name, norm(n)[:60]))
                if isinstance(n, ast.Call) and isinstance(n.func, ast.Attribute) and n.func.attr in MUTATORS:
                    d = dotted(n.func.value)
                    if d and d.startswith("self.") and (c.name, d.split(".")[1]) not in MEMO_SLOTS:
                        offenders.append("%s: %s" % (fn.name, norm(n)[:60]))
        ctx.check(not offenders, c.short, "no state change outside __init__", "model objects are immutable values", c.module.relpath, offenders[:4], nontrivial=bool(c.methods))


def _mutable_source(e: ast.AST) -> Optional[str]:
    if isinstance(e, (ast.List, ast.ListComp, ast.Dict, ast.DictComp, ast.Set, ast.SetComp)):
        return type(e).__name__
    if isinstance(e, ast.Call):
        n = dotted(e.func) or (e.func.attr if isinstance(e.func, ast.Attribute) else "")
        last = n.split(".")[-1]
        if last in ("list", "dict", "set", "sorted", "split", "rsplit", "splitlines", "bytearray", "defaultdict"):
            return last + "()"
    return None


def rule_r4(ctx: Ctx) -> None:
    repo = ctx.repo
    ctx.rule("C18.R4", "defensive copies: public accessors of model classes never return a mutable container attribute by reference", min_instances=3)
    n_acc = 0
    for c in model_classes(ctx) + [ctx.cls("_dsdl_definition.DSDLDefinition")]:
        init = c.methods.get("__init__")
        if init is None:
            continue
        mutable: Dict[str, str] = {}
        for st in walk_no_nested(init.node):
            if isinstance(st, ast.Assign) and len(st.targets) == 1:
                d = dotted(st.targets[0])
                if d and d.startswith("self."):
                    src = _mutable_source(st.value)
                    if src:
                        mutable[d] = src
        if not mutable:
            continue
        for k in repo.subclasses(c):
            for name, fn in k.methods.items():
                if name.startswith("_") or name.endswith(".setter"):
                    continue
                for r in walk_no_nested(fn.node):
                    if isinstance(r, ast.Return) and r.value is not None:
                        d = dotted(r.value)
                        if d in mutable:
                            n_acc += 1
                            ctx.check(False, k.short + "." + name, "return %s" % d, "a public accessor returns the internal %s by reference; mutating the result changes the object" % mutable[d], fn.where(r))
                        elif any(dotted(x) in mutable for x in ast.walk(r.value) if isinstance(x, ast.Attribute)):
                            n_acc += 1
                            ctx.check(True, k.short + "." + name, "return %s" % norm(r.value)[:60], "copy / slice / derived value", fn.where(r))
    if n_acc < 3:
        raise AnalysisError("C18.R4 found only %d accessors over mutable attributes (expected attributes / name_components / namespace_components ...)" % n_acc)


def rule_r5(ctx: Ctx) -> None:
    ctx.rule("C18.R5", "pickle-safety: instance attributes are never lambdas / local functions / generators / map / filter / open files / modules; no __reduce__/__getstate__ overrides; no __slots__", min_instances=30)
    for c in model_classes(ctx):
        offenders = []
        for name, fn in c.methods.items():
            local_funcs = set(fn.nested)
            for n in walk_no_nested(fn.node):
                if isinstance(n, ast.Assign):
                    for t in n.targets:
                        d = dotted(t)
                        if d and d.startswith("self."):
                            v = n.value
                            bad = isinstance(v, (ast.Lambda, ast.GeneratorExp)) or (isinstance(v, ast.Name) and v.id in local_funcs) or (isinstance(v, ast.Call) and dotted(v.func) in ("map", "filter", "open", "iter", "zip", "enumerate", "functools.partial"))
                            if bad:
                                offenders.append("%s: %s" % (name, norm(n)[:70]))
        special = [m for m in ("__reduce__", "__reduce_ex__", "__getstate__", "__setstate__", "__getnewargs__") if m in c.methods]
        slots = "__slots__" in c.assigns
        ctx.check(not offenders and not special and not slots, c.short, "picklable state", "model objects must pickle by value with all fields", c.module.relpath, {"unpicklable_stores": offenders, "special": special, "slots": slots}, nontrivial=bool(c.methods))


def run(ctx: Ctx) -> None:
    ctx.attempt(rule_r1_r2, ctx)
    ctx.attempt(rule_r3, ctx)
    ctx.attempt(rule_r4, ctx)
    ctx.attempt(rule_r5, ctx)
    from . import c01

    # immutability also fails through aliases: a memoised residue set handed out by reference and modified by the caller
    c01.rule_r2(ctx, rid="C18.R6")
    ctx.analysed["model_classes"] = [c.short for c in model_classes(ctx)]
    ctx.undecided("pickling round trip as a run-time fact; reflexivity / symmetry beyond the shape checked by R2")
