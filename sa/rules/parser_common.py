"""
Shared by C03 (and usable by C17): the parser's visitor methods abstractly evaluated, in the order parsimonious visits a parse
tree (children before their parent, left to right), for *abstract texts* given as a sequence of line shapes; the statement
stream goes into the repository's own DataTypeBuilder (built by its constructor), whose constructions of Field / Constant /
PaddingField / composites are recorded (builder_common).  What a rule then compares is the recorded model - which attribute,
in which section, with which documentation - with the Specification's reading of the same lines.

The line-level shape of the grammar (`definition = line (end_of_line line)*`, `line = statement? _? comment?`) and the
sequence of each statement rule are taken from the grammar file; a different shape is an analysis error.
"""
from __future__ import annotations

import ast
from typing import Any, Dict, List, Optional, Sequence, Tuple

from ..absint import AObj, Raised, _BoundMethod, construct
from ..codec import isa_of
from ..core import AnalysisError, ClassInfo, Ctx, FuncInfo, norm
from ..fold import Folder, Sym, Unfoldable, call_value
from ..peg import Grammar
from . import builder_common as B

PT = "_parser._ParseTreeProcessor"


class Line:
    """one line of an abstract text: kind in F (field) K (constant) P (padding) D (directive without expression) M (`---`)
    C (comment only) B (empty) W (blanks only) O (`@print _offset_`: a directive whose expression reads the schema);
    `comment`: the text after `#` on this line, if any"""

    def __init__(self, kind: str, name: str = "", comment: Optional[str] = None, directive: str = "sealed", value: Any = None):
        # kind X: a directive with an expression; `value` = ("Rational", 64) / ("Boolean", True) / ("String", "x")
        self.kind, self.name, self.comment, self.directive, self.value = kind, name, comment, directive, value

    def __repr__(self) -> str:
        body = {"F": "uint8 %s" % self.name, "T": "float7 %s" % self.name, "K": "uint8 %s = 1" % self.name, "P": "void8", "D": "@" + self.directive, "M": "---", "C": "", "B": "", "W": "   ", "O": "@print _offset_", "X": "@%s %s" % (self.directive, ("'%s'" % self.value[1]) if self.value and self.value[0] == "String" else repr((self.value or ("", ""))[1]))}[self.kind]
        if self.comment is not None:
            body = (body + " " if body else "") + "#" + self.comment
        return body


def text_of(lines: Sequence[Line], final_eol: bool) -> str:
    return "\n".join(repr(l) for l in lines) + ("\n" if final_eol else "")


class ParserModel:
    def __init__(self, ctx: Ctx, g: Optional[Grammar] = None):
        self.ctx = ctx
        self.g = g or Grammar.load(ctx.repo)
        self.pt = ctx.cls(PT)
        self._check_line_grammar()
        self._handlers: Dict[str, Any] = {}

    def _check_line_grammar(self) -> None:
        g = self.g
        d = g.show(g.rule("definition")).replace(" ", "")
        l = g.show(g.rule("line")).replace(" ", "")
        if d != "line(end_of_lineline)*" or l != "statement?_?comment?":
            raise AnalysisError("the line-level grammar is not `definition = line (end_of_line line)*`, `line = statement? _? comment?` (found %s ; %s)" % (d, l))

    def seq_of(self, rule: str) -> List[Tuple[str, Any]]:
        n = self.g.rule(rule)
        if n[0] == "seq":
            return list(n[1])
        return [n]

    def fresh(self, **builder_kw: Any) -> Tuple[Any, Any, B.BuilderRun, Any]:
        """(parser instance, builder instance, record of constructions, hook)"""
        from ..core import dotted as _dotted
        from .c02 import _layout_hook

        dtb = self.ctx.cls(B.DTB)
        lh = _layout_hook(self.ctx, dtb.module, dtb)

        def expr_hook(e: ast.expr, f: Folder) -> Any:
            # layout terms; expression values (`Set`, `Rational`, ...) as inert records that are instances of `Any`
            r = lh(e, f)
            if r is not NotImplemented:
                return r
            if isinstance(e, ast.Call):
                name = _dotted(e.func) or ""
                last = name.split(".")[-1]
                if last in ("Rational", "Set", "String", "Boolean") and name.split(".")[0] in ("_expression", last):
                    args = [f.fold(a) for a in e.args]
                    return Sym(_isa_=frozenset({"Any", last}), _kind_=last, payload=tuple(tuple(a) if isinstance(a, list) else a for a in args))
                if name == "map" and len(e.args) == 2:
                    try:
                        k = f.fold(e.args[0])
                    except Unfoldable:
                        k = None
                    if isinstance(k, ClassInfo):
                        return [Sym(_isa_=frozenset({"Any", k.name}), _kind_=k.name, payload=(x,)) for x in f.fold(e.args[1])]
            return NotImplemented

        builder_kw.setdefault("base_hook", expr_hook)
        b, run, hook = B.make_builder(self.ctx, **builder_kw)
        try:
            me = construct(self.ctx, self.pt, b, hook=hook, strict=False)
        except (Raised, Unfoldable) as ex:
            raise AnalysisError("cannot evaluate the constructor of the parse tree processor: %s" % ex)
        return me, b, run, hook

    def visit(self, me: Any, hook: Any, rule: str, node: Any, children: List[Any]) -> Any:
        """the visitor bound to `visit_<rule>`, called as parsimonious would; a rule without a visitor is the generic one"""
        repo = self.ctx.repo
        pt = self.pt
        name = "visit_" + rule
        folder = Folder({"self": me}, repo, pt.module, pt, hook)
        fn = repo.lookup_method(pt, name)
        if fn is None:
            v = repo.lookup_class_attr(pt, name)
            if v is None:
                fn = repo.lookup_method(pt, "generic_visit")
                if fn is None:
                    raise AnalysisError("no visitor for %s and no generic_visit" % rule)
            elif isinstance(v, ast.Name) and repo.lookup_method(pt, v.id) is not None:
                fn = repo.lookup_method(pt, v.id)
            else:
                key = norm(v)
                if key not in self._handlers:
                    try:
                        self._handlers[key] = Folder({}, repo, pt.module, pt, hook).fold(v)
                    except Unfoldable as ex:
                        raise AnalysisError("cannot evaluate the handler %s = %s: %s" % (name, key, ex))
                return call_value(folder, self._handlers[key], [me, node, children])
        return _BoundMethod(me, fn).call(folder, [node, children], {})


def node(text: str = "", **kw: Any) -> Sym:
    return Sym(_kind_="Node", _isa_=frozenset({"Node"}), text=text, **kw)


class DocRun:
    def __init__(self) -> None:
        self.attrs: List[Tuple[str, str, str]] = []  # (kind, name, doc) in construction order
        self.operands: List[Tuple[str, str, Any, Any]] = []  # (kind, name, label of the type given, label of the value given)
        self.offsets: List[Tuple[int, Any]] = []  # (index of the line, what `_offset_` evaluated to there)
        self.composites: List[Tuple[str, List[str], str]] = []  # (kind, attribute names, doc)
        self.raised: Optional[str] = None
        self.result: Any = None
        self.ctor_log: List[Tuple[str, Dict[str, Any]]] = []  # every composite constructed, with its arguments
        self.prints: List[Tuple[Any, ...]] = []  # what the print handler received


def drive(pm: ParserModel, me: Any, hook: Any, lines: Sequence[Line], final_eol: bool, out: DocRun) -> None:
    """the visits parsimonious makes for the text (children before their parent, left to right), on the parser instance `me`"""
    ctx = pm.ctx
    from ..core import dotted as _dotted
    from ..layout import TBls

    def uint8(label: str) -> Sym:
        # one type object per statement, so that what reaches the model can be told apart by identity
        return Sym(_isa_=isa_of(ctx, "_serializable._primitive.UnsignedIntegerType"), _kind_="UnsignedIntegerType", bit_length=8, bit_length_set=TBls.of(8), alignment_requirement=1, label=label)

    def child_of(el: Tuple[str, Any], line: Line, i: int) -> Any:
        if el[0] == "ref" and el[1] == "identifier":
            return pm.visit(me, hook, "identifier", node({"D": line.directive, "X": line.directive, "O": "print"}.get(line.kind, line.name)), [])
        if el[0] == "ref" and el[1] == "type":
            if line.kind == "T":
                # a field whose *type* is faulty (`float7 x`): the fault is raised while the children of the statement are
                # visited, before the statement's own visitor runs - with no location of its own
                from ..absint import AExc

                r_ = Raised("InvalidBitLengthError", ast.Constant(value=None))
                r_.exc = AExc("InvalidBitLengthError")  # type: ignore
                raise r_
            return uint8("type@%d" % i)
        if el[0] == "ref" and el[1] == "type_void":
            return Sym(_isa_=isa_of(ctx, "_serializable._void.VoidType"), _kind_="VoidType", bit_length=8, bit_length_set=TBls.of(8), alignment_requirement=1, label="void@%d" % i)
        if el[0] == "ref" and el[1] == "expression":
            if line.kind == "O":
                # the expression `_offset_`: an identifier that the atom visitor resolves through the statement stream processor
                ident = pm.visit(me, hook, "identifier", node("_offset_"), [])
                v = pm.visit(me, hook, "expression_atom", node("_offset_"), [ident])
                out.offsets.append((i, v))
                return v
            if line.kind == "X":
                k = ctx.cls("_expression._primitive." + line.value[0])
                if line.value[0] == "String" and (len(line.value[1]) > 3):
                    # a string literal with raw line breaks: its terminal's visitor sees the raw text (and has to count the breaks);
                    # the decoding of the literal's escapes is not what is observed here
                    def lit_hook(e: ast.expr, f: Folder) -> Any:
                        if isinstance(e, ast.Call) and (_dotted(e.func) or "").split(".")[-1] == "_parse_string_literal":
                            return construct(ctx, k, line.value[1], hook=hook)
                        return hook(e, f)

                    return pm.visit(me, lit_hook, "literal_string_single_quoted", node("'%s'" % line.value[1]), [])
                return construct(ctx, k, line.value[1], hook=hook)
            return Sym(_isa_=frozenset({"Any", "Primitive", "Rational"}), _kind_="Rational", label="value@%d" % i)
        return node(" ")

    stmt_rule = {"F": "statement_field", "T": "statement_field", "K": "statement_constant", "P": "statement_padding_field", "D": "statement_directive_without_expression", "M": "statement_service_response_marker", "O": "statement_directive_with_expression", "X": "statement_directive_with_expression"}
    wrappers = {"F": ["statement_attribute", "statement"], "T": ["statement_attribute", "statement"], "K": ["statement_attribute", "statement"], "P": ["statement_attribute", "statement"], "D": ["statement_directive", "statement"], "M": ["statement"], "O": ["statement_directive", "statement"], "X": ["statement_directive", "statement"]}
    all_lines = list(lines) + ([Line("B")] if final_eol else [])
    for i, ln in enumerate(all_lines):
        if i:
            pm.visit(me, hook, "end_of_line", node("\n"), [])
        kids: List[Any] = []
        if ln.kind in stmt_rule:
            rule = stmt_rule[ln.kind]
            children = [child_of(el, ln, i) for el in pm.seq_of(rule)] if ln.kind != "M" else []
            st_text = repr(Line(ln.kind, ln.name, None, ln.directive, ln.value))
            r = pm.visit(me, hook, rule, node(st_text), children)
            for w in wrappers[ln.kind]:
                r = pm.visit(me, hook, w, node(st_text), [r])
            kids.append(r)
        if ln.comment is not None:
            kids.append(pm.visit(me, hook, "comment", node("#" + ln.comment), []))
        pm.visit(me, hook, "line", node(repr(ln)), kids)
    pm.visit(me, hook, "definition", node(text_of(lines, final_eol)), [])


def _collect(out: DocRun, run: B.BuilderRun, handler: Any) -> None:
    for kind, kw in run.attr_log:
        out.attrs.append((kind, str(kw.get("name", "")), kw.get("doc", "")))
        out.operands.append((kind, str(kw.get("name", "")), getattr(kw.get("data_type"), "label", None), getattr(kw.get("value"), "label", None)))
    out.ctor_log = list(run.ctor_log)
    out.prints = [a for _, a, _ in handler.log]
    for kind, kw in run.ctor_log:
        attrs = kw.get("attributes")
        out.composites.append((kind, [getattr(a, "name", "?") for a in (attrs or [])], kw.get("doc", "")))


def read_lines(pm: ParserModel, lines: Sequence[Line], final_eol: bool) -> DocRun:
    """the visits parsimonious makes for the text, evaluated; then finalize()"""
    ctx = pm.ctx
    from ..absint import Recorder

    handler = Recorder("print-handler")
    me, b, run, hook = pm.fresh(handler=handler)
    out = DocRun()
    try:
        drive(pm, me, hook, lines, final_eol, out)
        out.result = Folder({"b": b}, ctx.repo, b._cls_.module, b._cls_, hook).fold(ast.parse("b.finalize()", mode="eval").body)
    except Raised as r:
        out.raised = r.cls_name
    except Unfoldable as ex:
        raise AnalysisError("cannot evaluate the parser over the abstract text %r: %s" % (text_of(lines, final_eol), ex))
    _collect(out, run, handler)
    return out


def parse_lines(pm: ParserModel, lines: Sequence[Line], final_eol: bool, faulty: Sequence[str] = ()) -> DocRun:
    """the repository's own `parse(text, statement_stream_processor)` evaluated from its source - so that its error funnel
    takes part - with the tree visit replaced by the visits parsimonious would make for the abstract text.  An attribute whose
    name is in `faulty` cannot be constructed: its constructor raises an invalid-definition error that carries no location
    (what the type model does for, say, a constant that does not fit its type).  The result records the error that leaves
    `parse`: its class and the line stamped on it (`out.error_line`)."""
    ctx = pm.ctx
    from ..absint import AExc, Recorder, call_fn
    from ..core import dotted as _dotted

    parse_fn = ctx.func("_parser.parse")
    handler = Recorder("print-handler")
    out = DocRun()
    b, run, bhook = B.make_builder(ctx, handler=handler, base_hook=None)
    state: Dict[str, Any] = {}

    def hook(e: ast.expr, f: Folder) -> Any:
        if isinstance(e, ast.Call):
            name = _dotted(e.func) or ""
            last = name.split(".")[-1]
            if last in ("Field", "Constant", "PaddingField") and (name.split(".")[0] not in f.env or type(f.env.get(name)).__name__ == "ClassInfo"):
                # the name is the second argument of Field / Constant
                args = [f.fold(a) for a in e.args]
                nm = args[1] if len(args) > 1 and last != "PaddingField" else ""
                if nm in faulty:
                    r = Raised("InvalidConstantValueError", e)
                    r.exc = AExc("InvalidConstantValueError")  # type: ignore
                    raise r
            if last == "_get_grammar" or (isinstance(e.func, ast.Attribute) and e.func.attr == "parse" and getattr(f.fold(e.func.value) if not isinstance(e.func.value, ast.Call) or (_dotted(e.func.value.func) or "").endswith("_get_grammar") else None, "_kind_", None) == "Grammar"):
                return Sym(_kind_="Grammar") if last == "_get_grammar" else Sym(_kind_="ParseTree")
            if isinstance(e.func, ast.Attribute) and e.func.attr == "visit" and len(e.args) == 1:
                recv = f.fold(e.func.value)
                if isinstance(recv, AObj) and recv._cls_ is pm.pt:
                    if getattr(f.fold(e.args[0]), "_kind_", None) == "ParseTree":
                        state["parser"] = recv
                        drive(pm, recv, f.hook, lines, final_eol, out)
                        return None
        return bhook(e, f)

    try:
        call_fn(ctx, parse_fn, [text_of(lines, final_eol), b], {"strict": False}, hook=hook, keep=())
    except Raised as r:
        out.raised = r.cls_name
        exc = getattr(r, "exc", None)
        out.error_line = getattr(exc, "line", None)  # type: ignore
        out.error_path = getattr(exc, "path", None)  # type: ignore
    except Unfoldable as ex:
        raise AnalysisError("cannot evaluate parse() over the abstract text %r: %s" % (text_of(lines, final_eol), ex))
    if "parser" not in state:
        raise AnalysisError("parse(): the tree visit (`<processor>.visit(<grammar>.parse(text))`) was not reached")
    _collect(out, run, handler)
    return out
