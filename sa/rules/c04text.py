"""
C04, text level (R8): expression texts are evaluated by the repository's front end (evaluated from the source: grammar ->
parse tree -> visitors -> operator functions -> value classes) as operands of `@print`, and the values delivered to the print
handler are compared with an independent reference (rules/exprref.py: tokenizer, precedence parser built from the
Specification's operator table, exact evaluator).  Texts whose value the Specification leaves undefined must make the
definition invalid (an InvalidDefinitionError), each in a definition of its own.

The corpus is generated: every literal form; every ordered pair of binary operators over operands chosen so that the wrong
grouping gives a different value or a different verdict; unary operators against every binary level; sets (algebra,
element-wise arithmetic in both operand orders, attributes); every undefined combination of operand kinds for every operator;
the four contexts in which an expression can stand (constant initializer, array capacity, @assert / @print, @extent).
"""
from __future__ import annotations

from fractions import Fraction
from typing import Any, Dict, List, Optional, Tuple

from ..core import AnalysisError, ClassInfo, Ctx
from . import exprref as X
from .c03text import ROOT, TextRun, front_end, job_for

BIN_OPS = ["||", "&&", "==", "!=", "<=", ">=", "<", ">", "|", "^", "&", "+", "-", "*", "/", "%", "**"]

LITERALS = [
    "0", "00", "0_0", "7", "1_000", "123_456_789_012_345_678_901_234_567_890", "0b1", "0B1_01", "0b_1111", "0o17", "0O1_7", "0o_7", "0x1F", "0Xff", "0x_dead_BEEF", "0xFFFF_FFFF_FFFF_FFFF_F",
    "1.5", ".5", "5.", "0.1", "1e3", "1E3", "1e+3", "1e-3", "1.5e-3", "2.5E-2", ".5e1", "5.e-1", "1_0.0_1e+0_1", "12345678901234567890.12345678901234567890123456789", "0.000000000000000000000000000001", "1e-30", "255.0000000000000000000000000001",
    # long literals: past any chunk size a conversion might use, with and without separators, in every base
    "1234567890" * 60, "_".join(["123"] * 171), "9" * 511 + "_" + "9" * 90, "0x" + "F0E1" * 200, "0x" + "_".join(["ABCD"] * 140), "0b" + "10" * 400, "0o" + "_".join(["7654"] * 150), "1" + "0" * 700 + ".5", "_".join(["1"] * 300) + "e-300",
    "true", "false", "'a'", '"a"', "''", "'it\\'s'", '"say \\"hi\\""', "'a\\\\b'", "'\\n\\r\\t'", "'\\u0041\\U0001F600'", "'\\u00e9'", "'#not a comment'", '"\'"',
    "{1}", "{1, 2, 3}", "{ 1 ,2 }", "{1.5, 2}", "{true}", "{true, false}", "{'a', 'b'}", "{1, 1, 1}", "{0x10, 16, 1_6}",
]

NUM = ["7", "3", "2", "0", "1.5", "-2"]


def corpus(thorough: bool) -> List[str]:
    out: List[str] = list(LITERALS)
    # every ordered pair of binary operators: a op1 b op2 c (numbers), plus boolean and mixed forms
    triples = [("7", "3", "2"), ("2", "3", "2"), ("1", "0", "3")] if thorough else [("7", "3", "2")]
    for a, b, c in triples:
        for o1 in BIN_OPS:
            for o2 in BIN_OPS:
                out.append("%s %s %s %s %s" % (a, o1, b, o2, c))
    for o1 in ("||", "&&", "==", "!="):
        for o2 in ("||", "&&", "==", "!="):
            out.append("true %s false %s false" % (o1, o2))
            out.append("false %s true %s true" % (o1, o2))
    for o in BIN_OPS:
        for a in NUM:
            for b in NUM:
                out.append("%s %s %s" % (a, o, b))
    # unary operators against each binary level
    for o in BIN_OPS:
        out += ["-7 %s 2" % o, "+7 %s 2" % o, "7 %s -2" % o, "7 %s +2" % o, "!true %s false" % o, "! 1 %s 2" % o, "-(7 %s 2)" % o, "!(1 %s 2)" % o]
    out += ["-2 ** 2", "(-2) ** 2", "2 ** -1", "2 ** 3 ** 2", "(2 ** 3) ** 2", "2 ** -1 ** 2", "-2 ** -2", "!!true", "! ! false", "-(-1)", "+(-1)", "- 1", "-{1}", "!{true}", "-'a'", "!1", "-true", "+true", "!'a'", "--1", "1 - -1", "1 - - 1", "1--1", "1 + +1"]
    # parentheses against every pair of levels
    for o1 in BIN_OPS:
        for o2 in ("+", "*", "|", "<", "**"):
            out.append("(7 %s 3) %s 2" % (o1, o2))
            out.append("7 %s (3 %s 2)" % (o2, o1))
    # sets
    for o in BIN_OPS:
        out += ["{1, 2, 3} %s {2, 3}" % o, "{1, 2} %s {1, 2}" % o, "{1} %s {2}" % o, "{1, 2} %s 2" % o, "2 %s {1, 2}" % o, "{1.5, 4} %s 2" % o, "{0, 1} %s 0" % o, "0 %s {1, 2}" % o, "{true} %s {false}" % o, "{'a'} %s {'a', 'b'}" % o, "{1} %s {true}" % o, "{1} %s true" % o, "{1} %s 'a'" % o, "{true, false} %s 1" % o, "{'a'} %s 1" % o]
    out += ["{1, 2, 3}.min", "{1, 2, 3}.max", "{1, 2, 3}.count", "{1, 1, 1}.count", "{1.5, -2}.min", "{1.5, -2}.max * 2", "({1, 2} | {5}).max", "({1, 2} & {2, 3}).count", "{1, 2}.count ** 2", "-{1, 2}.min", "{1, 2}.min.min", "{true}.count", "{'a', 'b'}.count", "{1}.foo", "{1}.Min", "(1).min", "true.count", "'a'.count", "{}", "{ }", "{1, true}", "{1, 'a'}", "{1, {1}}", "{{1}, {2}}.count", "{{1}} == {{1}}", "{1, 2} == {2, 1}", "{1 + 1, 4 / 2, 2 ** 1}.count", "{1, 2,}", "{,}", "{1 2}"]
    # strings and booleans with every operator; mixed kinds
    for o in BIN_OPS:
        out += ["'a' %s 'b'" % o, "'a' %s 'a'" % o, "true %s true" % o, "true %s false" % o, "1 %s true" % o, "true %s 1" % o, "1 %s 'a'" % o, "'a' %s 1" % o, "'a' %s true" % o]
    out += ["'e\\u0301' == '\\u00e9'", "'e\\u0301' != '\\u00e9'", "'ab' + 'c' == 'a' + 'bc'", "'a' + 'b' + 'c'", "('a' + 'b') == 'ab'"]
    # identifiers and malformed texts
    out += ["foo", "foo + 1", "true_", "True", "1 +", "* 2", "(1", "1)", "1 2", "1 ++ 2", "1 +* 2", "01", "0x", "0b2", "1_", "_1", "1__0", "0x__1", "1.e", "1e", "'a", "a'", "'a\\q'", "'\\u12'", "\"a'", "1 = 1", "1 === 1", "1 <> 2", "1 && 2 ||", "~1", "1 // 2", "1 << 2"]
    # exactness
    out += ["1 / 3 * 3", "1 / 3 + 1 / 3 + 1 / 3 == 1", "0.1 + 0.2 == 0.3", "1e-30 * 1e30", "(1 / 3) ** 2", "(2 / 3) ** -2", "10 ** 30 % 7", "-7 % 3", "7 % -3", "-7.5 % 2", "7.5 % 0.5", "2 ** 64 - 1 == 0xFFFF_FFFF_FFFF_FFFF", "2 ** 100 / 2 ** 98", "1 / 7 * 7 == 1", "123456789 * 987654321", "1.5 | 1", "3 | 1.0", "6.0 ^ 3", "7 & 2.5", "-1 & 0xFF", "-8 | 3", "5 ^ -1", "1e2 & 0x64"]
    seen = set()
    uniq = []
    for e in out:
        if e not in seen:
            seen.add(e)
            uniq.append(e)
    return uniq


def classify(texts: List[str]) -> Tuple[List[Tuple[str, X.Value]], List[Tuple[str, str]], List[Tuple[str, str]]]:
    valid, invalid, skipped = [], [], []
    for t in texts:
        try:
            valid.append((t, X.value_of(t)))
        except X.Undefined as ex:
            invalid.append((t, "undefined: %s" % ex))
        except X.Malformed as ex:
            invalid.append((t, "malformed: %s" % ex))
        except X.NotDecided as ex:
            skipped.append((t, str(ex)))
    return valid, invalid, skipped


def is_invalid_definition(ctx: Ctx, cls_name: Optional[str]) -> bool:
    if cls_name is None:
        return False
    ide = ctx.cls("_error.InvalidDefinitionError")
    for k in ctx.repo.all_classes().values():
        if k.name == cls_name and ide in ctx.repo.mro(k):
            return True
    return False


def prints_of(texts: List[str]) -> str:
    return "".join("@print %s\n" % t for t in texts) + "@sealed\n"


def rule_r8_texts(ctx: Ctx) -> None:
    ctx.rule("C04.R8", "expression texts (all literal forms, every ordered pair of binary operators, unary operators against every level, parentheses, sets, strings, booleans, mixed kinds, malformed texts) evaluated by the front end as @print operands: the delivered value equals the independent exact reference; texts the Specification leaves undefined make the definition invalid", min_instances=3)
    fe = front_end(ctx)
    thorough = ctx.tier == "thorough"
    valid, invalid, skipped = classify(corpus(thorough))
    if len(valid) < 400 or len(invalid) < 300:
        raise AnalysisError("the expression corpus is degenerate: %d valid, %d invalid" % (len(valid), len(invalid)))
    where = "pydsdl/_expression/_operator.py"
    # -- valid texts: chunks of @print lines, one definition per chunk
    chunk = 60
    chunks = [valid[i : i + chunk] for i in range(0, len(valid), chunk)]
    jobs = [job_for({"E.1.0.dsdl": prints_of([t for t, _ in c])}, handler=True) for c in chunks]
    # -- invalid texts: one definition each
    jobs += [job_for({"E.1.0.dsdl": prints_of([t])}, handler=True) for t, _ in invalid]
    outs = fe.read_many(jobs)
    ctx.count(len(valid) + len(invalid))
    bad_values: List[Dict[str, Any]] = []
    retry: List[Tuple[str, X.Value]] = []
    for c, o in zip(chunks, outs):
        if o["raised"] is not None:
            retry.extend(c)
            continue
        got = {line: v for _, line, v in o.get("prints", [])}
        for i, (t, ref) in enumerate(c):
            if (i + 1) not in got:
                bad_values.append({"text": t, "expected": X.show(ref), "got": "no @print output for line %d" % (i + 1)})
            elif not X.same_printed(ref, got[i + 1]):
                bad_values.append({"text": t, "expected": X.show(ref), "got": repr(got[i + 1])})
    if retry:
        outs2 = fe.read_many([job_for({"E.1.0.dsdl": prints_of([t])}, handler=True) for t, _ in retry])
        for (t, ref), o in zip(retry, outs2):
            if o["raised"] is not None:
                bad_values.append({"text": t, "expected": X.show(ref), "got": "rejected: %s" % o["raised"]})
            else:
                got1 = [v for _, _, v in o.get("prints", [])]
                if len(got1) != 1 or not X.same_printed(ref, got1[0]):
                    bad_values.append({"text": t, "expected": X.show(ref), "got": repr(got1)})
    ctx.check(not bad_values, "@print <expression>", "%d expression texts with a defined value" % len(valid), "the value of an expression text differs from the exact reference: %s" % "; ".join("`%s` = %s, got %s" % (b["text"], b["expected"], b["got"]) for b in bad_values[:4]), where, bad_values[:12])
    accepted, wrong_class = [], []
    for (t, why), o in zip(invalid, outs[len(chunks) :]):
        if o["raised"] is None:
            accepted.append({"text": t, "why invalid": why, "printed": repr([v for _, _, v in o.get("prints", [])])})
        elif not is_invalid_definition(ctx, o["raised"]):
            wrong_class.append({"text": t, "why invalid": why, "raised": o["raised"] + (" (%s)" % o.get("wrapped") if o.get("wrapped") else "")})
    ctx.check(not accepted, "@print <expression>", "%d expression texts without a defined value are rejected" % len(invalid), "an expression the Specification leaves undefined is accepted: %s" % "; ".join("`%s` (%s) -> %s" % (b["text"], b["why invalid"], b["printed"]) for b in accepted[:4]), where, accepted[:12])
    ctx.check(not wrong_class, "@print <expression>", "the rejections are InvalidDefinitionErrors", "an undefined expression is rejected with an error that is not an InvalidDefinitionError: %s" % "; ".join("`%s` -> %s" % (b["text"], b["raised"]) for b in wrong_class[:4]), where, wrong_class[:12])
    ctx.analysed["C04.R8.texts"] = {"valid": len(valid), "invalid": len(invalid), "not decided by the reference": len(skipped)}


CONTEXT_EXPRS = ["2 + 3 * 4", "2 ** 3 ** 2 / 64", "(1 + 2) * 3", "0x10 | 0b1", "{8, 16, 24}.max", "-(-8)", "7 % 4 + {1, 2}.count", "64 / 2 ** 3", "1_6"]


def rule_r9_contexts(ctx: Ctx) -> None:
    ctx.rule("C04.R9", "the same expression text means the same value wherever an expression can stand: constant initializer, the three array capacity forms, @assert, @print and @extent (the value the reference gives)", min_instances=1)
    fe = front_end(ctx)
    lines = []
    expect: List[Tuple[str, str, int]] = []
    for i, e in enumerate(CONTEXT_EXPRS):
        v = X.value_of(e)
        assert v[0] == "Rational" and v[1].denominator == 1 and v[1] >= 2, e
        n = int(v[1])
        lines += ["uint64 K%d = %s" % (i, e), "bool[%s] a%d" % (e, i), "bool[<=%s] b%d" % (e, i), "bool[<%s] c%d" % (e, i), "@assert %s == %d" % (e, n), "@assert K%d == %s" % (i, e), "@print %s" % e]
        expect.append((e, "K%d" % i, n))
    text = "\n".join(lines) + "\n@extent 8 * (%s)\n" % " + ".join("(%s) * 3" % e for e in CONTEXT_EXPRS)
    total = 8 * sum(3 * n for _, _, n in expect)
    out = fe.read_many([job_for({"X.1.0.dsdl": text}, handler=True)])[0]
    ctx.count(len(CONTEXT_EXPRS) * 7)
    where = "pydsdl/_parser.py"
    if out["raised"] is not None:
        ctx.fail("expressions in every context", "accepted", "a definition whose expressions are all defined (and whose assertions hold by the reference) is rejected: %s at line %s" % (out["raised"], out["line"]), where=where, detail=text)
        return
    d = TextRun(out).by_name[("ns.X", (1, 0))]
    bad = []
    inner = d.get("inner", d)
    rows = {a["name"]: a for a in inner["attributes"]}
    prints = [v for _, _, v in out.get("prints", [])]
    for i, (e, k, n) in enumerate(expect):
        if not X.same(("Rational", Fraction(n)), rows[k].get("value")):
            bad.append("constant initializer `%s`: %r, reference %d" % (e, rows[k].get("value"), n))
        for nm, cap, kind in (("a%d" % i, n, "FixedLengthArrayType"), ("b%d" % i, n, "VariableLengthArrayType"), ("c%d" % i, n - 1, "VariableLengthArrayType")):
            sh = rows[nm]["shape"]
            if sh.get("capacity") != cap or sh.get("kind") != kind:
                bad.append("array capacity `%s` in %s: %r, reference %d" % (e, rows[nm]["text"], sh.get("capacity"), cap))
        if i >= len(prints) or not X.same_printed(("Rational", Fraction(n)), prints[i]):
            bad.append("@print `%s`: %r, reference %d" % (e, prints[i] if i < len(prints) else None, n))
    if d.get("extent") != total:
        bad.append("@extent: %r, reference %d" % (d.get("extent"), total))
    ctx.check(not bad, "expressions in every context", "%d expressions x 7 contexts" % len(CONTEXT_EXPRS), "an expression evaluates differently depending on where it stands: %s" % "; ".join(bad[:4]), where, bad[:10])


def run(ctx: Ctx) -> None:
    ctx.attempt(rule_r8_texts, ctx)
    ctx.attempt(rule_r9_contexts, ctx)
