"""
A reference for the layout of DSDL types, written from the Specification and independent of the repository: from the canonical
text of a type (and the descriptions of the composites it refers to) to its alignment, the bounds of its serialized length,
its extent and - where the numbers are small - the exact set of its lengths.  Used by the text-level layout rules (C02.R9,
C08.R7, C16.R8) as the oracle.
"""
from __future__ import annotations

import itertools
import re
from typing import Any, Callable, Dict, FrozenSet, List, Optional, Tuple

SMALL = 4096  # sets are computed exactly while they stay below this many elements


def prefix_bits(n: int) -> int:
    """width of the implicit length prefix / union tag able to hold the value n: the smallest of 8 / 16 / 32 / 64"""
    return next(w for w in (8, 16, 32, 64) if n < 2**w)


def pad(x: int, a: int) -> int:
    return -(-x // a) * a


class Layout:
    """alignment, (min, max) of the length, the extent, and the exact length set if it is small"""

    def __init__(self, align: int, lo: int, hi: int, lengths: Optional[FrozenSet[int]], extent: Optional[int] = None):
        self.align, self.lo, self.hi, self.lengths = align, lo, hi, lengths
        self.extent = hi if extent is None else extent

    def padded(self, a: int) -> "Layout":
        return Layout(self.align, pad(self.lo, a), pad(self.hi, a), None if self.lengths is None else frozenset(pad(x, a) for x in self.lengths))


def _plus(a: Optional[FrozenSet[int]], b: Optional[FrozenSet[int]]) -> Optional[FrozenSet[int]]:
    if a is None or b is None or len(a) * len(b) > SMALL * 16:
        return None
    out = frozenset(x + y for x in a for y in b)
    return out if len(out) <= SMALL else None


def _repeat(s: Optional[FrozenSet[int]], k: int) -> Optional[FrozenSet[int]]:
    if s is None or k > 64:
        return None if (s is None or len(s) > 1) else frozenset({next(iter(s)) * k})
    out: Optional[FrozenSet[int]] = frozenset({0})
    for _ in range(k):
        out = _plus(out, s)
        if out is None:
            return None
    return out


class Reference:
    def __init__(self, composites: Dict[str, Dict[str, Any]]):
        """composites: "ns.Name.M.m" -> {"kind": "struct" | "union", "fields": [(canonical type text | "voidN")], "extent": None | int}"""
        self.composites = composites
        self.memo: Dict[str, Layout] = {}

    def of(self, canon: str) -> Layout:
        if canon not in self.memo:
            self.memo[canon] = self._of(canon)
        return self.memo[canon]

    def _of(self, canon: str) -> Layout:
        m = re.fullmatch(r"(.*)\[(<=)?(\d+)\]", canon)
        if m:
            el, n = self.of(m.group(1)), int(m.group(3))
            if not m.group(2):
                return Layout(el.align, el.lo * n, el.hi * n, _repeat(el.lengths, n))
            w = prefix_bits(n)
            sets: Optional[FrozenSet[int]] = frozenset()
            if el.lengths is not None and n <= 64:
                for k in range(n + 1):
                    r = _repeat(el.lengths, k)
                    if r is None or sets is None:
                        sets = None
                        break
                    sets = sets | frozenset(pad(w, el.align) + x for x in r)
                    if len(sets) > SMALL:
                        sets = None
                        break
            elif el.lengths is not None and len(el.lengths) == 1 and n <= SMALL:
                e = next(iter(el.lengths))
                sets = frozenset(pad(w, el.align) + e * k for k in range(n + 1))
            else:
                sets = None
            return Layout(max(el.align, 1), pad(w, el.align), pad(w, el.align) + el.hi * n, sets)
        if canon == "bool":
            return Layout(1, 1, 1, frozenset({1}))
        if canon in ("byte", "utf8"):
            return Layout(1, 8, 8, frozenset({8}))
        m = re.fullmatch(r"(?:(?:saturated|truncated) )?(?:uint|int|float|void)(\d+)", canon)
        if m:
            b = int(m.group(1))
            return Layout(1, b, b, frozenset({b}))
        c = self.composites.get(canon)
        if c is None:
            raise KeyError(canon)
        fields = [self.of(f) for f in c["fields"]]
        if c["kind"] == "union":
            tag = prefix_bits(max(len(fields) - 1, 0))
            lo = min(pad(tag, f.align) + f.lo for f in fields)
            hi = max(pad(tag, f.align) + f.hi for f in fields)
            sets = frozenset()  # type: Optional[FrozenSet[int]]
            for f in fields:
                if f.lengths is None or sets is None:
                    sets = None
                    break
                sets = sets | frozenset(pad(tag, f.align) + x for x in f.lengths)
            inner = Layout(8, pad(lo, 8), pad(hi, 8), None if sets is None else frozenset(pad(x, 8) for x in sets))
        else:
            lo = hi = 0
            sets = frozenset({0})
            for f in fields:
                lo, hi = pad(lo, f.align) + f.lo, pad(hi, f.align) + f.hi
                sets = None if sets is None else _plus(frozenset(pad(x, f.align) for x in sets), f.lengths)
            inner = Layout(8, pad(lo, 8), pad(hi, 8), None if sets is None else frozenset(pad(x, 8) for x in sets))
        if c.get("extent") is None:
            return inner
        ext = c["extent"]
        n = ext // 8
        return Layout(8, 32, 32 + ext, frozenset(32 + 8 * k for k in range(n + 1)) if n <= SMALL else None, extent=ext)

    def offsets(self, canon: str) -> List[Tuple[int, int, Optional[FrozenSet[int]]]]:
        """for a structure: (min, max, exact set) of `_offset_` after each field (before any padding for the next one); for a
        union: one entry - after the last variant: tag + union of the variants"""
        c = self.composites[canon]
        fields = [self.of(f) for f in c["fields"]]
        out = []
        if c["kind"] == "union":
            tag = prefix_bits(max(len(fields) - 1, 0))
            sets = frozenset()  # type: Optional[FrozenSet[int]]
            for f in fields:
                sets = None if (sets is None or f.lengths is None) else sets | frozenset(pad(tag, f.align) + x for x in f.lengths)
            return [(min(pad(tag, f.align) + f.lo for f in fields), max(pad(tag, f.align) + f.hi for f in fields), sets)]
        lo = hi = 0
        sets = frozenset({0})
        for f in fields:
            lo, hi = pad(lo, f.align) + f.lo, pad(hi, f.align) + f.hi
            sets = None if sets is None else _plus(frozenset(pad(x, f.align) for x in sets), f.lengths)
            out.append((lo, hi, sets))
        return out
