"""
The concrete front-end world: definition *texts* in an abstract file system are read by the repository's own entry points
(`read_namespace` / `read_files`), evaluated from the source by the checker's interpreter - directory listing, file-name
parsing, `DSDLDefinition.read`, `parse()`, every visitor method of the parse tree processor, the expression classes, the
statement stream processor, the type model and the cross-definition checks are the repository's code.  Only three things are
provided from outside, because they are not part of the repository's source:

  * the file system (sa/absint.APath: a list of paths, and `CONTENTS`: path -> text, read by `open()` / `read_text()`);
  * the parse tree: `parsimonious.Grammar(<grammar file>).parse(text)` is answered by sa/pegrun.Matcher over the repository's
    grammar file (cross-validated against parsimonious on 3000 mutated definitions while it was written: identical trees and
    error lines);
  * `parsimonious.NodeVisitor.visit`: children first, left to right, then `visit_<expr_name>` (a method, or a class-level
    attribute bound to a handler - `lift_child`, a closure made by a factory) or `generic_visit`; an exception that is not one of
    the processor's `unwrapped_exceptions` is wrapped into VisitationError.

A rule gives texts and gets back either digests of the composites (kind, name, version, flags, attributes with normalised
type / name / value / documentation, length bounds, extent) or the class, path and line of the error.
"""
from __future__ import annotations

import ast
from typing import Any, Dict, List, Optional, Sequence, Tuple

from ..absint import AExc, AObj, APath, Raised, _BoundMethod, call_fn, ctor_hook, module_call_hook, path_hook
from ..core import AnalysisError, ClassInfo, Ctx, dotted, norm
from ..fold import Abstract, Folder, Unfoldable, call_value
from .. import fold as _fold_mod
from ..peg import Grammar
from ..pegrun import Matcher, ParseFailure, PNode

PT = "_parser._ParseTreeProcessor"


class AParseError(AExc):
    """what `parsimonious.ParseError` gives the repository: the position as a line number"""

    def __init__(self, line_no: int, column_no: int):
        super().__init__("ParseError")
        self.__dict__.pop("line", None)  # here `line` is a method, as on parsimonious.ParseError
        self.__dict__["_line_no"] = line_no
        self.__dict__["_column_no"] = column_no

    def line(self) -> int:
        return self._line_no

    def column(self) -> int:
        return self._column_no


class AExcClass(Abstract):
    """`VisitationError.original_class`: the *class* of the wrapped exception - it has no `line`, no `column` ...: looking
    one up is the AttributeError the evaluated program would meet"""

    def __init__(self, name: str):
        self.__dict__["__name__"] = name

    def __getattr__(self, attr: str) -> Any:
        if attr.startswith("__") or attr in ("_isa_", "_kind_"):
            raise AttributeError(attr)
        raise Raised("AttributeError", ast.Constant(value=attr))


class AGrammar(Abstract):
    def __init__(self, m: Matcher):
        self.m = m

    def parse(self, text: Any) -> Any:
        if not isinstance(text, str):
            raise Unfoldable("the grammar is applied to a non-text value")
        try:
            return self.m.parse(text)
        except ParseFailure as ex:
            r = Raised("ParseError", ast.Constant(value=None))
            r.exc = AParseError(ex.line(), ex.column())  # type: ignore
            raise r


class AFile(Abstract):
    def __init__(self, text: str):
        self._text = text

    def read(self, *a: Any) -> str:
        return self._text

    def __enter__(self) -> "AFile":
        return self

    def __exit__(self, *a: Any) -> None:
        return None

    def close(self) -> None:
        return None


def deep_call(fn: Any) -> Any:
    """run fn() on a thread with a large stack: one frame of evaluated code costs about a dozen frames of the evaluator, and
    the repository's length-set algebra nests one level per field"""
    import sys
    import threading

    box: Dict[str, Any] = {}

    def work() -> None:
        try:
            box["value"] = fn()
        except BaseException as ex:  # handed to the caller's thread
            box["error"] = ex

    from .. import fold as _fold

    old_limit = sys.getrecursionlimit()
    old_size = threading.stack_size()
    old_depth = _fold.MAX_DEPTH[0]
    try:
        _fold.MAX_DEPTH[0] = 20000
        threading.stack_size(1 << 30)
        sys.setrecursionlimit(400000)
        t = threading.Thread(target=work, daemon=True)
        t.start()
        t.join()
    finally:
        threading.stack_size(old_size)
        sys.setrecursionlimit(old_limit)
        _fold.MAX_DEPTH[0] = old_depth
    if "error" in box:
        raise box["error"]
    return box.get("value")


def universal_newlines(s: str) -> str:
    return s.replace("\r\n", "\n").replace("\r", "\n")


_SHARED: Dict[str, Any] = {}


def _shared_job(i: int) -> Dict[str, Any]:
    try:
        return _SHARED["fe"].job(_SHARED["jobs"][i])
    except AnalysisError as ex:
        return {"analysis_error": str(ex)}
    except Exception as ex:  # whatever it is, it must reach the parent as text (not every exception object can be pickled)
        import traceback

        return {"analysis_error": "evaluation failed: %r\n%s" % (ex, traceback.format_exc()[-1500:])}


class FrontEnd:
    def __init__(self, ctx: Ctx):
        self.ctx = ctx
        self.repo = ctx.repo
        self.matcher = Matcher(Grammar.load(ctx.repo))
        self.pt = ctx.cls(PT)
        self._handlers: Dict[str, Any] = {}
        self.opened: List[str] = []
        self.contents: Dict[str, str] = {}
        mod = ctx.repo.module("_namespace")
        self.hook = path_hook(ctor_hook(ctx, module_call_hook(ctx, mod, [], [], record=[], base_hook=self._base_hook)))
        self.hook.calls_only = True  # each of the four layers looks at ast.Call nodes only

    # ------------------------------------------------------------------ what is provided from outside the repository
    def _base_hook(self, e: ast.expr, f: Folder) -> Any:
        if not isinstance(e, ast.Call):
            return NotImplemented
        name = dotted(e.func) or ""
        last = name.split(".")[-1]
        if name == "open" and e.args and "open" not in f.env:
            p = f.fold(e.args[0])
            return self._open(str(p), e, f)
        if isinstance(e.func, ast.Attribute) and e.func.attr in ("read_text", "open") and not e.args:
            try:
                recv = f.fold(e.func.value)
            except Unfoldable:
                return NotImplemented
            if isinstance(recv, APath):
                fo = self._open(str(recv.resolve()), e, f)
                return fo.read() if e.func.attr == "read_text" else fo
        if last == "_get_grammar" and name.split(".")[0] not in f.env:
            return AGrammar(self.matcher)
        if name in ("parsimonious.Grammar", "Grammar") and name.split(".")[0] not in f.env:
            return AGrammar(self.matcher)
        if isinstance(e.func, ast.Attribute) and e.func.attr == "visit" and len(e.args) == 1 and not e.keywords:
            try:
                recv = f.fold(e.func.value)
            except Unfoldable:
                return NotImplemented
            if isinstance(recv, AObj) and self.repo.lookup_method(recv._cls_, "visit") is None and any(getattr(b, "dotted", "").endswith("NodeVisitor") for b in self.repo.mro(recv._cls_) if not isinstance(b, ClassInfo)):
                node = f.fold(e.args[0])
                if isinstance(node, PNode):
                    return self.visit_tree(recv, node, f)
        return NotImplemented

    def _open(self, path: str, e: ast.AST, f: Optional[Folder] = None) -> AFile:
        self.opened.append(path)
        if path not in self.contents:
            raise Raised("FileNotFoundError", e)
        # text mode with universal newlines, as `open(path)` / `Path.read_text()` do - unless the call asks otherwise
        if isinstance(e, ast.Call) and f is not None:
            for k in e.keywords:
                if k.arg == "newline" and f.fold(k.value) is not None:
                    return AFile(self.contents[path])
                if k.arg == "mode" and "b" in str(f.fold(k.value)):
                    raise Unfoldable("the definition is opened in binary mode")
        return AFile(universal_newlines(self.contents[path]))

    # ------------------------------------------------------------------ parsimonious.NodeVisitor.visit
    def visit_tree(self, me: AObj, node: PNode, f: Folder) -> Any:
        kids = [self.visit_tree(me, c, f) for c in node.children]
        try:
            return self._visit_one(me, node.expr_name, node, kids, f)
        except Raised as r:
            if r.cls_name in ("VisitationError",) or self._unwrapped(me, r.cls_name, f):
                raise
            w = Raised("VisitationError", r.node)
            ex = AExc("VisitationError")
            ex.__dict__["original_class"] = AExcClass(r.cls_name)
            ex.__dict__["wrapped"] = r.cls_name
            w.exc = ex  # type: ignore
            w.wrapped = r.cls_name  # type: ignore
            raise w

    def _unwrapped(self, me: AObj, cls_name: str, f: Folder) -> bool:
        v = self.repo.lookup_class_attr(me._cls_, "unwrapped_exceptions")
        names: List[str] = []
        if isinstance(v, (ast.Tuple, ast.List)):
            for el in v.elts:
                try:
                    r = self.repo.resolve_expr(me._cls_.module, el, me._cls_)
                except Exception:
                    r = None
                if isinstance(r, ClassInfo):
                    names.append(r.qualname)
                else:
                    names.append("ext:" + (dotted(el) or "?").split(".")[-1])
        k = next((c for c in self.repo.all_classes().values() if c.name == cls_name), None)
        for nm in names:
            if nm.startswith("ext:"):
                if nm[4:] == cls_name:
                    return True
            elif k is not None and any(getattr(b, "qualname", None) == nm for b in self.repo.mro(k)):
                return True
        return False

    def _visit_one(self, me: AObj, rule: str, node: PNode, children: List[Any], f: Folder) -> Any:
        repo, pt = self.repo, me._cls_
        name = "visit_" + rule
        folder = Folder({"self": me}, repo, pt.module, pt, f.hook)
        folder.depth = 0
        fn = repo.lookup_method(pt, name) if rule else None
        if fn is None:
            v = repo.lookup_class_attr(pt, name) if rule else None
            if v is None:
                g = repo.lookup_method(pt, "generic_visit")
                if g is None:
                    raise AnalysisError("no visitor for %s and no generic_visit" % rule)
                return _BoundMethod(me, g).call(folder, [node, children], {})
            if isinstance(v, ast.Name) and repo.lookup_method(pt, v.id) is not None:
                fn = repo.lookup_method(pt, v.id)
            elif (dotted(v) or "").endswith("NodeVisitor.lift_child"):
                if len(children) != 1:
                    raise Raised("ValueError", v)
                return children[0]
            else:
                key = norm(v)
                if key not in self._handlers:
                    try:
                        self._handlers[key] = Folder({}, repo, pt.module, pt, f.hook).fold(v)
                    except Unfoldable as ex:
                        raise AnalysisError("cannot evaluate the handler %s = %s: %s" % (name, key, ex))
                return call_value(folder, self._handlers[key], [me, node, children])
        return _BoundMethod(me, fn).call(folder, [node, children], {})

    # ------------------------------------------------------------------ running an entry point
    def run(self, files: Dict[str, str], entry: str = "read_namespace", args: Optional[List[Any]] = None, kwargs: Optional[Dict[str, Any]] = None, cwd: Optional[str] = None) -> Dict[str, Any]:
        """files: absolute path -> text.  Default call: read_namespace(<first directory of the first file>, [])"""
        fn = self.ctx.func("_namespace." + entry)
        saved = (list(APath.FS), APath.CWD, APath.STRICT)
        APath.FS = list(files)
        self.contents = dict(files)
        self.opened = []
        # (always with a working directory: the abstract file system then answers exists / is_dir / listings from the files
        # given, and paths are normalised the way the operating system reads them)
        APath.CWD, APath.STRICT = (cwd if cwd is not None else "/nowhere"), True
        if args is None:
            first = next(iter(files))
            root = "/" + "/".join(first.strip("/").split("/")[:2])
            args = [APath(root), []]
        out: Dict[str, Any] = {"raised": None, "path": None, "line": None, "result": None, "text": None}
        from .. import fold as _fold

        del _fold.INT_STR_LIMIT_HITS[:]
        from .. import absint as _absint

        _absint.EVAL_MESSAGES.append(True)
        _absint.CHECK_ASSERTS.append(True)  # assert statements run, as they do in the program (one that cannot be evaluated is skipped)
        try:
            out["result"] = deep_call(lambda: call_fn(self.ctx, fn, args, kwargs or {}, hook=self.hook, keep=tuple(fn.module.functions)))
        except Raised as r:
            out["raised"] = r.cls_name
            exc = getattr(r, "exc", None)
            if exc is not None:
                for a in ("path", "line", "text"):
                    try:
                        v = exc.__dict__.get(a) if a in getattr(exc, "__dict__", {}) else (self._prop(exc, a) if isinstance(exc, AObj) else getattr(exc, a, None))
                    except Exception:
                        v = None
                    out[a] = str(v) if (a == "path" and v is not None) else v
            if getattr(r, "wrapped", None):
                out["wrapped"] = r.wrapped  # type: ignore
        except Unfoldable as ex:
            if type(ex).__name__ == "TooLarge" or str(ex) in ("step limit", "loop bound"):
                # the evaluated code walks a collection whose size follows a numeric parameter of the definitions (a length
                # set expanded element by element): reported to the rule, which decides what that means
                out["too_large"] = str(ex)
                out["raised"] = "<enumeration>"
            else:
                raise AnalysisError("%s: the front end cannot be evaluated over these texts: %s" % (fn.short, ex))
        finally:
            APath.FS, APath.CWD, APath.STRICT = saved
            _absint.EVAL_MESSAGES.pop()
            _absint.CHECK_ASSERTS.pop()
        if _fold.INT_STR_LIMIT_HITS:
            out["int_str_limit"] = list(_fold.INT_STR_LIMIT_HITS)
        return out

    # ------------------------------------------------------------------ digests
    def _prop(self, o: Any, name: str) -> Any:
        f = Folder({"o": o}, self.repo, o._cls_.module, None, self.hook)
        return f.fold(ast.parse("o." + name, mode="eval").body)

    def _text(self, o: Any) -> str:
        f = Folder({"o": o}, self.repo, o._cls_.module, None, self.hook)
        return f.fold(ast.parse("str(o)", mode="eval").body)

    def value_digest(self, v: Any) -> Any:
        if isinstance(v, AObj):
            k = v._cls_.name
            if k in ("Rational", "Boolean", "String"):
                return (k, self._prop(v, "native_value"))
            if k == "Set":
                return (k, tuple(sorted((self.value_digest(x) for x in self._prop(v, "_value") if True), key=repr)) if "_value" in v.__dict__ else self._text(v))
            return (k, self._text(v))
        return v

    def type_digest(self, dt: Any) -> Dict[str, Any]:
        """the structure of an attribute's type through its public properties (not its text)"""
        k = dt._cls_.name
        d: Dict[str, Any] = {"kind": k}
        names = {m for c in self.repo.mro(dt._cls_) if isinstance(c, ClassInfo) for m in c.methods}
        if "capacity" in names and "element_type" in names:
            d["capacity"] = self._prop(dt, "capacity")
            d["element"] = self.type_digest(self._prop(dt, "element_type"))
        elif "cast_mode" in names:
            d["bits"] = self._prop(dt, "bit_length")
            f = Folder({"o": dt}, self.repo, dt._cls_.module, None, self.hook)
            d["truncated"] = f.fold(ast.parse("o.cast_mode == o.CastMode.TRUNCATED", mode="eval").body)
            d["saturated"] = f.fold(ast.parse("o.cast_mode == o.CastMode.SATURATED", mode="eval").body)
        elif "full_name" in names:
            d["full_name"] = self._prop(dt, "full_name")
            d["version"] = tuple(self._prop(dt, "version"))
            if getattr(self, "deep", False):
                d["nested"] = self.digest(dt)  # the referenced composite as it stands inside the referrer
        elif "bit_length" in names:
            d["bits"] = self._prop(dt, "bit_length")
        return d

    def digest(self, t: Any) -> Dict[str, Any]:
        """everything the property statements mention about a composite, as plain values"""
        d: Dict[str, Any] = {"kind": t._cls_.name, "text": self._text(t)}
        for a in ("full_name", "deprecated", "fixed_port_id", "has_parent_service"):
            try:
                d[a] = self._prop(t, a)
            except (Unfoldable, Raised):
                d[a] = "?"
        try:
            d["version"] = tuple(self._prop(t, "version"))
        except (Unfoldable, Raised):
            d["version"] = "?"
        try:
            d["source_file_path"] = str(self._prop(t, "source_file_path"))
        except (Unfoldable, Raised):
            d["source_file_path"] = "?"
        try:
            d["root_path"] = str(self._prop(t, "source_file_path_to_root"))
        except (Unfoldable, Raised):
            d["root_path"] = "?"
        try:
            d["doc"] = self._prop(t, "doc")
        except (Unfoldable, Raised):
            d["doc"] = "?"
        if t._cls_.name == "ServiceType":
            d["request"] = self.digest(self._prop(t, "request_type"))
            d["response"] = self.digest(self._prop(t, "response_type"))
            return d
        if t._cls_.name == "DelimitedType":
            d["inner"] = self.digest(self._prop(t, "inner_type"))
        attrs = []
        for a in self._prop(t, "attributes"):
            dt = self._prop(a, "data_type")
            row: Dict[str, Any] = {"kind": a._cls_.name, "type": self._text(dt), "shape": self.type_digest(dt), "name": self._prop(a, "name"), "doc": self._prop(a, "doc"), "text": self._text(a)}
            if a._cls_.name == "Constant":
                row["value"] = self.value_digest(self._prop(a, "value"))
            attrs.append(row)
        d["attributes"] = attrs
        d["field_rows"] = [r for r in attrs if r["kind"] != "Constant"]
        d["constant_rows"] = [r for r in attrs if r["kind"] == "Constant"]
        d["fields"] = [self._prop(a, "name") for a in self._prop(t, "fields")]
        d["constants"] = [self._prop(a, "name") for a in self._prop(t, "constants")]
        try:
            bls = self._prop(t, "bit_length_set")
            d["min"], d["max"] = self._prop(bls, "min"), self._prop(bls, "max")
            if getattr(self, "expand", False) and d["max"] - d["min"] <= 4096:
                fx = Folder({"o": t}, self.repo, t._cls_.module, None, self.hook)
                d["lengths"] = sorted(fx.fold(ast.parse("set(o.bit_length_set)", mode="eval").body))
            d["extent"] = self._prop(t, "extent")
            d["alignment"] = self._prop(t, "alignment_requirement")
        except (Unfoldable, Raised) as ex:
            d["layout"] = "? %s" % ex
        return d

    def read(self, files: Dict[str, str], **kw: Any) -> Dict[str, Any]:
        """run + digests of the returned composites"""
        out = self.run(files, **kw)
        try:
            deep_call(lambda: self._digests(out))
        except Raised as r:
            # the model was built but cannot be described (its own str() raises, e.g. for a value beyond the 4300-digit limit)
            out["digest_error"] = r.cls_name
            out.pop("types", None)
        return out

    # ------------------------------------------------------------------ many independent reads, on several cores
    def job(self, j: Dict[str, Any]) -> Dict[str, Any]:
        try:
            return self._job(j)
        finally:
            if not j.get("_continued"):
                # ... and the process ends with the job: nothing it left in module-level objects is there for whoever evaluates
                # next in this (real) process - another job, or a rule of another kind
                _fold_mod.PROCESS_STATE.clear()

    def _job(self, j: Dict[str, Any]) -> Dict[str, Any]:
        """one read described by plain values: files, entry, root (read_namespace) / targets + lookup (read_files), kwargs,
        handler (a recording print handler is passed), cwd; answers with plain values (no instances)"""
        from ..absint import Recorder

        if not j.get("_continued"):
            _fold_mod.PROCESS_STATE.clear()  # every job is a process of its own ...
        for earlier in j.get("history", []):
            # ... in which earlier calls may have been made: their outcome is not looked at, what they leave behind is there
            self.job(dict(earlier, _continued=True))
        self.deep = bool(j.get("deep"))
        self.expand = bool(j.get("expand"))
        h = Recorder("print") if j.get("handler") else None
        if j.get("handler") == "falsy":

            class FalsyRecorder(Recorder):
                """a callable whose truth value is False (like a callable collection that is still empty)"""

                def __bool__(self) -> bool:
                    return False

                def __len__(self) -> int:
                    return 0

            h = FalsyRecorder("print")
        entry = j.get("entry", "read_namespace")
        if entry == "read_namespace":
            args: List[Any] = [APath(j["root"]), [APath(x) for x in j.get("lookup", [])]]
        else:
            as_p = lambda x: APath(x) if j.get("as_paths", True) else x  # noqa: E731
            args = [[as_p(x) for x in j["targets"]], [as_p(x) for x in j.get("roots", [])], [as_p(x) for x in j.get("lookup", [])]]
        if h is not None:
            args.append(h)
        out = self.read(j["files"], entry=entry, args=args, kwargs=dict(j.get("kwargs", {})), cwd=j.get("cwd"))
        out.pop("result", None)
        out["opened"] = list(self.opened)
        if h is not None:
            out["prints"] = [(str(a[0]), a[1], self.value_digest(a[2]) if len(a) > 2 else None) for _, a, _ in h.log]
        return out

    def read_many(self, jobs: List[Dict[str, Any]]) -> List[Dict[str, Any]]:
        import os

        n = int(os.environ.get("SA_INNER_JOBS", "0") or 0) or min(16, os.cpu_count() or 2)
        if n <= 1 or len(jobs) < 2:
            return [self.job(j) for j in jobs]
        import multiprocessing
        from concurrent.futures import ProcessPoolExecutor

        _SHARED["fe"], _SHARED["jobs"] = self, jobs
        try:
            # forked workers inherit the parsed repository and this front end; nothing is pickled on the way in
            with ProcessPoolExecutor(max_workers=min(n, len(jobs)), mp_context=multiprocessing.get_context("fork")) as ex:
                outs = list(ex.map(_shared_job, range(len(jobs))))
            for o in outs:
                if "analysis_error" in o:
                    raise AnalysisError(o["analysis_error"])
            return outs
        finally:
            _SHARED.clear()

    def _digests(self, out: Dict[str, Any]) -> Dict[str, Any]:
        r = out["result"]
        if r is not None:
            seq = r if isinstance(r, (list, tuple)) and not (len(r) == 2 and isinstance(r[0], list)) else r
            if isinstance(seq, tuple) and len(seq) == 2 and isinstance(seq[0], list):
                out["direct"] = [self.digest(t) for t in seq[0]]
                out["transitive"] = [self.digest(t) for t in seq[1]]
            else:
                out["types"] = [self.digest(t) for t in seq]
        return out
