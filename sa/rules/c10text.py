"""
C10, text level (R10/R11): directory trees of small definitions are read end to end by the repository's front end (evaluated
from the source).

R10  read_namespace returns exactly one composite per definition file (.dsdl and .uavcan) under the root - none from the
     lookup directories - sorted by full name, then major, then minor version, newest first; read_files returns the requested
     files as direct and the rest of their closure as transitive, both sorted that way, with the types read_namespace yields;
     the result does not depend on order, duplication or spelling (absolute / relative) of the directory arguments
R11  a set of root / lookup directories is rejected exactly when one lies inside another or - name collisions disallowed -
     two distinct ones have the same name ignoring case; the verdict of a call does not depend on earlier calls in the same
     process (a permissive call first, a strict call first)
"""
from __future__ import annotations

from typing import Any, Dict, List, Optional, Tuple

from ..core import AnalysisError, Ctx
from . import textworld as T
from .c03text import front_end
from .c04text import is_invalid_definition

TXT = "uint8 a\n@sealed\n"
W, L1, L2 = "/w/ns", "/l/one/lib", "/l/two/other"
FILES = {
    W + "/Zeta.1.0.dsdl": "lib.Dep.1.0 d\n@sealed\n",
    W + "/Alpha.1.0.dsdl": TXT,
    W + "/Alpha.1.1.dsdl": TXT,
    W + "/Alpha.2.0.dsdl": TXT,
    W + "/Alpha.0.9.dsdl": TXT,
    W + "/beta/Gamma.1.0.uavcan": TXT,
    W + "/beta/Gamma.1.2.dsdl": "ns.Alpha.2.0 a\n@sealed\n",
    W + "/beta/delta/Eps.255.255.dsdl": TXT,
    W + "/B.1.0.dsdl": TXT,
    W + "/b2/A.1.0.dsdl": TXT,
    L1 + "/Dep.1.0.dsdl": "other.Leaf.3.1 l\n@sealed\n",
    L1 + "/Unused.1.0.dsdl": TXT,
    L2 + "/Leaf.3.1.dsdl": TXT,
    L2 + "/Leaf.3.0.dsdl": TXT,
}


def _key(d: Dict[str, Any]) -> Tuple[str, int, int]:
    return (d["full_name"], -d["version"][0], -d["version"][1])


def _names(ds: List[Dict[str, Any]]) -> List[str]:
    return ["%s.%d.%d" % (d["full_name"], d["version"][0], d["version"][1]) for d in ds]


def rule_r10_trees(ctx: Ctx) -> None:
    ctx.rule("C10.R10", "a directory tree read end to end by the evaluated front end: read_namespace returns one composite per definition file under the root (.dsdl and .uavcan, none from lookup directories) sorted by name, then version newest first; read_files returns the requested files as direct and the rest of the closure as transitive, sorted alike, equal to the types read_namespace yields; neither depends on order, duplication or spelling of the directory arguments", min_instances=4)
    fe = front_end(ctx)
    kw: Dict[str, Any] = {}
    under_root = sorted(k for k in FILES if k.startswith(W + "/"))
    jobs = [
        dict(files=FILES, root=W, lookup=[L1, L2], kwargs=kw),
        dict(files=FILES, root=W, lookup=[L2, L1, L2, W, L1], kwargs=kw),
        dict(files=FILES, root="ns", lookup=["../l/one/lib", L2], kwargs=kw, cwd="/w"),
        dict(files=FILES, root=W + "/../ns/./", lookup=[L1 + "/", L2], kwargs=kw),
        dict(files=FILES, entry="read_files", targets=[W + "/Zeta.1.0.dsdl", W + "/beta/Gamma.1.2.dsdl"], roots=[W], lookup=[L1, L2], kwargs=kw),
        dict(files=FILES, entry="read_files", targets=[W + "/beta/Gamma.1.2.dsdl", W + "/Zeta.1.0.dsdl", W + "/Zeta.1.0.dsdl"], roots=[W], lookup=[L2, L1], kwargs=kw),
        dict(files=FILES, entry="read_files", targets=["ns/Zeta.1.0.dsdl", "ns/beta/Gamma.1.2.dsdl"], roots=["ns"], lookup=["../l/one/lib", L2], kwargs=kw, cwd="/w", as_paths=False),
    ]
    outs = fe.read_many(jobs)
    ctx.count(len(jobs) * len(FILES))
    where = "pydsdl/_namespace.py"
    labels = ["roots and lookups as absolute paths", "lookups repeated, reordered, the root among them", "relative spellings from a working directory", "spellings with dot segments and trailing separators"]
    ref: Optional[List[Dict[str, Any]]] = None
    for label, o in zip(labels, outs[:4]):
        if o["raised"] is not None:
            ctx.fail("read_namespace: %s" % label, "accepted", "a valid tree is rejected: %s at %s" % (o["raised"], o["path"]), where=where)
            continue
        got = o.get("types") or []
        bad = []
        files = sorted(d["source_file_path"] for d in got)
        # relative spellings resolve against the working directory
        if files != under_root:
            bad.append("one composite per file under the root: got %s, the root holds %s" % (files, under_root))
        if [_key(d) for d in got] != sorted(_key(d) for d in got):
            bad.append("order: %s" % _names(got))
        if ref is None:
            ref = got
        elif T.strip_docs(got) != T.strip_docs(ref):
            bad.append("the result differs from the one for plain absolute arguments: %s vs %s" % (_names(got), _names(ref)))
        ctx.check(not bad, "read_namespace: %s" % label, "%d files under the root, %d in lookup directories" % (len(under_root), len(FILES) - len(under_root)), "; ".join(bad)[:600], where, bad[:4])
    by_name = {(d["full_name"], tuple(d["version"])): d for d in (ref or [])}
    rlabels = ["targets and directories as absolute paths", "targets reordered and repeated, lookups reordered", "relative spellings and a bare root name"]
    for label, o in zip(rlabels, outs[4:]):
        if o["raised"] is not None:
            ctx.fail("read_files: %s" % label, "accepted", "valid targets are rejected: %s at %s" % (o["raised"], o["path"]), where=where)
            continue
        direct, trans = o.get("direct") or [], o.get("transitive") or []
        bad = []
        if _names(direct) != ["ns.Zeta.1.0", "ns.beta.Gamma.1.2"]:
            bad.append("direct: %s" % _names(direct))
        if _names(trans) != ["lib.Dep.1.0", "ns.Alpha.2.0", "other.Leaf.3.1"]:
            bad.append("transitive: %s" % _names(trans))
        for d in direct + trans:
            same = by_name.get((d["full_name"], tuple(d["version"])))
            if same is not None and T.strip_docs(same) != T.strip_docs(d):
                bad.append("%s differs from what read_namespace yields for the same file" % d["text"])
        ctx.check(not bad, "read_files: %s" % label, "2 targets, 3 more in the closure", "; ".join(bad)[:600], where, bad[:4])


# (label, root, lookups, rejected when collisions are disallowed, rejected when they are allowed)
DIRSETS: List[Tuple[str, str, List[str], bool, bool]] = [
    ("distinct names", "/w/ns", ["/l/lib", "/l/other"], False, False),
    ("the root repeated among the lookups", "/w/ns", ["/w/ns", "/l/lib", "/l/lib"], False, False),
    ("two directories of one name", "/w/ns", ["/elsewhere/ns"], True, False),
    ("two directories whose names differ in case", "/w/ns", ["/elsewhere/NS"], True, False),
    ("two lookups of one name, differing in case", "/w/ns", ["/l/lib", "/m/Lib"], True, False),
    ("a lookup inside the root", "/w/ns", ["/w/ns/sub"], True, True),
    ("the root inside a lookup", "/w/ns/sub", ["/w/ns"], True, True),
    ("a lookup inside another lookup", "/w/ns", ["/l/lib", "/l/lib/deeper/x"], True, True),
    ("a sibling whose name starts like the root's", "/w/ns", ["/w/nsx", "/w/n"], False, False),
]


def rule_r11_directory_sets(ctx: Ctx) -> None:
    ctx.rule("C10.R11", "a set of root / lookup directories is rejected with an InvalidDefinitionError exactly when one lies inside another or - collisions disallowed - two distinct ones have the same name ignoring case; the verdict of a call does not depend on earlier calls in the same process", min_instances=3)
    fe = front_end(ctx)

    def files_for(root: str, lookups: List[str]) -> Dict[str, str]:
        out = {root + "/T.1.0.dsdl": TXT}
        for i, l in enumerate(lookups):
            out[l + "/L%d.1.0.dsdl" % i] = TXT
        return out

    def job(root: str, lookups: List[str], allow: Optional[bool], history: Optional[List[Dict[str, Any]]] = None) -> Dict[str, Any]:
        kw = {} if allow is None else {"allow_root_namespace_name_collision": allow}
        j = dict(files=files_for(root, lookups), root=root, lookup=lookups, kwargs=kw)
        if history:
            j["history"] = history
        return j

    plan: List[Tuple[str, bool, Dict[str, Any]]] = []
    for label, root, lookups, strict_rej, lax_rej in DIRSETS:
        plan.append(("%s, collisions disallowed" % label, strict_rej, job(root, lookups, False)))
        plan.append(("%s, collisions allowed" % label, lax_rej, job(root, lookups, True)))
        plan.append(("%s, by default" % label, lax_rej, job(root, lookups, None)))
        # the same strict call after a permissive one over the same directories, and the other way round
        plan.append(("%s, collisions disallowed, after a call that allowed them" % label, strict_rej, job(root, lookups, False, [job(root, lookups, True)])))
        plan.append(("%s, collisions disallowed, after a default call" % label, strict_rej, job(root, lookups, False, [job(root, lookups, None)])))
        plan.append(("%s, collisions allowed, after a call that disallowed them" % label, lax_rej, job(root, lookups, True, [job(root, lookups, False)])))
    outs = fe.read_many([p[2] for p in plan])
    ctx.count(len(plan))
    accepted = [l for (l, rej, _), o in zip(plan, outs) if rej and o["raised"] is None]
    rejected = ["%s -> %s" % (l, o["raised"]) for (l, rej, _), o in zip(plan, outs) if not rej and o["raised"] is not None]
    wrong = ["%s -> %s" % (l, o["raised"]) for (l, rej, _), o in zip(plan, outs) if rej and o["raised"] is not None and not is_invalid_definition(ctx, o["raised"])]
    where = "pydsdl/_namespace.py"
    ctx.check(not accepted, "directory sets that must be rejected", "%d calls" % sum(1 for p in plan if p[1]), "a set of directories in which one lies inside another / two share a name is accepted: %s" % "; ".join(accepted[:4]), where, accepted[:8])
    ctx.check(not rejected, "directory sets that must be accepted", "%d calls" % sum(1 for p in plan if not p[1]), "a legitimate set of directories is rejected: %s" % "; ".join(rejected[:4]), where, rejected[:8])
    ctx.check(not wrong, "directory sets that must be rejected", "the rejections are InvalidDefinitionErrors", "; ".join(wrong[:4]), where, wrong[:8])


def run(ctx: Ctx) -> None:
    ctx.attempt(rule_r10_trees, ctx)
    ctx.attempt(rule_r11_directory_sets, ctx)
