"""
C16 -- Layout analysis is symbolic: cost does not grow with capacities or extents.

A who-may-call / reachability property (wall-clock is not measured):

R1  numerical-expansion sinks (Operator.expand overrides, BitLengthSet.__iter__/__len__, validate_numerically and every
    implicit iteration of a value of kind BitLengthSet) occur only in the allow-listed functions - the documented slow
    methods themselves and the two DSDL intrinsics that are specified to expand (`_offset_`, `_bit_length_`).
R2  no call-graph path from model construction / layout queries / equality / hash / namespace checks to a sink.
R3  analytic queries never expand: min/max/modulo of every operator never reference `expand`; min/max never call modulo.
R4  enumeration inside `modulo` is bounded by the divisor (count reduction present; enumerated collections are residue sets).
R5  aggregation in the type model is pairwise (no n-ary concatenation over all fields).
"""
from __future__ import annotations

import ast
from typing import Any, Dict, List, Optional, Set

from ..callgraph import CallGraph
from ..core import AnalysisError, ClassInfo, Ctx, FuncInfo, calls_in, dotted, norm, walk_no_nested

SYM = "_bit_length_set._symbolic"
BLS = "_bit_length_set._bit_length_set.BitLengthSet"

# functions that are *allowed* to contain an expansion site, each with its reason
ALLOW = {
    "BitLengthSet.__iter__": "documented slow method",
    "BitLengthSet.__len__": "documented slow method",
    "validate_numerically": "self-check that only runs after an expansion already happened",
    "MemoizationOperator.expand": "the cache in front of the expansion itself",
}
# ... and, by *role*, the code that evaluates the two in-language intrinsics which are specified to yield the expanded set:
# a site that only runs when an identifier / attribute name has been compared equal to one of these literals (in the same
# function, or in every function that calls the one the site is in)
INTRINSICS = ("_offset_", "_bit_length_")


def _mentions_intrinsic(test: ast.AST) -> Optional[bool]:
    """True: the test holds only for an intrinsic name; False: it holds only for other names; None: unrelated"""
    if isinstance(test, ast.UnaryOp) and isinstance(test.op, ast.Not):
        r = _mentions_intrinsic(test.operand)
        return None if r is None else not r
    if isinstance(test, ast.Compare) and len(test.ops) == 1:
        sides = [test.left, test.comparators[0]]
        lits = [x for x in sides if isinstance(x, ast.Constant) and x.value in INTRINSICS]
        names = [x for x in sides if isinstance(x, (ast.Name, ast.Attribute)) and (dotted(x) or "").split(".")[-1].isupper()]
        if lits or names:
            if isinstance(test.ops[0], (ast.Eq, ast.Is)):
                return True
            if isinstance(test.ops[0], (ast.NotEq, ast.IsNot)):
                return False
        if isinstance(test.ops[0], ast.In) and isinstance(test.comparators[0], (ast.Tuple, ast.List, ast.Set)) and all(isinstance(x, ast.Constant) and x.value in INTRINSICS for x in test.comparators[0].elts):
            return True
    if isinstance(test, ast.BoolOp) and isinstance(test.op, ast.And):
        rs = [_mentions_intrinsic(v) for v in test.values]
        return True if any(r is True for r in rs) else None
    return None


def _intrinsic_guarded(ctx: Ctx, fn: FuncInfo, node: ast.AST) -> bool:
    from ..core import parents_map

    consts = {n for n, v in list(fn.module.assigns.items()) + (list(fn.cls.assigns.items()) if fn.cls is not None else []) if isinstance(v, ast.Constant) and v.value in INTRINSICS}

    def verdict(test: ast.AST) -> Optional[bool]:
        r = _mentions_intrinsic(test)
        if r is not None and isinstance(test, ast.Compare):
            sides = [test.left, test.comparators[0]]
            if not any(isinstance(x, ast.Constant) and x.value in INTRINSICS for x in sides) and not any((dotted(x) or "").split(".")[-1] in consts for x in sides if isinstance(x, (ast.Name, ast.Attribute))):
                return None
        return r

    pm = parents_map(fn.node)
    cur: ast.AST = node
    while cur in pm:
        par = pm[cur]
        if isinstance(par, ast.If):
            in_body = any(cur is x for x in par.body)
            in_else = any(cur is x for x in par.orelse)
            v = verdict(par.test)
            if (v is True and in_body) or (v is False and in_else):
                return True
        if isinstance(par, ast.IfExp):
            v = verdict(par.test)
            if (v is True and cur is par.body) or (v is False and cur is par.orelse):
                return True
        cur = par
    # a guard clause above the site: `if name != "_offset_": raise / return ...`
    line = getattr(node, "lineno", 0) or min((getattr(x, "lineno", 0) for x in ast.walk(node) if getattr(x, "lineno", 0)), default=0)  # ast.comprehension carries no position
    for st in ast.walk(fn.node):
        if isinstance(st, ast.If) and st.lineno < line and st.body and isinstance(st.body[-1], (ast.Raise, ast.Return, ast.Continue)) and not st.orelse and verdict(st.test) is False:
            return True
    return False


def _short(q: str) -> str:
    parts = q.split(".")
    return ".".join(parts[-2:]) if len(parts) >= 2 and parts[-2][:1].isupper() else parts[-1]


def sinks_of(ctx: Ctx) -> Set[str]:
    repo = ctx.repo
    op = ctx.cls(SYM + ".Operator")
    out = set()
    for c in repo.subclasses(op):
        if "expand" in c.methods:
            out.add(c.methods["expand"].qualname)
    b = ctx.cls(BLS)
    for m in ("__iter__", "__len__"):
        if m not in b.methods:
            raise AnalysisError("anchor BitLengthSet.%s missing" % m)
        out.add(b.methods[m].qualname)
    out.add(ctx.func(SYM + ".validate_numerically").qualname)
    return out


def rule_r1(ctx: Ctx, g: CallGraph, sinks: Set[str]) -> None:
    ctx.rule("C16.R1", "expansion sites are confined to the allow-list (slow methods, expand overrides, `_offset_` / `_bit_length_` intrinsics)", min_instances=6)
    holders: Dict[str, List[str]] = {}
    for q, sites in g.sites.items():
        for s in sites:
            hit = [c for c in s.callees if c in sinks]
            if hit and s.kind in ("call", "dunder", "ref"):
                names = sorted(_short(h) for h in hit)
                if sum(1 for x in names if x.endswith(".expand")) > 1:
                    names = ["Operator.expand(*)"] + [x for x in names if not x.endswith(".expand")]
                holders.setdefault(q, []).append("%s -> %s" % (norm(s.node)[:80], ",".join(names)))
    found_allowed = set()
    site_nodes: Dict[str, List[ast.AST]] = {}
    for q, sites in g.sites.items():
        for s_ in sites:
            if any(c in sinks for c in s_.callees) and s_.kind in ("call", "dunder", "ref"):
                site_nodes.setdefault(q, []).append(s_.node)
    callers: Dict[str, List[tuple]] = {}
    for q, sites in g.sites.items():
        for s_ in sites:
            for c in s_.callees:
                callers.setdefault(c, []).append((q, s_.node))

    def base_of(q: str) -> str:
        return q[len("<lambda> ") :].rsplit(":", 1)[0] if q.startswith("<lambda> ") else q

    def table_entry_for_intrinsic(q: str) -> bool:
        """q (a function or a lambda) is the value stored under an intrinsic's name in a literal table of its module / class,
        and is referred to nowhere else: it runs only when that name has been looked up"""
        fn_ = g.funcs.get(base_of(q))
        if fn_ is None:
            return False
        lam = g.lambdas[q][1] if q.startswith("<lambda> ") and q in g.lambdas else None
        tree = fn_.module.tree
        hits = 0
        for d in ast.walk(tree):
            if isinstance(d, ast.Dict):
                for k_, v_ in zip(d.keys, d.values):
                    is_me = (v_ is lam) if lam is not None else (isinstance(v_, ast.Name) and v_.id == fn_.name)
                    if is_me:
                        if not (isinstance(k_, ast.Constant) and k_.value in INTRINSICS):
                            return False
                        hits += 1
        if not hits:
            return False
        if lam is None:
            refs = sum(1 for x in ast.walk(tree) if isinstance(x, ast.Name) and x.id == fn_.name and isinstance(x.ctx, ast.Load)) + sum(1 for x in ast.walk(tree) if isinstance(x, ast.Attribute) and x.attr == fn_.name)
            return refs == hits
        return True

    def by_role(q: str, depth: int = 0) -> bool:
        """every expansion site of q runs only while an intrinsic is being evaluated"""
        fn = g.funcs.get(base_of(q))
        if fn is None or depth > 3:
            return False
        if table_entry_for_intrinsic(q):
            return True
        if all(_intrinsic_guarded(ctx, fn, n) for n in site_nodes.get(q, [])) and site_nodes.get(q):
            return True
        cs = callers.get(base_of(q), [])
        if not cs:
            return False
        for cq, cnode in cs:
            cfn = g.funcs.get(base_of(cq))
            if cfn is None:
                return False
            if not (_intrinsic_guarded(ctx, cfn, cnode) or (base_of(cq) != base_of(q) and by_role(cq, depth + 1) if cq in site_nodes else False) or _called_only_for_intrinsics(cq, depth + 1)):
                return False
        return True

    def _called_only_for_intrinsics(q: str, depth: int) -> bool:
        cs = callers.get(base_of(q), [])
        if not cs or depth > 3:
            return False
        for cq, cnode in cs:
            cfn = g.funcs.get(base_of(cq))
            if cfn is None or not (_intrinsic_guarded(ctx, cfn, cnode) or _called_only_for_intrinsics(cq, depth + 1)):
                return False
        return True

    def expansion_helper(q: str, depth: int) -> bool:
        """a private method of an operator class that is called from nowhere but the expansion path of the same hierarchy (an
        `expand` override, an allow-listed slow function, or another such helper): part of the expansion itself"""
        fn_ = g.funcs.get(q)
        if fn_ is None or fn_.cls is None or depth > 3 or not fn_.name.startswith("_") or fn_.name.startswith("__"):
            return False
        if not ctx.repo.is_subclass(fn_.cls, ctx.cls(SYM + ".Operator")):
            return False
        cs = callers.get(q, [])
        if not cs:
            return False
        for cq, _node in cs:
            cb = base_of(cq)
            cf = g.funcs.get(cb)
            if cf is None:
                return False
            if cf.name == "expand" and cf.cls is not None and ctx.repo.is_subclass(cf.cls, ctx.cls(SYM + ".Operator")):
                continue
            if _short(cb) in ALLOW or (cb != q and expansion_helper(cb, depth + 1)):
                continue
            return False
        return True

    n_role = 0
    for q, why in sorted(holders.items()):
        base = base_of(q)
        fn = g.funcs.get(base)
        short = _short(base)
        is_expand_override = fn is not None and fn.name == "expand" and fn.cls is not None and ctx.repo.is_subclass(fn.cls, ctx.cls(SYM + ".Operator"))
        allowed = short in ALLOW or is_expand_override or expansion_helper(base, 0)
        role = False
        if not allowed:
            role = by_role(q)
            allowed = role
            n_role += 1 if role else 0
        if allowed:
            found_allowed.add(short)
        ctx.check(allowed, base.replace("pydsdl.", ""), why[0] + (" [evaluates an intrinsic]" if role else ""), "numerical expansion of a bit length set outside the documented slow paths and the `_offset_` / `_bit_length_` intrinsics", fn.where() if fn else "", why[:3])
    # positive control: the analysis must see the expansion sites that are known to exist
    must_see = {"BitLengthSet.__iter__", "BitLengthSet.__len__", "validate_numerically"}
    missing = must_see - found_allowed
    if missing or n_role < 2:
        raise AnalysisError("positive control failed: expansion sites not detected in %s; %d site(s) recognised as intrinsic evaluation, expected at least the two intrinsics (kind inference broken?)" % (sorted(missing), n_role))
    ctx.sample({"rule": "C16.R1", "functions_with_expansion_sites": sorted(_short(q) for q in holders)})
    ctx.analysed["C16.R1.intrinsic_functions"] = sorted(base_of(q) for q in holders if _short(base_of(q)) not in ALLOW and by_role(q))


def rule_r2(ctx: Ctx, g: CallGraph, sinks: Set[str]) -> None:
    repo = ctx.repo
    ctx.rule("C16.R2", "no call-graph path from model constructors / layout queries / eq / hash / finalize / namespace checks to an expansion sink", min_instances=40)
    roots: List[str] = []
    ser = ctx.cls("_serializable._serializable.SerializableType")
    attr = ctx.cls("_serializable._attribute.Attribute")
    qnames = ("__init__", "bit_length_set", "extent", "alignment_requirement", "iterate_fields_with_offsets", "enumerate_elements_with_offsets", "__eq__", "__hash__", "aggregate_bit_length_sets", "_compute_tag_bit_length", "deprecated", "_check_aggregation", "__str__")
    for c in repo.subclasses(ser) + repo.subclasses(attr):
        for m in qnames:
            if m in c.methods:
                roots.append(c.methods[m].qualname)
    b = ctx.cls(BLS)
    for m in ("__init__", "min", "max", "fixed_length", "is_aligned_at", "is_aligned_at_byte", "__mod__", "__eq__", "__hash__", "pad_to_alignment", "repeat", "repeat_range", "concatenate", "unite", "__add__", "__radd__", "__or__", "__ror__", "__str__", "__bool__"):
        if m not in b.methods:
            raise AnalysisError("anchor BitLengthSet.%s missing" % m)
        roots.append(b.methods[m].qualname)
    op = ctx.cls(SYM + ".Operator")
    for c in repo.subclasses(op):
        for m in ("__init__", "min", "max", "modulo"):
            if m in c.methods:
                roots.append(c.methods[m].qualname)
    for f in ("_data_type_builder.DataTypeBuilder.finalize", "_namespace._ensure_no_fixed_port_id_collisions", "_namespace._ensure_minor_version_compatibility", "_namespace_reader.read_definitions"):
        roots.append(ctx.func(f).qualname)
    for q, fn_ in g.funcs.items():
        # their private helpers are roots in their own right (whatever they are called on this tree)
        if fn_.module.name in ("pydsdl._namespace_reader",) or (fn_.module.name == "pydsdl._namespace" and fn_.name.startswith("_ensure")) or (fn_.cls is not None and fn_.cls.name == "DataTypeBuilder" and fn_.name.startswith(("_make", "_finalize", "_build"))):
            if not fn_.name.startswith("_unittest"):
                roots.append(q)
    # the intrinsics are the only sanctioned bridge from definition text to a sink; the functions that evaluate them (found by
    # role in R1) are stop nodes
    stops = list(ctx.analysed.get("C16.R1.intrinsic_functions", []))
    if len(stops) < 2:
        raise AnalysisError("C16.R2: the functions that evaluate the intrinsics were not identified")
    # reading a definition (which may evaluate `_offset_`) is reached from the reader; the intrinsic stop nodes cut that bridge
    for r in sorted(set(roots)):
        pred = g.reachable([r], stop=stops)
        hit = sorted(s for s in sinks if s in pred)
        witness = None
        if hit:
            witness = [x.replace("pydsdl.", "") for x in g.path_to(pred, hit[0])]
        ctx.check(not hit, r.replace("pydsdl.", ""), "reaches no expansion sink", "a layout query / constructor / comparison must never trigger numerical expansion", "", witness, nontrivial=bool(g.edges.get(r)))
        ctx.count(len(pred))
    ctx.analysed["C16.R2.roots"] = len(set(roots))


def rule_r3(ctx: Ctx) -> None:
    repo = ctx.repo
    ctx.rule("C16.R3", "analytic operator queries never expand: min/max/modulo bodies do not reference `expand`; min/max do not call modulo", min_instances=18)
    op = ctx.cls(SYM + ".Operator")
    for c in repo.subclasses(op, strict=True):
        for m in ("min", "max", "modulo"):
            fn = c.methods.get(m)
            if fn is None:
                if repo.subclasses(c, strict=True) and (repo.lookup_method(c, m) is None or repo.lookup_method(c, m).is_abstract):  # type: ignore
                    continue  # an abstract intermediate class: judged through its concrete subclasses
                if repo.lookup_method(c, m) is None or repo.lookup_method(c, m).is_abstract:  # type: ignore
                    ctx.fail(c.short + "." + m, "missing", "operator lacks an analytic %s" % m, where=c.module.relpath)
                continue
            refs = sorted({n.attr for n in ast.walk(fn.node) if isinstance(n, ast.Attribute) and n.attr in ("expand", "modulo", "_expansion")} | {n.id for n in ast.walk(fn.node) if isinstance(n, ast.Name) and n.id in ("validate_numerically",)})
            bad = [r for r in refs if r in ("expand", "_expansion", "validate_numerically") or (r == "modulo" and m in ("min", "max"))]
            ctx.check(not bad, fn.short, "references: %s" % (refs or "-"), "analytic query must be derived from the children's analytic queries only", fn.where(), bad)


def rule_r4(ctx: Ctx) -> None:
    repo = ctx.repo
    ctx.rule("C16.R4", "enumeration inside RepetitionOperator/RangeRepetitionOperator.modulo uses a count reduced by the divisor and ranges over the child's residue set", min_instances=2)
    from ..linform import iteration_bounds, prove_count_reduction

    for cname, kattr in (("RepetitionOperator", None), ("RangeRepetitionOperator", None)):
        c = ctx.cls(SYM + "." + cname)
        fn = c.methods.get("modulo")
        if fn is None:
            raise AnalysisError("anchor %s.modulo missing" % cname)
        # every loop / enumeration whose trip count depends on the repetition count is bounded by the divisor
        its = iteration_bounds(c, fn, ctx.inl(fn))
        for it in its:
            ctx.check(it["bounded"], fn.short, "%s: count = %s" % (it["construct"], it["count"]), "the number of iterations / enumerated copies must be bounded by a function of the divisor (<= 4*divisor), not by the repetition count", "%s:%d" % (fn.module.relpath, it["line"]), it)
        ctx.check(True, fn.short, "%d count-dependent iteration construct(s)" % len(its), "scan completed", fn.where(), nontrivial=False)
        # where the multicombination enumeration is used, it ranges over the child's residues for the same divisor
        res = prove_count_reduction(ctx, c, fn)
        if res.get("collection") is not None:
            ctx.check(res["collection_is_residue_set"], fn.short, "enumerated collection = %s" % res["collection"], "the enumerated collection must be the child's residue set for the same divisor", fn.where(), res.get("collection"))


def rule_r5(ctx: Ctx) -> None:
    repo = ctx.repo
    ctx.rule("C16.R5", "the type model aggregates layouts pairwise (`+`), never by an n-ary concatenate/product over all fields", min_instances=1)
    n = 0
    for q, fn in repo.all_functions().items():
        if not fn.module.name.startswith("pydsdl._serializable") and fn.module.name not in ("pydsdl._data_schema_builder", "pydsdl._data_type_builder"):
            continue
        for c in calls_in(fn.node, include_nested=False):
            if isinstance(c.func, ast.Attribute) and c.func.attr in ("concatenate", "elementwise_sum_cartesian_product"):
                a = c.args[0] if c.args else None
                small = isinstance(a, (ast.List, ast.Tuple)) and len(a.elts) <= 2
                ctx.check(small, fn.short, norm(c), "n-ary concatenation over a field list makes residue products grow with the number of fields", fn.where(c))
                n += 1
    ctx.check(True, "_serializable/*", "n-ary concatenate calls: %d" % n, "scan completed", "", nontrivial=False)


DIVISOR_TAKERS = {"is_aligned_at": 0, "modulo": 0, "pad_to_alignment": 0, "__mod__": 0}
MAX_CONSTANT_DIVISOR = 4096


def rule_r6(ctx: Ctx, g: CallGraph) -> None:
    """`no bit length set larger than the queried divisor is ever enumerated` bounds the cost only while the divisors themselves
    are small constants: a residue query whose divisor is derived from a set's own bounds, a capacity or an extent enumerates
    (and, in the repetition operators, combines) up to that many residues"""
    from ..callgraph import Types
    from ..fold import Folder, Unfoldable

    repo = ctx.repo
    ctx.rule("C16.R6", "every divisor / alignment handed to a residue query (%, is_aligned_at, modulo, pad_to_alignment) outside the expansion paths is a small constant, an alignment_requirement, or a parameter whose every call site passes one", min_instances=12)
    T = Types(repo)
    b = ctx.cls(BLS)
    slow = set(ALLOW) if isinstance(ALLOW, (set, dict, list, tuple)) else set()
    fns = {q: fn for q, fn in repo.all_functions().items() if not fn.name.startswith("_unittest")}

    def callers_of(fn: Any) -> List[Any]:
        out = []
        for q, sites in g.sites.items():
            for st in sites:
                if st.kind == "call" and fn.qualname in st.callees and isinstance(st.node, ast.Call):
                    out.append((fns.get(q), st.node))
        return out

    def bounded(fn: Any, e: ast.AST, depth: int, seen: Set[Any]) -> Any:
        """True / reason why not"""
        if depth > 4:
            return "provenance deeper than 4 calls"
        if isinstance(e, ast.Call) and dotted(e.func) == "int" and len(e.args) == 1:
            return bounded(fn, e.args[0], depth, seen)
        if isinstance(e, ast.Attribute) and e.attr == "alignment_requirement":
            return True  # bounded by C02.R4 (alignments are 1 or 8)
        if isinstance(e, ast.Call) and (dotted(e.func) or "").split(".")[-1] in ("least_common_multiple", "lcm", "gcd", "max", "min"):
            rs = [bounded(fn, a, depth, seen) for a in e.args]
            bad = [r for r in rs if r is not True]
            return True if not bad else bad[0]
        try:
            v = Folder({}, repo, fn.module, fn.cls).fold(e)  # a literal, a module / class constant, arithmetic on those
            if isinstance(v, int) and not isinstance(v, bool):
                return True if 1 <= v <= MAX_CONSTANT_DIVISOR else "constant %d is not a small positive divisor" % v
        except Exception:
            pass
        if isinstance(e, ast.Attribute) and isinstance(e.value, ast.Name) and e.value.id == "self" and fn.cls is not None:
            # an instance field: every store of it (in the class) must be bounded in the storing function
            stores = []
            for m in fn.cls.methods.values():
                for n in ast.walk(m.node):
                    if isinstance(n, ast.Assign) and any(dotted(t) == "self." + e.attr for t in n.targets):
                        stores.append((m, n.value))
            if not stores:
                return "field %s is never stored in %s" % (e.attr, fn.cls.name)
            for m, v_ in stores:
                r = bounded(m, v_, depth + 1, seen)
                if r is not True:
                    return r
            return True
        if isinstance(e, ast.Name):
            a = fn.node.args
            params = [x.arg for x in a.posonlyargs + a.args + a.kwonlyargs]
            local = [n.value for n in ast.walk(fn.node) if isinstance(n, ast.Assign) and any(isinstance(t, ast.Name) and t.id == e.id for t in n.targets)]
            if local and ("local", fn.qualname, e.id) not in seen:
                # (a rebinding in terms of itself - `d = int(d)` - leads back here once: the second time the name stands for
                # what it was bound to before, i.e. the parameter)
                seen_l = seen | {("local", fn.qualname, e.id)}
                rs = [bounded(fn, v_, depth, seen_l) for v_ in local]
                bad = [r for r in rs if r is not True]
                if bad or e.id not in params or not any(any(isinstance(x, ast.Name) and x.id == e.id for x in ast.walk(v_)) for v_ in local):
                    return True if not bad else bad[0]
                return True
            if e.id in params:
                if (fn.qualname, e.id) in seen:
                    return True
                seen = seen | {(fn.qualname, e.id)}
                if fn.cls is not None and (fn.cls is b or repo.is_subclass(fn.cls, ctx.cls(SYM + ".Operator"))) and fn.name in DIVISOR_TAKERS:
                    return True  # the public residue queries themselves: their callers are sites of this rule
                idx = params.index(e.id) - (1 if fn.cls is not None and not fn.is_static else 0)
                cs = callers_of(fn)
                if not cs:
                    return True  # public API parameter: the caller's choice (the property is about what the library asks)
                for cf, call in cs:
                    if cf is None or cf.name.startswith("_unittest"):
                        continue
                    arg = None
                    where_fn = cf
                    if 0 <= idx < len(call.args) and not any(isinstance(x, ast.Starred) for x in call.args):
                        arg = call.args[idx]
                    for k in call.keywords:
                        if k.arg == e.id:
                            arg = k.value
                    if arg is None:
                        arg = dict(zip(reversed([x.arg for x in a.posonlyargs + a.args]), reversed(a.defaults))).get(e.id)
                        where_fn = fn  # the default is an expression of the callee's module
                    if arg is None:
                        return "argument for %s not found at %s" % (e.id, cf.where(call))
                    r = bounded(where_fn, arg, depth + 1, seen)
                    if r is not True:
                        return r
                return True
        return "divisor `%s` is not a constant, an alignment or a parameter (it depends on run-time quantities)" % norm(e)[:60]

    n_sites = 0
    for q, fn in sorted(fns.items()):
        short = _short(q)
        if short in slow or fn.name == "validate_numerically" or fn.name == "expand" or fn.name.startswith("_unittest"):
            continue
        if fn.cls is not None and repo.is_subclass(fn.cls, ctx.cls(SYM + ".Operator")):
            continue  # inside the solver the divisor is the query's own parameter or an lcm with it (C01.R5)
        try:
            loc = T.locals_of(fn)
        except Exception:
            loc = {}
        for n in ast.walk(fn.node):
            e = None
            if isinstance(n, ast.BinOp) and isinstance(n.op, ast.Mod):
                ty = T.expr(fn, n.left, loc)
                if ty and b in ty.classes:
                    e = n.right
            elif isinstance(n, ast.Call) and isinstance(n.func, ast.Attribute) and n.func.attr in DIVISOR_TAKERS and len(n.args) >= 1:
                rt = T.expr(fn, n.func.value, loc)
                if n.func.attr != "modulo" or not rt or b in rt.classes or any(repo.is_subclass(c, ctx.cls(SYM + ".Operator")) for c in rt.classes):
                    e = n.args[0]
            if e is None:
                continue
            n_sites += 1
            r = bounded(fn, e, 0, set())
            ctx.check(r is True, fn.short, "%s: divisor %s" % (norm(n)[:60], norm(e)[:40]), "a residue query's divisor must be a small constant or an alignment: one that grows with the set makes the residue enumeration grow with it", fn.where(n), None if r is True else r)
    ctx.analysed["C16.R6.sites"] = n_sites


def rule_r7(ctx: Ctx) -> None:
    """the layout queries evaluated for *huge* parameters: a type model that is symbolic answers them by a handful of arithmetic
    steps whatever the capacity / extent; one that enumerates (a range, a set, the copies of an element) builds a collection
    with as many elements as the parameter says, which the evaluator refuses (`TooLarge`)"""
    from ..absint import APath, Raised, construct, ctor_hook, module_call_hook, path_hook
    from ..fold import Folder, TooLarge, Unfoldable
    from .c01 import _quiet_hook
    from .c11 import _version

    ctx.rule("C16.R7", "types with capacities / extents of 2**40 and more are constructed and asked min / max / fixed_length / byte alignment / extent / equality / hash by evaluation of the source: no step builds or walks a collection whose size follows the parameter", min_instances=3)
    SER = "_serializable."
    prim = ctx.cls(SER + "_primitive.PrimitiveType")

    def hook_for(c: Any) -> Any:
        return path_hook(ctor_hook(ctx, module_call_hook(ctx, c.module, [], [], results={"check_name": None}, record=["check_name"], base_hook=_quiet_hook)))

    def mk(label: str, short: str, *a: Any, **k: Any) -> Any:
        c = ctx.cls(SER + short)
        try:
            return construct(ctx, c, *a, hook=hook_for(c), **k)
        except TooLarge as ex:
            return ("too-large", "constructing %s: %s" % (label, ex))
        except Raised as r:
            raise AnalysisError("%s cannot be constructed: %s" % (label, r.cls_name))
        except Unfoldable as ex:
            raise AnalysisError("%s cannot be constructed over the rule's arguments: %s" % (label, ex))

    f0 = Folder({}, ctx.repo, prim.module, prim)
    try:
        TRU = f0.fold(ast.parse("PrimitiveType.CastMode.TRUNCATED", mode="eval").body)
    except Unfoldable as ex:
        raise AnalysisError("the cast modes cannot be evaluated: %s" % ex)
    big = 2**40
    u8 = mk("uint8", "_primitive.UnsignedIntegerType", 8, TRU)
    u16 = mk("uint16", "_primitive.UnsignedIntegerType", 16, TRU)
    subjects = []
    fixed = mk("uint8[2**40]", "_array.FixedLengthArrayType", u8, big)
    var = mk("uint16[<=2**40]", "_array.VariableLengthArrayType", u16, big)
    subjects += [("uint8[2**40]", fixed), ("uint16[<=2**40]", var)]
    if not any(isinstance(x, tuple) for x in (fixed, var)):
        subjects.append(("uint8[2**40][<=2**20]", mk("array of arrays", "_array.VariableLengthArrayType", fixed, 2**20)))
        fa, fb = mk("field", "_attribute.Field", fixed, "a"), mk("field", "_attribute.Field", var, "b")
        st = mk("structure", "_composite.StructureType", name="ns.A", version=_version(1, 0), attributes=[fa, fb], deprecated=False, fixed_port_id=None, source_file_path=APath("/r/ns/A.1.0.dsdl"), has_parent_service=False, doc="")
        subjects.append(("structure {uint8[2**40] a; uint16[<=2**40] b}", st))
        small = mk("structure", "_composite.StructureType", name="ns.B", version=_version(1, 0), attributes=[mk("field", "_attribute.Field", u8, "x")], deprecated=False, fixed_port_id=None, source_file_path=APath("/r/ns/B.1.0.dsdl"), has_parent_service=False, doc="")
        # zero-length elements: the set is {0} whatever the capacity - its *value* is tiny, its operator tree is not
        empty = mk("structure", "_composite.StructureType", name="ns.E", version=_version(1, 0), attributes=[], deprecated=False, fixed_port_id=None, source_file_path=APath("/r/ns/E.1.0.dsdl"), has_parent_service=False, doc="")
        if not isinstance(empty, tuple):
            ea = mk("Empty[2**40]", "_array.FixedLengthArrayType", empty, big)
            subjects.append(("Empty[2**40] (zero-length elements)", ea))
            if not isinstance(ea, tuple):
                fe = mk("field", "_attribute.Field", ea, "e")
                subjects.append(("structure {Empty[2**40] e; uint8 x}", mk("structure", "_composite.StructureType", name="ns.H", version=_version(1, 0), attributes=[fe, mk("field", "_attribute.Field", u8, "x")], deprecated=False, fixed_port_id=None, source_file_path=APath("/r/ns/H.1.0.dsdl"), has_parent_service=False, doc="")))
        if not isinstance(small, tuple):
            subjects.append(("delimited, extent 8 * 2**40", mk("delimited", "_composite.DelimitedType", small, 8 * big)))
            subjects.append(("delimited, extent 8 * 2**40 (again)", mk("delimited", "_composite.DelimitedType", small, 8 * big)))
    queries = ["x.bit_length_set.min", "x.bit_length_set.max", "x.bit_length_set.fixed_length", "x.bit_length_set.is_aligned_at_byte()", "x.bit_length_set.is_aligned_at(8)", "x.bit_length_set.is_aligned_at(64)", "sorted(x.bit_length_set % 1000)", "sorted(x.bit_length_set % 7)", "x.alignment_requirement", "x == x", "hash(x)", "x.bit_length_set == y.bit_length_set", "hash(x.bit_length_set)", "str(x)"]
    n = 0
    for i, (label, obj) in enumerate(subjects):
        bad = []
        if isinstance(obj, tuple):
            bad.append(obj[1])
        else:
            other = subjects[i - 1][1] if i and not isinstance(subjects[i - 1][1], tuple) else obj
            qs = list(queries) + (["x.extent"] if "delimited" in label or "structure" in label else [])
            for q in qs:
                try:
                    Folder({"x": obj, "y": other}, ctx.repo, prim.module, None, hook_for(prim)).fold(ast.parse(q, mode="eval").body)
                except TooLarge as ex:
                    bad.append("%s: %s" % (q, ex))
                except Raised:
                    pass  # an answer
                except Unfoldable as ex:
                    raise AnalysisError("%s of %s cannot be evaluated: %s" % (q, label, ex))
                n += 1
        ctx.check(not bad, label, "constructed and queried (%d queries)" % (len(queries) + 1), "layout analysis is symbolic: its cost does not grow with capacities or extents", "pydsdl/_serializable", bad[:4])
    ctx.count(n)


def run(ctx: Ctx) -> None:
    g = CallGraph(ctx.repo)
    ctx.analysed["callgraph"] = g.stats()
    sinks = sinks_of(ctx)
    ctx.analysed["sinks"] = sorted(_short(s) for s in sinks)
    ctx.attempt(rule_r1, ctx, g, sinks)
    ctx.attempt(rule_r2, ctx, g, sinks)
    ctx.attempt(rule_r3, ctx)
    ctx.attempt(rule_r4, ctx)
    ctx.attempt(rule_r5, ctx)
    ctx.attempt(rule_r6, ctx, g)
    ctx.attempt(rule_r7, ctx)
    from . import layouttext

    ctx.attempt(layouttext.rule_c16_r8, ctx)
    ctx.assume("kind inference is annotation-seeded; unresolved receivers fall back to by-name dispatch (over-approximation, sound for must-not-reach)")
    ctx.undecided("actual wall-clock and memory; the residue enumeration is exponential in the number of distinct residues but bounded by the divisor, which is what the property states")
