"""
C19 -- Definitions outside the dependency closure cannot influence the result.

R1  who may evaluate a definition: the only call sites of ReadableDSDLFile.read / readers of `.text` are
    (a) _read_definitions on a *target* (loop variable over the target list, possibly its file_pool twin),
    (b) resolve_versioned_data_type on the single definition selected by the name+version filter,
    (c) DSDLDefinition.read on `self` (the text is parsed there).  Anything else - in particular iteration over a
    lookup list - is a violation.
R2  lookup objects are touched through path-derived metadata only; DSDLDefinition.__init__ reads no content.
R3  the cross-definition checks and the returned lists are built from the results of reads only.
R4  the user's print handler is invoked only from the print directive handler (inside a read).
"""
from __future__ import annotations

import ast
from typing import Any, Dict, List, Optional, Set, Tuple

from ..callgraph import CallGraph
from ..core import AnalysisError, ClassInfo, Ctx, FuncInfo, calls_in, dotted, norm, walk_no_nested

METADATA = {
    "full_name", "version", "root_namespace", "name_components", "short_name", "full_namespace", "file_path",
    "fixed_port_id", "has_fixed_port_id", "root_namespace_path", "composite_type",
}
LOOKUP_NAMES = {"lookup_definitions", "lookup_dsdl_definitions", "self._lookup_definitions"}


def _assignments(fn: FuncInfo, name: str) -> List[ast.AST]:
    out = []
    for st in walk_no_nested(fn.node):
        if isinstance(st, ast.Assign):
            for t in st.targets:
                if norm(t) == name:
                    out.append(st.value)
        elif isinstance(st, ast.AnnAssign) and norm(st.target) == name and st.value is not None:
            out.append(st.value)
    return out


def _loop_sources(fn: FuncInfo, var: str) -> List[str]:
    return [norm(st.iter) for st in walk_no_nested(fn.node) if isinstance(st, ast.For) and norm(st.target) == var]


def rule_r1(ctx: Ctx, g: CallGraph) -> None:
    repo = ctx.repo
    ctx.rule("C19.R1", "ReadableDSDLFile.read is called only on targets, on the filter-selected dependency, and the text is read only by DSDLDefinition.read on self", min_instances=3)
    read_methods = {f.qualname for f in g.funcs.values() if f.name == "read" and f.cls is not None and repo.is_subclass(f.cls, ctx.cls("_dsdl.DSDLFile"))}
    if len(read_methods) < 2:
        raise AnalysisError("read methods not found: %s" % read_methods)
    text_props = {f.qualname for f in g.funcs.values() if f.name == "text" and f.is_property and f.cls is not None and repo.is_subclass(f.cls, ctx.cls("_dsdl.DSDLFile"))}
    seen = {"a": 0, "b": 0, "c": 0}
    for q, sites in sorted(g.sites.items()):
        base = q[len("<lambda> "):].rsplit(":", 1)[0] if q.startswith("<lambda> ") else q
        fn = g.funcs.get(base)
        if fn is None:
            continue
        for s in sites:
            hits_read = [c for c in s.callees if c in read_methods]
            hits_text = [c for c in s.callees if c in text_props]
            if hits_read and s.kind in ("call", "ref") and isinstance(s.node, (ast.Call, ast.Attribute)):
                call = s.node
                recv = call.func.value if isinstance(call, ast.Call) and isinstance(call.func, ast.Attribute) else (call.value if isinstance(call, ast.Attribute) else None)
                rs = norm(recv) if recv is not None else "?"
                short = fn.short
                verdict = False
                why = ""
                if short.endswith("_namespace_reader._read_definitions") and isinstance(recv, ast.Name):
                    srcs = _loop_sources(fn, rs)
                    reassigned = [norm(a) for a in _assignments(fn, rs)]
                    twin_ok = all(a == "file_pool.setdefault(%s.file_path, %s)" % (rs, rs) for a in reassigned)
                    verdict = srcs == [fn.params[0]] and twin_ok and q == base
                    why = "receiver iterates %s, reassigned by %s" % (srcs, reassigned)
                    seen["a"] += 1
                elif short.endswith("DataTypeBuilder.resolve_versioned_data_type") and isinstance(recv, ast.Name):
                    defs = [norm(a) for a in _assignments(fn, rs)]
                    ok_sel = defs == ["found[0]"]
                    fdefs = _assignments(fn, "found")
                    ok_filter = len(fdefs) == 1 and isinstance(fdefs[0], ast.Call) and norm(fdefs[0]).startswith("list(filter(lambda") and norm(fdefs[0]).endswith(", self._lookup_definitions))")
                    verdict = ok_sel and ok_filter and q == base
                    why = "receiver = %s, found = %s" % (defs, [norm(x)[:90] for x in fdefs])
                    seen["b"] += 1
                elif s.kind == "ref" and not isinstance(call, ast.Call):
                    verdict = False
                    why = "read method taken as a value"
                else:
                    why = "unexpected reader"
                ctx.check(verdict, short, "%s.read(...)" % rs, "a definition may be evaluated only if it is a target or the dependency selected by name and version", fn.where(s.node), why)
            if hits_text and s.kind == "prop":
                recv = s.node.value if isinstance(s.node, ast.Attribute) else None
                rs = norm(recv) if recv is not None else "?"
                verdict = fn.short.endswith("DSDLDefinition.read") and rs == "self"
                seen["c"] += 1
                ctx.check(verdict, fn.short, "%s.text" % rs, "definition text may be loaded only while that definition itself is being read", fn.where(s.node))
    if not (seen["a"] and seen["b"] and seen["c"]):
        raise AnalysisError("positive control failed: expected read sites not all found %s" % seen)
    # raw file access in the modules that handle definitions
    for mname in ("_namespace", "_namespace_reader", "_dsdl_definition", "_data_type_builder", "_dsdl"):
        m = repo.module(mname)
        for fn in repo.all_functions().values():
            if fn.module is not m:
                continue
            for c in calls_in(fn.node, include_nested=False):
                n = dotted(c.func) or (c.func.attr if isinstance(c.func, ast.Attribute) else "")
                last = n.split(".")[-1]
                if last in ("open", "read_text", "read_bytes"):
                    good = fn.short.endswith("DSDLDefinition.text") and norm(c) in ("open(self._file_path)", "open(self.file_path)")
                    ctx.check(good, fn.short, norm(c), "file contents may be opened only by the lazy text accessor", fn.where(c))
            for n2 in walk_no_nested(fn.node):
                if isinstance(n2, ast.Attribute) and n2.attr == "_text" and not (fn.cls is not None and fn.cls.name == "DSDLDefinition" and fn.name in ("__init__", "text")):
                    ctx.fail(fn.short, norm(n2), "the cached text is private to the lazy accessor", where=fn.where(n2))
    # the accessor is lazy: loads only when unset
    acc = ctx.func("_dsdl_definition.DSDLDefinition.text")
    lazy = any(isinstance(st, ast.If) and norm(st.test) == "self._text is None" and any(isinstance(x, ast.Call) and dotted(x.func) == "open" for x in ast.walk(st)) for st in acc.node.body)
    ctx.check(lazy, acc.short, "lazy load", "text is loaded on first use only", acc.where())


def rule_r2(ctx: Ctx, g: CallGraph) -> None:
    repo = ctx.repo
    ctx.rule("C19.R2", "elements of lookup lists are accessed through path-derived metadata only; the definition constructor reads no content", min_instances=4)
    n = 0
    for fn in repo.all_functions().values():
        if fn.module.name not in ("pydsdl._namespace", "pydsdl._namespace_reader", "pydsdl._dsdl_definition", "pydsdl._data_type_builder"):
            continue
        for node in ast.walk(fn.node) if fn.parent is None else []:
            elem_vars: List[Tuple[str, ast.AST]] = []
            if isinstance(node, ast.For) and norm(node.iter) in LOOKUP_NAMES:
                elem_vars.append((norm(node.target), node))
            if isinstance(node, (ast.ListComp, ast.SetComp, ast.GeneratorExp)):
                for gen in node.generators:
                    if norm(gen.iter) in LOOKUP_NAMES:
                        elem_vars.append((norm(gen.target), node))
            if isinstance(node, ast.Call) and dotted(node.func) in ("filter", "map") and len(node.args) == 2 and norm(node.args[1]) in LOOKUP_NAMES and isinstance(node.args[0], ast.Lambda):
                lam = node.args[0]
                if lam.args.args:
                    elem_vars.append((lam.args.args[0].arg, lam.body))
            for var, scope in elem_vars:
                used: Set[str] = set()
                escapes: List[str] = []
                parents = {}
                for p in ast.walk(scope):
                    for ch in ast.iter_child_nodes(p):
                        parents[ch] = p
                for x in ast.walk(scope):
                    if isinstance(x, ast.Name) and x.id == var and isinstance(x.ctx, ast.Load):
                        par = parents.get(x)
                        if isinstance(par, ast.Attribute):
                            used.add(par.attr)
                        elif isinstance(par, ast.Compare):
                            used.add("__eq__")
                        elif isinstance(par, ast.Call) and x in par.args and dotted(par.func) in ("str", "repr", "isinstance", "hash"):
                            used.add("__str__")
                        elif isinstance(par, (ast.ListComp, ast.SetComp, ast.GeneratorExp)) and par.elt is x:
                            used.add("<collect>")
                        else:
                            escapes.append(norm(par) if par is not None else var)
                bad = sorted(a for a in used if a not in METADATA and a not in ("__eq__", "__str__", "<collect>"))
                n += 1
                ctx.check(not bad and not escapes, fn.short, "element %s of %s: %s" % (var, "lookup list", sorted(used)), "a lookup definition may only be inspected through its path-derived metadata", fn.where(scope), {"non_metadata": bad, "escapes": escapes[:3]})
    if n < 3:
        raise AnalysisError("C19.R2: only %d lookup-element scopes found (expected the filters in read / resolve and the logging scopes)" % n)
    init = ctx.func("_dsdl_definition.DSDLDefinition.__init__")
    offenders = []
    for c in calls_in(init.node):
        name = dotted(c.func) or (c.func.attr if isinstance(c.func, ast.Attribute) else "")
        if name.split(".")[-1] in ("open", "read_text", "read_bytes", "read", "parse"):
            offenders.append(norm(c))
    for x in ast.walk(init.node):
        if isinstance(x, ast.Attribute) and x.attr == "text":
            offenders.append(norm(x))
    text_store = [norm(st.value) for st in walk_no_nested(init.node) if isinstance(st, (ast.Assign, ast.AnnAssign)) and norm(st.targets[0] if isinstance(st, ast.Assign) else st.target) == "self._text"]
    cache_store = [norm(st.value) for st in walk_no_nested(init.node) if isinstance(st, (ast.Assign, ast.AnnAssign)) and norm(st.targets[0] if isinstance(st, ast.Assign) else st.target) == "self._cached_type"]
    ctx.check(not offenders and text_store == ["None"] and cache_store == ["None"], init.short, "no content access in the constructor", "constructing a definition object from a path must not open or parse the file", init.where(), {"offenders": offenders, "text": text_store, "cache": cache_store})
    # the lookup list is constructed from paths only
    cons = ctx.func("_namespace._construct_dsdl_definitions_from_namespaces")
    reads = [norm(c) for c in calls_in(cons.node) if (dotted(c.func) or getattr(c.func, "attr", "")).split(".")[-1] in ("read", "open", "read_text", "parse")]
    ctx.check(not reads, cons.short, "paths only", "listing a namespace constructs definition objects from paths without reading them", cons.where(), reads)


def rule_r3(ctx: Ctx) -> None:
    ctx.rule("C19.R3", "direct / transitive results contain only types returned by reads; the cross-definition checks receive nothing else", min_instances=3)
    fn = ctx.func("_namespace_reader._read_definitions")
    read_var = None
    for st in ast.walk(fn.node):
        if isinstance(st, ast.Assign) and isinstance(st.value, ast.Call) and isinstance(st.value.func, ast.Attribute) and st.value.func.attr == "read" and isinstance(st.targets[0], ast.Name):
            read_var = st.targets[0].id
    if read_var is None:
        raise AnalysisError("_read_definitions: result of read not found")
    adds = []
    for c in calls_in(fn.node):
        if isinstance(c.func, ast.Attribute) and c.func.attr in ("add", "update", "append", "extend") and norm(c.func.value) in ("direct", "transitive"):
            adds.append((norm(c.func.value), c.func.attr, norm(c.args[0]) if c.args else ""))
    good = bool(adds) and all(a[1] == "add" and a[2] in (read_var, "target_definition.composite_type") for a in adds)
    ctx.check(good, fn.short, "result sets <- %s" % sorted(set(a[2] for a in adds)), "only the composite returned by reading a target or dependency may enter direct/transitive", fn.where(), adds)
    rd = ctx.func("_namespace_reader.read_definitions")
    rets = [st for st in walk_no_nested(rd.node) if isinstance(st, ast.Return)]
    inner = [c for c in calls_in(rd.node) if dotted(c.func) == "_read_definitions"]
    good = False
    if len(rets) == 1 and isinstance(rets[0].value, ast.Call) and len(inner) == 1:
        kws = {k.arg: norm(k.value) for k in inner[0].keywords}
        d, t = kws.get("direct"), kws.get("transitive")
        args = rets[0].value.args
        good = d is not None and t is not None and len(args) == 2 and all(isinstance(a, ast.Call) and dotted(a.func) in ("dsdl_file_sort", "file_sort", "sorted") for a in args) and [norm(a.args[0]) for a in args] == [d, t]  # type: ignore
        # the sets start empty
        for name in (d, t):
            inits = [norm(st.value) for st in walk_no_nested(rd.node) if isinstance(st, (ast.Assign, ast.AnnAssign)) and norm(st.targets[0] if isinstance(st, ast.Assign) else st.target) == name]
            good = good and inits == ["set()"]
    ctx.check(good, rd.short, norm(rets[0].value) if rets else "?", "read_definitions returns exactly the two sets collected by the reader (initially empty, sorted)", rd.where())
    crf = ctx.func("_namespace._complete_read_function")
    args = {}
    for c in calls_in(crf.node):
        n = dotted(c.func)
        if n in ("_ensure_no_fixed_port_id_collisions", "_ensure_minor_version_compatibility"):
            args[n] = norm(c.args[0]) if c.args else ""
    lookups_leak = [a for a in args.values() if "lookup" in a]
    ctx.check(len(args) == 2 and not lookups_leak and all(a.replace("definitions.direct", "").replace("definitions.transitive", "").strip(" +") == "" for a in args.values()), crf.short, str(args), "cross-definition checks are computed from the read results only - never from the lookup list", crf.where(), args)
    # nothing derived from the lookup list reaches a function that compares definitions
    for c in calls_in(crf.node):
        n = dotted(c.func) or ""
        if n.startswith("_ensure") and n not in args:
            ctx.fail(crf.short, norm(c), "an additional cross-definition check", where=crf.where(c))
        if n == "read_definitions":
            continue
        for a in list(c.args) + [k.value for k in c.keywords]:
            if norm(a) == "lookup_dsdl_definitions" and n not in ("read_definitions", "len", "map", "_logger.debug", "_logger.info", "str"):
                ctx.fail(crf.short, norm(c), "the lookup list is handed to something other than the lazy reader", where=crf.where(c))


def rule_r4(ctx: Ctx, g: CallGraph) -> None:
    repo = ctx.repo
    ctx.rule("C19.R4", "the user's print handler is invoked only by the @print directive handler (hence only inside a read of a referenced definition)", min_instances=2)
    b = ctx.cls("_data_type_builder.DataTypeBuilder")
    callers = []
    for fn in b.methods.values():
        for c in calls_in(fn.node):
            if norm(c.func) == "self._print_output_handler":
                callers.append(fn.name)
    ctx.check(callers == ["_on_print_directive"], b.short, "callers of _print_output_handler: %s" % callers, "only the print directive may deliver output", b.module.relpath)
    rdn = ctx.func("_namespace_reader._read_definitions")
    inv = []
    for fn in [rdn] + list(rdn.nested.values()):
        for c in calls_in(fn.node):
            if norm(c.func) == "print_output_handler":
                inv.append(fn.name)
    ctx.check(inv == ["print_handler"], rdn.short, "invocations of the user handler: %s" % inv, "the user's handler is wrapped once and only forwarded into reads", rdn.where())
    # the wrapper is only ever passed to `.read`
    uses = []
    for x in ast.walk(rdn.node):
        if isinstance(x, ast.Name) and x.id == "print_handler" and isinstance(x.ctx, ast.Load):
            uses.append(x)
    parents = {}
    for p in ast.walk(rdn.node):
        for ch in ast.iter_child_nodes(p):
            parents[ch] = p
    good = True
    for u in uses:
        p = parents.get(u)
        if not (isinstance(p, ast.Call) and dotted(p.func) == "functools.partial"):
            good = False
            continue
        pp = parents.get(p)
        if not (isinstance(pp, ast.Call) and isinstance(pp.func, ast.Attribute) and pp.func.attr == "read"):
            good = False
    ctx.check(good and bool(uses), rdn.short, "print_handler only flows into read(...)", "the handler wrapper must not be invoked or stored elsewhere", rdn.where(), nontrivial=False)


def run(ctx: Ctx) -> None:
    g = CallGraph(ctx.repo)
    ctx.analysed["callgraph"] = g.stats()
    ctx.attempt(rule_r1, ctx, g)
    ctx.attempt(rule_r2, ctx, g)
    ctx.attempt(rule_r3, ctx)
    ctx.attempt(rule_r4, ctx, g)
    ctx.assume("file names in lookup directories are inspected when the directory is listed (allowed by the property)")
