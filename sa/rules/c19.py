"""
C19 -- Definitions outside the dependency closure cannot influence the result.

The reading pipeline is *abstractly evaluated* from its source over a small world of abstract definition files
(reader_common).  An abstract definition records every use of its `read` and `text` and every request for anything that is
not path-derived metadata; the rules compare those observations with the dependency closure.

R1  who may evaluate a definition: the namespace reader reads exactly the closure of the targets; the resolver reads only the
    single definition selected by name and version; a definition's text is loaded only while that definition itself is read.
R2  lookup definitions are touched through path-derived metadata only; constructing a definition object reads no content;
    listing a namespace builds definition objects from paths without reading them.
R3  the results and what the cross-definition checks receive consist of types produced by reads, nothing else.
R4  the user's print handler receives exactly the output of the definitions that are read (none for unreferenced ones).
"""
from __future__ import annotations

import ast
from typing import Any, Dict, List, Optional, Set, Tuple

from ..absint import APath, Raised, Recorder, call_fn
from ..core import AnalysisError, Ctx
from ..fold import Sym, Unfoldable
from . import reader_common as R


def _world(prints: bool = False) -> Tuple[R.World, Dict[str, R.ADef]]:
    w = R.World()
    C = R.ADef(w, "ns.C", 1, 0)
    B = R.ADef(w, "ns.B", 1, 0, deps=[C])
    A = R.ADef(w, "ns.A", 1, 1, deps=[B], fixed_port_id=100)
    d = {
        "A": A, "B": B, "C": C,
        # unreferenced definitions in the targets' own root namespace that *look* related by their file names alone: the same
        # fixed port-ID as a target (valid, and broken), the same short name in a sub-namespace
        "N100": R.ADef(w, "ns.sub.Neighbour", 1, 0, fixed_port_id=100),
        "N100bad": R.ADef(w, "ns.sub.Broken", 1, 0, fixed_port_id=100, fail="DSDLSyntaxError"),
        "SubA": R.ADef(w, "ns.sub.A", 1, 1),
        "A10": R.ADef(w, "ns.A", 1, 0),  # an older minor version of a target, not referenced
        "A20": R.ADef(w, "ns.A", 2, 0),
        "B11": R.ADef(w, "ns.B", 1, 1),  # a newer minor version of a dependency, not referenced
        "D": R.ADef(w, "ns.D", 1, 0, fail="DSDLSyntaxError"),  # unreferenced and broken
        "X": R.ADef(w, "other.X", 1, 0, deps=[]),
        "Atwin": R.ADef(w, "ns.A", 1, 1, root="/third-party"),  # same name and version under another root
    }
    for x in d.values():
        x.__dict__["prints"] = prints
    return w, d


def _closure(ds: List[R.ADef]) -> List[R.ADef]:
    out: List[R.ADef] = []
    work = list(ds)
    while work:
        x = work.pop(0)
        if x not in out:
            out.append(x)
            work.extend(x.deps)
    return out


def rule_r1_r3_r4(ctx: Ctx) -> None:
    ctx.rule("C19.R1", "the namespace reader reads exactly the dependency closure of the targets; the resolver reads only the definition selected by name and version; text is loaded only while the definition itself is read", min_instances=3)
    ctx.rule("C19.R3", "direct / transitive results and the arguments of the cross-definition checks consist of types produced by reads, nothing else", min_instances=2)
    ctx.rule("C19.R4", "the user's print handler receives exactly the output of the definitions that are read", min_instances=1)
    nsr = ctx.func("_namespace_reader.read_definitions")
    bad1, bad3, bad4 = [], [], []
    for tnames in (["A"], ["A", "X"], ["X"], ["B", "A"]):
        w, d = _world(prints=True)
        targets = [d[n] for n in tnames]
        lookups = list(d.values())
        user = Recorder("user-print-handler")
        out = R.run_reader(ctx, targets, lookups, handler=user)
        ctx.count()
        if out["raised"]:
            bad1.append({"targets": tnames, "found": "raised %s (a definition outside the closure is broken: that must not matter)" % out["raised"]})
            continue
        cl = _closure(targets)
        want_read = sorted(x.label for x in cl)
        got_read = sorted(set(w.reads()))
        touched = sorted({(e[1].label, e[0] if e[0] != "other" else e[2]) for e in w.log if e[0] in ("text", "other")})
        if got_read != want_read or touched:
            bad1.append({"targets": tnames, "read": got_read, "expected": want_read, "other accesses": touched})
        res = out["result"]
        produced = {id(x.composite_type): x.label for x in w.defs if x.composite_type is not None}
        foreign = [repr(t)[:60] for t in list(res.direct) + list(res.transitive) if id(t) not in produced]
        if foreign or sorted(produced[id(t)] for t in list(res.direct) + list(res.transitive)) != want_read:
            bad3.append({"targets": tnames, "not produced by a read": foreign, "returned": sorted(produced.get(id(t), "?") for t in list(res.direct) + list(res.transitive))})
        # prints: one per definition read (the model prints once per build), delivered with that definition's path
        # (which path a dependency's output is attributed to is not part of this property)
        got_p = sorted((a[1], a[2]) for _, a, _ in user.log)
        want_p = sorted((7, "printed by " + x.label) for x in cl)
        if got_p != want_p:
            bad4.append({"targets": tnames, "delivered": got_p[:6], "expected": want_p[:6]})
    ctx.check(not bad1, nsr.short, "reads == closure of the targets, over 4 target lists", "a definition may be evaluated only if it is a target or (transitively) referenced by one; nothing else is opened, parsed or evaluated - a broken unreferenced file changes nothing", nsr.where(), bad1[:3], rule="C19.R1")
    ctx.check(not bad3, nsr.short, "results == types produced by the reads", "only the composite returned by reading a target or dependency may enter direct/transitive", nsr.where(), bad3[:3], rule="C19.R3")
    ctx.check(not bad4, nsr.short, "print output == that of the definitions read", "the user's handler is reached only through the reads: once per output of a definition in the closure, never for an unreferenced definition", nsr.where(), bad4[:3], rule="C19.R4")
    # the resolver: only the definition selected by name and version
    rv = ctx.func("_data_type_builder.DataTypeBuilder.resolve_versioned_data_type")
    w, d = _world()
    bad = []
    for ref, ver, want in (("ns.B", (1, 0), "B"), ("ns.B", (1, 1), "B11"), ("ns.C", (1, 0), "C"), ("ns.B", (3, 0), None), ("ns.Q", (1, 0), None)):
        del w.log[:]
        for x in w.defs:
            x.__dict__["composite_type"] = None
        lk = [d[k] for k in ("A", "B", "C", "A10", "A20", "B11", "D", "X")]
        o = R.resolve(ctx, d["A"], lk, ref, ver[0], ver[1])
        ctx.count()
        reads = [e[1] for e in w.log if e[0] == "read"]
        others = [(e[1].label, e[0] if e[0] != "other" else e[2]) for e in w.log if e[0] in ("text", "other")]
        want_reads = [d[want]] if want else []
        # the model of read() reads the dependency's own dependencies in turn: only the first read is the resolver's
        first = reads[:1]
        if [id(x) for x in first] != [id(x) for x in want_reads] or others or any(x not in _closure(want_reads) for x in reads):
            bad.append({"reference": "%s.%d.%d" % (ref, ver[0], ver[1]), "read": [x.label for x in reads], "other accesses": others})
    # an ambiguous reference (the same name and version under two roots): at most one candidate may ever be evaluated
    del w.log[:]
    for x in w.defs:
        x.__dict__["composite_type"] = None
    R.resolve(ctx, d["X"], [d["A"], d["Atwin"], d["B"], d["C"], d["D"]], "ns.A", 1, 1)
    ctx.count()
    cands = [e[1].label for e in w.log if e[0] == "read" and e[1] in (d["A"], d["Atwin"])]
    if len(set(cands)) > 1 or any(e[0] in ("text", "other") for e in w.log):
        bad.append({"reference": "ns.A.1.1 (two candidates)", "read": [e[1].label for e in w.log if e[0] == "read"]})
    ctx.check(not bad, rv.short, "only the selected definition is read", "a definition may be evaluated only if it is a target or the dependency selected by name and version", rv.where(), bad[:3], rule="C19.R1")
    # DSDLDefinition.read: its own text, once; nothing of the lookup definitions
    rd = ctx.func("_dsdl_definition.DSDLDefinition.read")
    w, d = _world()
    own = R.own_definition(ctx, "ns.sub.T", 1, 2)
    o = R.read_own(ctx, own, list(d.values()))
    ctx.count()
    touched = sorted({(e[1].label, e[0] if e[0] != "other" else e[2]) for e in w.log})
    ctx.check(not o["raised"] and o["opens"] == 1 and not touched, rd.short, "opens its own file once (%d); lookup definitions untouched" % o["opens"], "definition text may be loaded only while that definition itself is being read; handing a definition the lookup list must not evaluate any of it", rd.where(), {"raised": o["raised"], "accesses to lookup definitions": touched}, rule="C19.R1")
    # the cross-definition checks see read results only
    crf = ctx.func("_namespace._complete_read_function")
    w, d = _world()
    log: List[Any] = []
    lookups = list(d.values())
    hook = R._hook(ctx, crf.module, log, record=["_ensure_no_fixed_port_id_collisions", "_ensure_minor_version_compatibility", "_construct_dsdl_definitions_from_namespaces", "_construct_lookup_directories_path_list"], results={
        "_ensure_no_fixed_port_id_collisions": None, "_ensure_minor_version_compatibility": None,
        "_construct_dsdl_definitions_from_namespaces": lambda *a, **k: list(lookups), "_construct_lookup_directories_path_list": lambda *a, **k: [],
    })
    args: Dict[str, Any] = {}
    for p_ in crf.params:
        args[p_] = [d["A"]] if "target" in p_ else (list(lookups) if ("lookup" in p_ and "definition" in p_) else ([] if ("list" in p_ or "director" in p_) else (None if "handler" in p_ else False)))
    raised = None
    try:
        call_fn(ctx, crf, [], args, hook=hook, keep=tuple(crf.module.functions))
    except Raised as r:
        raised = r.cls_name  # every definition of the closure is fine: only an unreferenced one can have failed
    except Unfoldable as ex:
        raise AnalysisError("%s: cannot evaluate over the abstract world: %s" % (crf.short, ex))
    produced = {id(x.composite_type): x.label for x in w.defs if x.composite_type is not None}
    leaks = []
    for name, a, _k in log:
        if name.startswith("_ensure"):
            for t in (a[0] if a else []):
                if id(t) not in produced:
                    leaks.append("%s received %s" % (name, repr(t)[:50]))
    got_read = sorted(set(w.reads()))
    ctx.count()
    ctx.check(not raised and not leaks and got_read == sorted(x.label for x in _closure([d["A"]])), crf.short, "checks receive read results only; reads == closure", "cross-definition checks are computed from the read results only - never from the lookup list", crf.where(), {"raised": raised, "leaks": leaks[:3], "read": got_read}, rule="C19.R1" if raised else "C19.R3")


def rule_r2(ctx: Ctx) -> None:
    ctx.rule("C19.R2", "constructing a definition object reads no content; listing a namespace builds definition objects from paths without reading them; the lookup list handed to a builder is only filtered by identity", min_instances=3)
    del R.CONTENT_ACCESS[:]
    own = R.own_definition(ctx, "ns.sub.T", 1, 2)
    init = ctx.func("_dsdl_definition.DSDLDefinition.__init__")
    ctx.count()
    ctx.check(not R.CONTENT_ACCESS, init.short, "no content access in the constructor", "constructing a definition object from a path must not open or parse the file", init.where(), list(R.CONTENT_ACCESS))
    # listing a namespace
    cons = ctx.func("_namespace._construct_dsdl_definitions_from_namespaces")
    saved = list(APath.FS)
    # ... including what a listing might be tempted to look into: the same definition under both extensions, several minor
    # versions, the same short name in two namespaces, two definitions with one port-ID
    fs = ["/w/ns/A.1.0.dsdl", "/w/ns/A.1.0.uavcan", "/w/ns/sub/B.1.0.dsdl", "/w/ns/sub/B.1.1.dsdl", "/w/ns/sub/A.1.0.dsdl", "/w/ns/7000.C.1.0.dsdl", "/w/ns/sub/7000.D.1.0.dsdl"]
    APath.FS = list(fs)
    del R.CONTENT_ACCESS[:]
    try:
        base = R._hook(ctx, cons.module, [], results={"dsdl_file_sort": lambda xs: list(xs), "file_sort": lambda xs: list(xs)})

        def hook(e: ast.expr, f: Any) -> Any:
            if isinstance(e, ast.Call):
                from ..core import dotted

                name = dotted(e.func) or ""
                if name == "open" or name.split(".")[-1] in ("read_text", "read_bytes"):
                    R.CONTENT_ACCESS.append("%s while listing" % name)
                    return Sym(read=lambda: "TEXT")
            return base(e, f)

        try:
            got = call_fn(ctx, cons, [[APath("/w/ns")]], hook=hook, keep=tuple(cons.module.functions))
        except (Raised, Unfoldable) as ex:
            if not R.CONTENT_ACCESS:
                raise AnalysisError("%s: cannot evaluate over the abstract file system: %s" % (cons.short, ex))
            got = []  # the listing went on to act on file contents: reported below
    finally:
        APath.FS = saved
    ctx.count()
    built = [x for x in got if getattr(x, "__dict__", {}).get("_cached_type", "?") is None or True]
    ctx.check(not R.CONTENT_ACCESS and len(built) == len(fs), cons.short, "paths only (%d definition objects for %d files)" % (len(built), len(fs)), "listing a namespace constructs definition objects from paths without reading them", cons.where(), list(R.CONTENT_ACCESS))
    # a definition being read touches the lookup definitions through equality / metadata only (no text, no read): observed
    w, d = _world()
    o = R.read_own(ctx, own, list(d.values()))
    ctx.count()
    nonmeta = sorted({(e[1].label, e[0] if e[0] != "other" else e[2]) for e in w.log})
    rd = ctx.func("_dsdl_definition.DSDLDefinition.read")
    ctx.check(not nonmeta, rd.short, "lookup definitions are compared / filtered, never evaluated", "a lookup definition may only be inspected through its path-derived metadata", rd.where(), nonmeta)


def rule_r5(ctx: Ctx) -> None:
    """who may read file contents: only the definition object itself, for its own file"""
    import ast as _ast

    from ..callgraph import Types
    from ..core import dotted, norm

    ctx.rule("C19.R5", "file contents are read (open / read_text / read_bytes / the `text` of a definition) only inside the definition class, for its own file: no listing, look-up or cross-definition check opens a definition", min_instances=2)
    repo = ctx.repo
    T = Types(repo)
    rdf = [c for c in repo.all_classes().values() if c.name in ("ReadableDSDLFile", "DSDLFile", "DSDLDefinition")]
    if not rdf:
        raise AnalysisError("anchor classes ReadableDSDLFile / DSDLDefinition missing")
    owners = {c for c in repo.all_classes().values() if any(repo.is_subclass(c, b) for b in rdf)} | set(rdf)
    inside, outside = [], []
    exempt = {"_parser._get_grammar": "reads the PEG grammar file shipped with the package, not a definition"}
    for fn in repo.all_functions().values():
        if fn.name.startswith("_unittest") or fn.module.name.startswith("pydsdl.third_party") or fn.short in exempt:
            continue
        top = fn
        while top.parent is not None:
            top = top.parent
        try:
            loc = T.locals_of(fn)
        except Exception:
            loc = {}
        for n in _ast.walk(fn.node):
            what = None
            if isinstance(n, _ast.Call):
                name = dotted(n.func) or ""
                if name in ("open", "io.open", "os.open", "codecs.open"):
                    what = norm(n)[:70]
                elif isinstance(n.func, _ast.Attribute) and n.func.attr in ("read_text", "read_bytes", "open"):
                    try:
                        rty = T.expr(fn, n.func.value, loc)
                    except Exception:
                        rty = None
                    if not (rty and rty.classes and not any(c in owners for c in rty.classes)):
                        what = norm(n)[:70]  # (a method of that name on another class of the repository - the bit reader - is not a file)
            elif isinstance(n, _ast.Attribute) and n.attr == "text" and isinstance(n.ctx, _ast.Load):
                try:
                    ty = T.expr(fn, n.value, loc)
                except Exception:
                    ty = None
                if ty and any(c in owners for c in ty.classes):
                    what = norm(n)[:70]
            if what is None:
                continue
            own_file = top.cls in owners and (("self" in what) or what.startswith("open("))
            (inside if own_file else outside).append({"function": fn.short, "where": fn.where(n), "access": what})
    ctx.count(len(inside) + len(outside))
    ctx.check(bool(inside), "DSDLDefinition", "%d content access site(s) inside the definition class" % len(inside), "positive control: the definition's own text accessor must be recognised as a content access", rdf[0].module.relpath, inside[:3], nontrivial=False)
    ctx.check(not outside, "pydsdl", "no content access outside the definition class", "the text of a definition that is not being read is never looked at: not when a directory is listed, not to tell copies apart, not to pre-check anything", outside[0]["where"] if outside else "", outside[:4])


def rule_r6_entry_points(ctx: Ctx) -> None:
    """R1-R4 decide the reader and the resolver on a given target / lookup list.  This rule decides which lists the entry
    points give them: read_namespace and read_files are evaluated from the source over an abstract file system - a root, a
    second lookup directory that has the *same name* as the root (allowed by default), a third one - with only the reading of
    a single file stubbed (reader_common.run_entry).  The files that get read must be exactly the targets and what they
    reference; making every other file unreadable must change nothing."""
    ctx.rule("C19.R6", "read_namespace / read_files, evaluated end to end over an abstract file system (root, a lookup directory of the same name, another lookup directory): the files read are exactly the targets and their transitive references, and the outcome is the same when every other definition is broken", min_instances=2)
    files = {
        "/w/ns/A.1.0.dsdl": [("ns.B", 1, 0), ("other.Z", 1, 0)], "/w/ns/B.1.0.dsdl": [], "/w/ns/X.1.0.dsdl": [], "/w/ns/sub/W.2.1.dsdl": [("ns.B", 1, 0)],
        "/elsewhere/ns/Q.1.0.dsdl": [], "/elsewhere/ns/sub/R.1.0.dsdl": [("ns.Q", 1, 0)],
        "/w/other/Z.1.0.dsdl": [("other.V", 1, 0)], "/w/other/V.1.0.dsdl": [], "/w/other/Y.1.0.dsdl": [],
    }
    P = APath
    cases = [
        ("read_namespace(/w/ns, [/elsewhere/ns, /w/other])", "read_namespace", [P("/w/ns"), [P("/elsewhere/ns"), P("/w/other")]], ["/w/ns/A.1.0.dsdl", "/w/ns/B.1.0.dsdl", "/w/ns/X.1.0.dsdl", "/w/ns/sub/W.2.1.dsdl", "/w/other/Z.1.0.dsdl", "/w/other/V.1.0.dsdl"]),
        ("read_namespace(/w/other, [/w/ns])", "read_namespace", [P("/w/other"), [P("/w/ns")]], ["/w/other/Z.1.0.dsdl", "/w/other/V.1.0.dsdl", "/w/other/Y.1.0.dsdl"]),
        ("read_files([/w/ns/A.1.0.dsdl], [/w/ns], [/elsewhere/ns, /w/other])", "read_files", [[P("/w/ns/A.1.0.dsdl")], [P("/w/ns")], [P("/elsewhere/ns"), P("/w/other")]], ["/w/ns/A.1.0.dsdl", "/w/ns/B.1.0.dsdl", "/w/other/Z.1.0.dsdl", "/w/other/V.1.0.dsdl"]),
        ("read_files([/w/ns/sub/W.2.1.dsdl, /w/ns/X.1.0.dsdl], [/w/ns], [/w/other])", "read_files", [[P("/w/ns/sub/W.2.1.dsdl"), P("/w/ns/X.1.0.dsdl")], [P("/w/ns")], [P("/w/other")]], ["/w/ns/sub/W.2.1.dsdl", "/w/ns/X.1.0.dsdl", "/w/ns/B.1.0.dsdl"]),
    ]
    fn_rn = ctx.func("_namespace.read_namespace")
    for label, entry, args, want in cases:
        fn = ctx.func("_namespace." + entry)
        r1 = R.run_entry(ctx, entry, args, files)
        others = [p for p in files if p not in want]
        r2 = R.run_entry(ctx, entry, args, files, broken=others)
        ctx.count(2)
        good = r1.raised is None and sorted(set(r1.reads)) == sorted(want) and r2.raised is None and sorted(set(r2.reads)) == sorted(want)
        ctx.check(good, fn.short, label, "exactly the targets and what they transitively reference are read; a broken definition outside that closure changes nothing", fn.where(), {"files read": sorted(set(r1.reads)), "expected": sorted(want), "outcome": r1.raised or "a result", "outcome with every other file broken": r2.raised or "a result"})
    _ = fn_rn


def run(ctx: Ctx) -> None:
    ctx.attempt(rule_r1_r3_r4, ctx)
    ctx.attempt(rule_r2, ctx)
    ctx.attempt(rule_r5, ctx)
    ctx.attempt(rule_r6_entry_points, ctx)
    from . import c19text

    c19text.run(ctx)
    ctx.assume("file names in lookup directories are inspected when the directory is listed (allowed by the property)")
    ctx.assume("the model of ReadableDSDLFile.read used for the namespace reader plays the documented protocol: dependencies are read with the same arguments and reported to the visitors; a build prints through the handler it was given")
