"""
C04 -- Constant expressions evaluate exactly, with the Specification's precedence.

R1  precedence / associativity table computed from the grammar rule layering (for *all* expression trees) + the left fold
    in the chain visitor.
R2  ordered-choice hazards: no token alternative is a proper prefix of a later one; real before integer; `<=` array form
    before `<` before fixed.
R3  token -> semantics chain: grammar literal -> visit_<rule> -> _expression.<fn> -> Any._<method> -> concrete
    implementation ending in the Python operator / set operation the token means.
R4  operand-swap discipline of the set-vs-scalar operators and of _auto_swap.
R5  undefined => rejected: every default and every non-matching-type path raises an InvalidOperandError subclass.
R6  exactness: literals are decoded exactly (int(..., base=0) / Fraction(text)); no float / math function on value paths.
"""
from __future__ import annotations

import ast
from typing import Any, Dict, List, Optional, Set, Tuple

from ..core import AnalysisError, ClassInfo, Ctx, External, FuncInfo, body_without_docstring, calls_in, dotted, norm, walk_no_nested
from ..decide import paths_of
from ..peg import Grammar

EXPR = "_expression."

# Specification: operators from loosest to tightest binding
SPEC_LEVELS = [
    ("binary-left", {"||", "&&"}),
    ("unary-prefix", {"!"}),
    ("binary-left", {"==", "!=", "<=", ">=", "<", ">"}),
    ("binary-left", {"|", "^", "&"}),
    ("binary-left", {"+", "-"}),
    ("binary-left", {"*", "/", "%"}),
    ("unary-prefix", {"+", "-"}),
    ("binary-right", {"**"}),
    ("binary-left", {"."}),
]
# token -> (expression function, Any method, python operator used by Rational, set meaning)
BINARY = {
    "||": ("logical_or", "_logical_or"), "&&": ("logical_and", "_logical_and"),
    "==": ("equal", "_equal"), "!=": ("not_equal", None),
    "<=": ("less_or_equal", "_less_or_equal"), ">=": ("greater_or_equal", "_greater_or_equal"),
    "<": ("less", "_less"), ">": ("greater", "_greater"),
    "|": ("bitwise_or", "_bitwise_or"), "^": ("bitwise_xor", "_bitwise_xor"), "&": ("bitwise_and", "_bitwise_and"),
    "+": ("add", "_add"), "-": ("subtract", "_subtract"),
    "*": ("multiply", "_multiply"), "/": ("divide", "_divide"), "%": ("modulo", "_modulo"),
    "**": ("power", "_power"),
}
RATIONAL_IMPL = {
    "_equal": "eq", "_less_or_equal": "le", "_greater_or_equal": "ge", "_less": "lt", "_greater": "gt",
    "_bitwise_or": "or_", "_bitwise_xor": "xor", "_bitwise_and": "and_",
    "_add": "add", "_subtract": "sub", "_multiply": "mul", "_divide": "truediv", "_modulo": "mod", "_power": "pow",
}
SET_IMPL = {
    "_equal": "==", "_less_or_equal": "issubset", "_greater_or_equal": "issuperset", "_less": "proper issubset", "_greater": "proper issuperset",
    "_bitwise_or": "union", "_bitwise_xor": "symmetric_difference", "_bitwise_and": "intersection",
}
MIRROR = {"less_or_equal": "greater_or_equal", "greater_or_equal": "less_or_equal", "less": "greater", "greater": "less", "equal": "equal", "logical_or": "logical_or", "logical_and": "logical_and"}


def _tokens_of(g: Grammar, node: Any, depth: int = 0) -> Optional[List[str]]:
    """literal tokens an operator rule can match (alternation of literals / refs to literals)"""
    if depth > 4:
        return None
    t = node[0]
    if t == "lit":
        return [node[1]]
    if t == "ref" and node[1] in g.rules:
        return _tokens_of(g, g.rules[node[1]], depth + 1)
    if t == "alt":
        out: List[str] = []
        for x in node[1]:
            r = _tokens_of(g, x, depth + 1)
            if r is None:
                return None
            out.extend(r)
        return out
    return None


def extract_levels(g: Grammar) -> List[Dict[str, Any]]:
    """Walk the ex_* layering from `expression` down to `expression_atom`."""
    levels: List[Dict[str, Any]] = []
    cur = "expression"
    seen = set()
    while cur != "expression_atom":
        if cur in seen:
            raise AnalysisError("grammar: expression layering is cyclic at %s" % cur)
        seen.add(cur)
        node = g.rule(cur)
        if node[0] == "ref":  # alias
            cur = node[1]
            continue
        if node[0] == "seq" and len(node[1]) == 2 and node[1][0][0] == "ref" and node[1][1][0] in ("star", "opt"):
            operand = node[1][0][1]
            rep, inner = node[1][1]
            if inner[0] != "seq":
                raise AnalysisError("grammar: unexpected chain body in %s" % cur)
            parts = [x for x in inner[1] if not (x[0] == "opt" and x[1] == ("ref", "_")) and x != ("ref", "_")]
            if len(parts) != 2:
                raise AnalysisError("grammar: chain body of %s is not `op operand`" % cur)
            toks = _tokens_of(g, parts[0])
            if toks is None or parts[1][0] != "ref":
                raise AnalysisError("grammar: cannot resolve the operator tokens of %s" % cur)
            blanks_ok = inner[1][0] == ("opt", ("ref", "_")) and inner[1][2] == ("opt", ("ref", "_")) if len(inner[1]) == 4 else False
            levels.append({"rule": cur, "kind": "binary-left" if rep == "star" else "binary-right?", "tokens": set(toks), "operand": operand, "right": parts[1][1], "op_rule": parts[0][1] if parts[0][0] == "ref" else None, "blanks": blanks_ok})
            cur = operand
            continue
        if node[0] == "alt":
            forms, nxt = [], None
            for x in node[1]:
                if x[0] == "ref" and x[1].startswith("op1_form"):
                    forms.append(x[1])
                elif x[0] == "ref":
                    nxt = x[1]
            if nxt is None or not forms or node[1][-1] != ("ref", nxt):
                raise AnalysisError("grammar: %s is not `unary forms / next level`" % cur)
            toks = set()
            operands = set()
            for f in forms:
                fn = g.rule(f)
                if fn[0] != "seq" or fn[1][0][0] != "lit" or fn[1][-1][0] != "ref":
                    raise AnalysisError("grammar: unary form %s has an unexpected shape" % f)
                toks.add(fn[1][0][1])
                operands.add(fn[1][-1][1])
            levels.append({"rule": cur, "kind": "unary-prefix", "tokens": toks, "operand": nxt, "form_operands": operands, "forms": forms})
            cur = nxt
            continue
        raise AnalysisError("grammar: cannot classify expression rule %s = %s" % (cur, g.show(node)))
    return levels


def rule_r1(ctx: Ctx, g: Grammar) -> List[Dict[str, Any]]:
    ctx.rule("C04.R1", "operator precedence and associativity computed from the grammar layering equal the Specification's table; chains are folded left to right", min_instances=10)
    levels = extract_levels(g)
    rule_names = [l["rule"] for l in levels]
    ok_len = len(levels) == len(SPEC_LEVELS)
    ctx.check(ok_len, "grammar.expression", " > ".join(rule_names), "the expression grammar has the Specification's nine binding levels", g.path, [sorted(l["tokens"]) for l in levels])
    for i, (lvl, (skind, stoks)) in enumerate(zip(levels, SPEC_LEVELS)):
        kind = lvl["kind"]
        detail: Dict[str, Any] = {"tokens": sorted(lvl["tokens"]), "expected_tokens": sorted(stoks), "kind": kind, "expected_kind": skind}
        good = lvl["tokens"] == stoks
        if skind == "binary-left":
            want_right = "identifier" if stoks == {"."} else lvl["operand"]
            good = good and kind == "binary-left" and lvl["right"] == want_right
        elif skind == "binary-right":
            # A (op B)? with B a *looser* level that leads back to A: right-associative, and unary minus allowed on the right
            looser = rule_names[:i]
            good = good and kind == "binary-right?" and lvl["right"] in looser and lvl["right"] == (levels[i - 1]["rule"] if i else None)
            detail["right_operand"] = lvl["right"]
        else:
            good = good and kind == "unary-prefix"
            if "!" in stoks:
                good = good and lvl["form_operands"] == {lvl["rule"]}  # `! !x` nests
            else:
                good = good and lvl["form_operands"] == {lvl["operand"]}  # -2 ** 2 == -(2 ** 2)
            detail["form_operands"] = sorted(lvl.get("form_operands", []))
        if kind.startswith("binary"):
            good = good and lvl["blanks"]
        ctx.check(good, "grammar." + lvl["rule"], "level %d: %s %s" % (i + 1, kind, sorted(lvl["tokens"])), "binding level %d must be %s over %s" % (i + 1, skind, sorted(stoks)), "%s:%d" % (g.path, g.lines.get(lvl["rule"], 0)), detail)
        ctx.count()
    # the fold
    pt = ctx.cls("_parser._ParseTreeProcessor")
    chain_rules = [l["rule"] for l in levels if l["kind"].startswith("binary")]
    fold_names = {pt.assigns[k].id for k in ("visit_" + r for r in chain_rules) if k in pt.assigns and isinstance(pt.assigns[k], ast.Name)}
    wired = all(("visit_" + r) in pt.assigns for r in chain_rules) and len(fold_names) == 1
    ctx.check(wired, pt.short, "chain visitors: %s" % sorted(fold_names), "every binary level is evaluated by the same chain-folding visitor", pt.module.relpath, [r for r in chain_rules if ("visit_" + r) not in pt.assigns])
    if wired:
        fold = pt.methods.get(fold_names.pop())
        if fold is None:
            raise AnalysisError("chain folding visitor not found")
        body = body_without_docstring(fold.node)
        ch = fold.params[2]
        init = [st for st in body if isinstance(st, ast.Assign) and norm(st.value) == "%s[0]" % ch]
        loops = [st for st in body if isinstance(st, ast.For) and norm(st.iter) == "%s[1]" % ch]
        good = len(init) == 1 and len(loops) == 1
        if good:
            acc = norm(init[0].targets[0])
            tgt = loops[0].target
            names = [norm(x) for x in tgt.elts] if isinstance(tgt, ast.Tuple) else []
            steps = [st for st in loops[0].body if isinstance(st, ast.Assign) and norm(st.targets[0]) == acc]
            good = len(names) == 4 and len(steps) == 1 and norm(steps[0].value) == "%s(%s, %s)" % (names[1], acc, names[3])
            rets = [st for st in body if isinstance(st, ast.Return)]
            good = good and len(rets) == 1 and norm(rets[0].value) == acc
        ctx.check(good, fold.short, "left = children[0]; for _, op, _, right in children[1]: left = op(left, right)", "operator chains are folded from the left in source order", fold.where())
    # unary / single-child levels lift their child
    for l in levels:
        if l["kind"] == "unary-prefix":
            v = pt.assigns.get("visit_" + l["rule"])
            ctx.check(v is not None and norm(v).endswith("lift_child"), pt.short + ".visit_" + l["rule"], norm(v) if v is not None else "?", "a unary level passes its single child through", pt.module.relpath, nontrivial=False)
    ctx.sample({"rule": "C04.R1", "levels": [(l["rule"], l["kind"], sorted(l["tokens"])) for l in levels]})
    return levels


def rule_r2(ctx: Ctx, g: Grammar) -> None:
    ctx.rule("C04.R2", "ordered choice: no operator token shadows a longer one; real literals before integers; `<=`, `<`, fixed array forms in that order", min_instances=6)
    n = 0
    for name, node in g.rules.items():
        if node[0] != "alt":
            continue
        toks = []
        pure = True
        for x in node[1]:
            t = _tokens_of(g, x)
            if t is None or len(t) != 1:
                pure = False
                break
            toks.append(t[0])
        if not pure:
            continue
        n += 1
        bad = [(toks[i], toks[j]) for i in range(len(toks)) for j in range(i + 1, len(toks)) if toks[j].startswith(toks[i]) and toks[j] != toks[i]]
        ctx.check(not bad, "grammar." + name, " / ".join(toks), "an earlier alternative must not be a proper prefix of a later one (PEG choice is ordered)", "%s:%d" % (g.path, g.lines.get(name, 0)), bad)
    lit = g.rule("literal")
    order = [x[1] for x in lit[1]] if lit[0] == "alt" else []
    good = "literal_real" in order and "literal_integer" in order and order.index("literal_real") < order.index("literal_integer") and order.index("literal_set") == 0
    ctx.check(good, "grammar.literal", " / ".join(order), "real literals are tried before integers (an integer is a prefix of a real)", "%s:%d" % (g.path, g.lines.get("literal", 0)))
    real = g.rule("literal_real")
    order = [x[1] for x in real[1]] if real[0] == "alt" else []
    ctx.check(order[:1] == ["literal_real_exponent_notation"], "grammar.literal_real", " / ".join(order), "exponent notation is tried before plain point notation", g.path, nontrivial=False)
    arr = g.rule("type_array")
    order = [x[1] for x in arr[1]] if arr[0] == "alt" else []

    def marker(rule: str) -> Optional[str]:
        node = g.rule(rule)
        lits = [x[1] for x in node[1] if x[0] == "lit"] if node[0] == "seq" else []
        inner = [x for x in lits if x not in ("[", "]")]
        return inner[0] if inner else ""

    marks = [marker(r) for r in order]
    ctx.check(marks == ["<=", "<", ""], "grammar.type_array", " / ".join("%s(%s)" % (r, m or "fixed") for r, m in zip(order, marks)), "`[<=n]` before `[<n]` before `[n]`", "%s:%d" % (g.path, g.lines.get("type_array", 0)))
    integer = g.rule("literal_integer")
    order = [x[1] for x in integer[1]] if integer[0] == "alt" else []
    ctx.check(order and order[-1] == "literal_integer_decimal", "grammar.literal_integer", " / ".join(order), "prefixed integer forms (0b/0o/0x) are tried before plain decimal", g.path, nontrivial=False)
    atom = g.rule("expression_atom")
    order = [x[1] for x in atom[1]] if atom[0] == "alt" else []
    ctx.check(order == ["expression_parenthesized", "type", "literal", "identifier"], "grammar.expression_atom", " / ".join(order), "types and literals (true/false, bool ...) are tried before bare identifiers", g.path, nontrivial=False)
    if n < 5:
        raise AnalysisError("C04.R2: only %d token alternations found" % n)


def _single_call_return(fn: FuncInfo) -> Optional[ast.Call]:
    """the call returned by a function with exactly one return statement (raw, locals not substituted)"""
    rets = [n for n in walk_no_nested(fn.node) if isinstance(n, ast.Return)]
    if len(rets) == 1 and isinstance(rets[0].value, ast.Call):
        return rets[0].value
    return None


def rule_r3(ctx: Ctx, g: Grammar, levels: List[Dict[str, Any]]) -> None:
    repo = ctx.repo
    ctx.rule("C04.R3", "each operator token reaches the semantics it denotes: grammar literal -> visitor -> expression function -> Any method -> Rational/Set/Boolean/String implementation", min_instances=40)
    pt = ctx.cls("_parser._ParseTreeProcessor")
    opmod = repo.module("_expression._operator")
    rat = ctx.cls(EXPR + "_primitive.Rational")
    st = ctx.cls(EXPR + "_container.Set")
    # token -> op2 rule name
    tok_rule: Dict[str, str] = {}
    for name, node in g.rules.items():
        if name.startswith("op2_") and node[0] == "lit":
            tok_rule[node[1]] = name
    for tok, (fname, meth) in BINARY.items():
        rule = tok_rule.get(tok)
        v = pt.assigns.get("visit_" + rule) if rule else None
        wired = None
        if isinstance(v, ast.Call) and dotted(v.func) == "_make_binary_operator_handler" and len(v.args) == 1:
            r = repo.resolve_expr(pt.module, v.args[0], pt)
            wired = r.name if isinstance(r, FuncInfo) else None
        ctx.check(wired == fname, "_parser._ParseTreeProcessor.visit_%s" % rule, "'%s' -> %s" % (tok, wired), "token %r must evaluate as %s" % (tok, fname), pt.module.relpath)
        fn = opmod.functions.get(fname)
        if fn is None:
            ctx.fail("_expression._operator." + fname, "missing", "expression function missing", where=opmod.relpath)
            continue
        if meth is None:
            call = _single_call_return(fn) or next((c for c in calls_in(fn.node) if dotted(c.func) == "logical_not"), None)
            src = norm(fn.node)
            ctx.check("logical_not(equal(left, right))" in src, fn.short, "not (left == right)", "`!=` is the negation of `==` on the same operands in the same order", fn.where())
            continue
        calls = [c for c in calls_in(fn.node) if isinstance(c.func, ast.Attribute) and c.func.attr.startswith("_") and norm(c.func.value) == fn.params[0]]
        good = len(calls) == 1 and calls[0].func.attr == meth and [norm(a) for a in calls[0].args] == [fn.params[1]]  # type: ignore
        ctx.check(good, fn.short, "%s.%s(%s)" % (fn.params[0], calls[0].func.attr if calls else "?", fn.params[1]), "%s must dispatch to the left operand's %s with the right operand" % (fname, meth), fn.where())  # type: ignore
        # Rational implementation
        if meth in RATIONAL_IMPL:
            m = rat.methods.get(meth)
            impl = None
            if m is not None:
                c = _single_call_return(m)
                if c is not None and len(c.args) == 2 and norm(c.args[0]) == m.params[1]:
                    d = dotted(c.args[1]) or ""
                    impl = d.split(".")[-1] if d.startswith("operator.") else None
                    helper = c.func.attr if isinstance(c.func, ast.Attribute) else None
                    want_helper = "_generic_compare" if meth in ("_equal", "_less_or_equal", "_greater_or_equal", "_less", "_greater") else ("_generic_bitwise" if "bitwise" in meth else "_generic_arithmetic")
                    if helper != want_helper:
                        impl = "%s via %s" % (impl, helper)
            ctx.check(impl == RATIONAL_IMPL[meth], rat.short + "." + meth, "operator.%s" % impl, "%r on rationals is Python's operator.%s on the exact fractions" % (tok, RATIONAL_IMPL[meth]), m.where() if m else rat.module.relpath)
        if meth in SET_IMPL:
            m = st.methods.get(meth)
            got = _set_semantics(ctx, st, m) if m is not None else None
            ctx.check(got == SET_IMPL[meth], st.short + "." + meth, str(got), "%r on sets is %s" % (tok, SET_IMPL[meth]), m.where() if m else st.module.relpath)
    # generic helpers apply impl(self, right) in that order
    for helper in ("_generic_compare", "_generic_arithmetic"):
        m = rat.methods.get(helper)
        if m is None:
            raise AnalysisError("anchor Rational.%s missing" % helper)
        calls = [c for c in calls_in(m.node) if isinstance(c.func, ast.Name) and c.func.id == m.params[2]]
        good = len(calls) == 1 and [norm(a) for a in calls[0].args] == ["self._value", "%s._value" % m.params[1]]
        ctx.check(good, m.short, norm(calls[0]) if calls else "?", "the operator is applied to (left value, right value) in that order", m.where())
    m = rat.methods.get("_generic_bitwise")
    calls = [c for c in calls_in(m.node) if isinstance(c.func, ast.Name) and c.func.id == m.params[2]] if m else []
    good = len(calls) == 1 and [norm(a) for a in calls[0].args] == ["self.as_native_integer()", "%s.as_native_integer()" % m.params[1]]
    ctx.check(good, rat.short + "._generic_bitwise", norm(calls[0]) if calls else "?", "bitwise operators work on exact integers (non-integers are rejected by as_native_integer)", m.where() if m else "")
    # unary
    unary = {"!": ("visit_op1_form_log_not", "logical_not", "_logical_not"), "+": ("visit_op1_form_inv_pos", "positive", "_positive"), "-": ("visit_op1_form_inv_neg", "negative", "_negative")}
    for tok, (vis, fname, meth) in unary.items():
        v = pt.methods.get(vis)
        rule = vis[len("visit_"):]
        lit = g.rule(rule)[1][0] if g.rule(rule)[0] == "seq" else None
        c = _single_call_return(v) if v else None
        r = repo.resolve_expr(pt.module, c.func, pt) if c is not None else None
        good = lit == ("lit", tok) and isinstance(r, FuncInfo) and r.name == fname and len(c.args) == 1
        if good:
            # the operand is the last child of the form
            unpack = [s for s in body_without_docstring(v.node) if isinstance(s, ast.Assign) and isinstance(s.targets[0], ast.Tuple)]
            good = len(unpack) == 1 and norm(unpack[0].targets[0].elts[-1]) == norm(c.args[0])
        ctx.check(good, pt.short + "." + vis, "'%s' -> %s" % (tok, getattr(r, "name", None)), "unary %r evaluates as %s of its operand" % (tok, fname), v.where() if v else pt.module.relpath)
        fn = opmod.functions.get(fname)
        calls = [x for x in calls_in(fn.node) if isinstance(x.func, ast.Attribute) and x.func.attr == meth and norm(x.func.value) == fn.params[0]] if fn else []
        ctx.check(len(calls) == 1, "_expression._operator." + fname, "operand.%s()" % meth, "%s dispatches to %s" % (fname, meth), fn.where() if fn else "", nontrivial=False)
    for meth, want in (("_positive", "Rational(+self._value)"), ("_negative", "Rational(-self._value)")):
        m = rat.methods.get(meth)
        c = _single_call_return(m) if m else None
        ctx.check(c is not None and norm(c) == want, rat.short + "." + meth, norm(c) if c else "?", "unary sign on the exact fraction", m.where() if m else "")
    bl = ctx.cls(EXPR + "_primitive.Boolean")
    for meth, want in (("_logical_not", "Boolean(not self._value)"), ("_logical_and", "Boolean(self._value and right._value)"), ("_logical_or", "Boolean(self._value or right._value)"), ("_equal", "Boolean(self._value == right._value)")):
        m = bl.methods.get(meth)
        rets = [norm(p.value) for p in paths_of(m.node) if p.kind == "return"] if m else []
        ctx.check(rets == [want], bl.short + "." + meth, str(rets), "boolean %s" % meth, m.where() if m else "")
    # attribute operator
    v = pt.methods.get("visit_op2_attrib")
    rets = [p for p in paths_of(v.node) if p.kind == "return"] if v else []
    r = repo.resolve_expr(pt.module, rets[0].value, pt) if rets else None
    ctx.check(isinstance(r, FuncInfo) and r.name == "attribute", pt.short + ".visit_op2_attrib", "'.' -> %s" % getattr(r, "name", None), "`.` evaluates as the attribute operator", v.where() if v else "")
    at = opmod.functions.get("attribute")
    calls = [c for c in calls_in(at.node) if isinstance(c.func, ast.Attribute) and c.func.attr == "_attribute"] if at else []
    ctx.check(len(calls) == 1 and norm(calls[0].func.value) == at.params[0] and norm(calls[0].args[0]) == at.params[1], "_expression._operator.attribute", norm(calls[0]) if calls else "?", "value._attribute(name)", at.where() if at else "", nontrivial=False)


def _set_semantics(ctx: Ctx, st: ClassInfo, m: FuncInfo) -> Optional[str]:
    """resolve Set._X through its helper to the frozenset operation"""
    rets = [p for p in paths_of(m.node) if p.kind == "return"]
    if len(rets) != 1:
        return None
    v = rets[0].value
    # Boolean(self._helper(right)) or self._helper(right)
    if isinstance(v, ast.Call) and (dotted(v.func) or "").endswith("Boolean") and len(v.args) == 1:
        v = v.args[0]
    if not (isinstance(v, ast.Call) and isinstance(v.func, ast.Attribute) and norm(v.func.value) == "self" and [norm(a) for a in v.args] == [m.params[1]]):
        return None
    return _set_helper(ctx, st, v.func.attr, 0)


def _set_helper(ctx: Ctx, st: ClassInfo, name: str, depth: int) -> Optional[str]:
    h = st.methods.get(name)
    if h is None or depth > 2:
        return None
    rets = [p for p in paths_of(h.node) if p.kind == "return"]
    if len(rets) != 1:
        return None
    v = rets[0].value
    s = norm(v)
    other = h.params[1]
    if s == "self._value == %s._value" % other:
        return "=="
    if isinstance(v, ast.Call) and (dotted(v.func) or "").endswith("Set") and len(v.args) == 1:
        v = v.args[0]
        s = norm(v)
    for op in ("issubset", "issuperset", "union", "intersection", "symmetric_difference"):
        if s == "self._value.%s(%s._value)" % (op, other):
            return op
    # proper subset / superset: A and not equal
    if isinstance(v, ast.BoolOp) and isinstance(v.op, ast.And) and len(v.values) == 2:
        a, b = v.values
        if isinstance(a, ast.Call) and isinstance(a.func, ast.Attribute) and isinstance(b, ast.UnaryOp) and isinstance(b.op, ast.Not) and isinstance(b.operand, ast.Call) and isinstance(b.operand.func, ast.Attribute):
            base = _set_helper(ctx, st, a.func.attr, depth + 1)
            eq = _set_helper(ctx, st, b.operand.func.attr, depth + 1)
            if base in ("issubset", "issuperset") and eq == "==" and [norm(x) for x in a.args] == [other] and [norm(x) for x in b.operand.args] == [other]:
                return "proper " + base
    return None


def rule_r4(ctx: Ctx) -> None:
    repo = ctx.repo
    ctx.rule("C04.R4", "operand swapping: Set._X_right applies the same operator with the scalar on the left; _auto_swap uses the mirrored comparison / the same commutative operator / _X_right, only when operand types differ", min_instances=20)
    st = ctx.cls(EXPR + "_container.Set")
    ew = st.methods.get("_elementwise")
    if ew is None:
        raise AnalysisError("anchor Set._elementwise missing")
    src = norm(ew.node)
    impl, other, swap = ew.params[1], ew.params[2], ew.params[3]
    good = ("%s(%s, x) if %s else %s(x, %s)" % (impl, other, swap, impl, other)) in src and "for x in self" in src
    ctx.check(good, ew.short, "impl(other, x) if swap else impl(x, other)", "element-wise application keeps the scalar on its original side", ew.where())
    for op in ("add", "subtract", "multiply", "divide", "modulo", "power"):
        for suffix, want_swap in (("", False), ("_right", True)):
            m = st.methods.get("_%s%s" % (op, suffix))
            c = _single_call_return(m) if m else None
            good = False
            if c is not None and isinstance(c.func, ast.Attribute) and c.func.attr == "_elementwise" and len(c.args) >= 2:
                r = repo.resolve_expr(st.module, c.args[0], st)
                sw = any(k.arg == swap and norm(k.value) == "True" for k in c.keywords) or (len(c.args) == 3 and norm(c.args[2]) == "True")
                good = isinstance(r, FuncInfo) and r.name == op and norm(c.args[1]) == m.params[1] and sw == want_swap
            ctx.check(good, st.short + "._%s%s" % (op, suffix), norm(c) if c else "?", "set %s scalar / scalar %s set apply `%s` element-wise with the operands in source order" % (op, op, op), m.where() if m else st.module.relpath)
    # _auto_swap
    opmod = repo.module("_expression._operator")
    aswap = opmod.functions.get("_auto_swap")
    if aswap is None:
        raise AnalysisError("anchor _auto_swap missing")
    wrapper = aswap.nested["decorator"].nested["wrapper"]
    wsrc = norm(wrapper.node)
    good = "except _any.UndefinedOperatorError" in wsrc and "if type(left) != type(right)" in wsrc and "getattr(right, alternative_method_name)(left)" in wsrc and "direct_operator(left, right)" in wsrc
    ctx.check(good, wrapper.short, "try direct(left, right); on UndefinedOperatorError and different types: right.<alt>(left)", "the swapped form is attempted only for operands of different types, with the operands exchanged", wrapper.where())
    dsrc = norm(aswap.nested["decorator"].node)
    ctx.check("'_' + alternative_operator_name" in dsrc and "'_%s_right' % direct_operator.__name__" in dsrc, aswap.short, "alt = '_' + name | '_<op>_right'", "the alternative method name is the given mirrored operator or `_<op>_right`", aswap.where(), nontrivial=False)
    for fname, fn in opmod.functions.items():
        decos = [d for d in fn.node.decorator_list if isinstance(d, ast.Call) and dotted(d.func) == "_auto_swap"]
        if not decos:
            continue
        arg = decos[0].args[0].value if decos[0].args and isinstance(decos[0].args[0], ast.Constant) else None
        want = MIRROR.get(fname)
        ctx.check(arg == want, fn.short, "@_auto_swap(%r)" % arg, "the swapped alternative of %s must be %s" % (fname, want or "_%s_right" % fname), fn.where())


def rule_r5(ctx: Ctx) -> None:
    repo = ctx.repo
    ctx.rule("C04.R5", "undefined operand combinations are rejected: Any defaults raise Undefined*Error, every override ends its non-matching-type path in such a raise; empty / heterogeneous sets are rejected", min_instances=40)
    any_c = ctx.cls(EXPR + "_any.Any")
    ioe = ctx.cls(EXPR + "_any.InvalidOperandError")
    n = 0
    for name, m in any_c.methods.items():
        if not name.startswith("_") or name.startswith("__"):
            continue
        body = body_without_docstring(m.node)
        good = len(body) == 1 and isinstance(body[0], ast.Raise)
        if good:
            k = repo.resolve_expr(m.module, body[0].exc.func if isinstance(body[0].exc, ast.Call) else body[0].exc, any_c)  # type: ignore
            good = isinstance(k, ClassInfo) and repo.is_subclass(k, ioe)
        n += 1
        ctx.check(good, m.short, "raise Undefined*Error", "an operator that a value type does not define is an invalid operand error", m.where(), nontrivial=False)
    for cname in ("_primitive.Boolean", "_primitive.Rational", "_primitive.String", "_container.Set"):
        c = ctx.cls(EXPR + cname)
        for name, m in c.methods.items():
            if name not in any_c.methods or name.startswith("__") or name == "_attribute":
                continue
            if len(m.params) < 2:
                continue  # unary
            paths = paths_of(m.node)
            bad = []
            for p in paths:
                if p.kind == "fall":
                    bad.append("falls through")
                if p.kind == "return" and (p.value is None or (isinstance(p.value, ast.Constant) and p.value.value is None)):
                    bad.append("returns None")
                if p.kind == "raise":
                    k = repo.resolve_expr(m.module, p.value.func if isinstance(p.value, ast.Call) else p.value, c)
                    if not (isinstance(k, ClassInfo) and repo.is_subclass(k, ioe)):
                        bad.append("raises %s" % norm(p.value))
            # delegating one-liners (return self._generic_x(right, op)) inherit the helper's discipline
            ctx.check(not bad, m.short, "non-matching operands -> Undefined*Error", "every path returns a value or raises an invalid-operand error", m.where(), bad, nontrivial=False)
    for helper in ("_generic_compare", "_generic_bitwise", "_generic_arithmetic"):
        m = ctx.cls(EXPR + "_primitive.Rational").methods[helper]
        paths = paths_of(m.node)
        neg = [p for p in paths if p.kind in ("raise", "raise-in-try") and any(not pol and not isinstance(c, tuple) and norm(c) == "isinstance(%s, Rational)" % m.params[1] for c, pol in p.conds)]
        ctx.check(len(neg) >= 1, m.short, "non-rational right operand -> UndefinedOperatorError", "a rational combined with a non-rational is undefined", m.where())
    si = ctx.cls(EXPR + "_container.Set").methods["__init__"]
    src = norm(si.node)
    ctx.check("len(list_of_elements) < 1" in src.replace("len(list(elements)) < 1", "len(list_of_elements) < 1") and "len(element_types) != 1" in src, si.short, "empty and heterogeneous sets rejected", "sets must be non-empty and homogeneous", si.where())
    ctx.analysed["C04.R5.any_defaults"] = n


def rule_r6(ctx: Ctx) -> None:
    repo = ctx.repo
    ctx.rule("C04.R6", "exact decoding and arithmetic: integer literals via int(text without '_', base=0), reals via Fraction(text without '_'); no float()/math.* on value paths of the expression package", min_instances=4)
    pt = ctx.cls("_parser._ParseTreeProcessor")
    want = {
        "visit_literal_integer": "_expression.Rational(int(node.text.replace('_', ''), base=0))",
        "visit_literal_integer_decimal": "_expression.Rational(int(node.text.replace('_', '')))",
        "visit_literal_real": "_expression.Rational(fractions.Fraction(node.text.replace('_', '')))",
    }
    for m, w in want.items():
        fn = pt.methods.get(m)
        c = _single_call_return(fn) if fn else None
        ctx.check(c is not None and norm(c) == w, pt.short + "." + m, norm(c) if c else "?", "literals are decoded exactly", fn.where() if fn else pt.module.relpath)
    offenders = []
    for fn in repo.all_functions().values():
        if not fn.module.name.startswith("pydsdl._expression"):
            continue
        for c in calls_in(fn.node):
            n = dotted(c.func) or ""
            if n in ("float", "round") or n.startswith("math."):
                offenders.append("%s: %s" % (fn.short, norm(c)))
        for x in walk_no_nested(fn.node):
            if isinstance(x, ast.Constant) and isinstance(x.value, float):
                offenders.append("%s: float literal %r" % (fn.short, x.value))
    ctx.check(not offenders, "_expression/*", "no float()/round()/math.*/float literals", "expression values are exact rationals", "pydsdl/_expression", offenders)
    rat = ctx.cls(EXPR + "_primitive.Rational")
    init = rat.methods["__init__"]
    stores = [norm(s.value) for s in walk_no_nested(init.node) if isinstance(s, ast.Assign) and norm(s.targets[0]) == "self._value"]
    ctx.check(stores == ["fractions.Fraction(value)"], init.short, str(stores), "the value is held as an exact Fraction", init.where())


def run(ctx: Ctx) -> None:
    g = Grammar.load(ctx.repo)
    ctx.analysed["grammar_rules"] = len(g.rules)
    levels = rule_r1(ctx, g)
    ctx.attempt(rule_r2, ctx, g)
    ctx.attempt(rule_r3, ctx, g, levels)
    ctx.attempt(rule_r4, ctx)
    ctx.attempt(rule_r5, ctx)
    ctx.attempt(rule_r6, ctx)
    ctx.assume("fractions.Fraction and the operator module are exact (trusted stdlib); a fractional power may yield a float (outside the property's quantifier)")
    ctx.undecided("the arithmetic of Fraction, the values of string escapes, set algebra values")
