"""
C04 -- Constant expressions evaluate exactly, with the Specification's precedence.

R1  precedence / associativity table computed from the grammar rule layering (for *all* expression trees) + the left fold
    in the chain visitor.
R2  ordered-choice hazards: no token alternative is a proper prefix of a later one; real before integer; `<=` array form
    before `<` before fixed.
R3  token -> semantics, extensionally: the callable the visitor yields for each operator token is applied to symbolic operands
    (exprmodel) and the recorded result is compared with the Specification's operator on the same operands.
R4  operand-swap discipline of the set-vs-scalar operators and of _auto_swap.
R5  undefined => rejected: every default and every non-matching-type path raises an InvalidOperandError subclass.
R6  exactness: literals are decoded exactly (int(..., base=0) / Fraction(text)); no float / math function on value paths.
"""
from __future__ import annotations

import ast
from typing import Any, Dict, List, Optional, Set, Tuple

import operator as _op
from fractions import Fraction

from ..absint import AObj, Raised, Recorder, _BoundMethod, construct
from ..core import AnalysisError, ClassInfo, Ctx, External, FuncInfo, body_without_docstring, calls_in, dotted, norm, walk_no_nested
from ..exprmodel import BV, QV, SV, ExprModel, _integer, _t, is_negative, is_zero
from ..fold import Folder, Sym, Unfoldable, call_value
from ..layout import explore
from ..peg import Grammar

EXPR = "_expression."

# Specification: operators from loosest to tightest binding
SPEC_LEVELS = [
    ("binary-left", {"||", "&&"}),
    ("unary-prefix", {"!"}),
    ("binary-left", {"==", "!=", "<=", ">=", "<", ">"}),
    ("binary-left", {"|", "^", "&"}),
    ("binary-left", {"+", "-"}),
    ("binary-left", {"*", "/", "%"}),
    ("unary-prefix", {"+", "-"}),
    ("binary-right", {"**"}),
    ("binary-left", {"."}),
]
# token -> (expression function, Any method, python operator used by Rational, set meaning)
BINARY = {
    "||": ("logical_or", "_logical_or"), "&&": ("logical_and", "_logical_and"),
    "==": ("equal", "_equal"), "!=": ("not_equal", None),
    "<=": ("less_or_equal", "_less_or_equal"), ">=": ("greater_or_equal", "_greater_or_equal"),
    "<": ("less", "_less"), ">": ("greater", "_greater"),
    "|": ("bitwise_or", "_bitwise_or"), "^": ("bitwise_xor", "_bitwise_xor"), "&": ("bitwise_and", "_bitwise_and"),
    "+": ("add", "_add"), "-": ("subtract", "_subtract"),
    "*": ("multiply", "_multiply"), "/": ("divide", "_divide"), "%": ("modulo", "_modulo"),
    "**": ("power", "_power"),
}
RATIONAL_IMPL = {
    "_equal": "eq", "_less_or_equal": "le", "_greater_or_equal": "ge", "_less": "lt", "_greater": "gt",
    "_bitwise_or": "or_", "_bitwise_xor": "xor", "_bitwise_and": "and_",
    "_add": "add", "_subtract": "sub", "_multiply": "mul", "_divide": "truediv", "_modulo": "mod", "_power": "pow",
}
SET_IMPL = {
    "_equal": "==", "_less_or_equal": "issubset", "_greater_or_equal": "issuperset", "_less": "proper issubset", "_greater": "proper issuperset",
    "_bitwise_or": "union", "_bitwise_xor": "symmetric_difference", "_bitwise_and": "intersection",
}
MIRROR = {"less_or_equal": "greater_or_equal", "greater_or_equal": "less_or_equal", "less": "greater", "greater": "less", "equal": "equal", "logical_or": "logical_or", "logical_and": "logical_and"}


def _tokens_of(g: Grammar, node: Any, depth: int = 0) -> Optional[List[str]]:
    """literal tokens an operator rule can match (alternation of literals / refs to literals)"""
    if depth > 4:
        return None
    t = node[0]
    if t == "lit":
        return [node[1]]
    if t == "ref" and node[1] in g.rules:
        return _tokens_of(g, g.rules[node[1]], depth + 1)
    if t == "alt":
        out: List[str] = []
        for x in node[1]:
            r = _tokens_of(g, x, depth + 1)
            if r is None:
                return None
            out.extend(r)
        return out
    return None


def extract_levels(g: Grammar) -> List[Dict[str, Any]]:
    """Walk the ex_* layering from `expression` down to `expression_atom`."""
    levels: List[Dict[str, Any]] = []
    cur = "expression"
    seen = set()
    while cur != "expression_atom":
        if cur in seen:
            raise AnalysisError("grammar: expression layering is cyclic at %s" % cur)
        seen.add(cur)
        node = g.rule(cur)
        if node[0] == "ref":  # alias
            cur = node[1]
            continue
        if node[0] == "seq" and len(node[1]) == 2 and node[1][0][0] == "ref" and node[1][1][0] in ("star", "opt"):
            operand = node[1][0][1]
            rep, inner = node[1][1]
            if inner[0] != "seq":
                raise AnalysisError("grammar: unexpected chain body in %s" % cur)
            parts = [x for x in inner[1] if not (x[0] == "opt" and x[1] == ("ref", "_")) and x != ("ref", "_")]
            if len(parts) != 2:
                raise AnalysisError("grammar: chain body of %s is not `op operand`" % cur)
            toks = _tokens_of(g, parts[0])
            if toks is None or parts[1][0] != "ref":
                raise AnalysisError("grammar: cannot resolve the operator tokens of %s" % cur)
            blanks_ok = inner[1][0] == ("opt", ("ref", "_")) and inner[1][2] == ("opt", ("ref", "_")) if len(inner[1]) == 4 else False
            levels.append({"rule": cur, "kind": "binary-left" if rep == "star" else "binary-right?", "tokens": set(toks), "operand": operand, "right": parts[1][1], "op_rule": parts[0][1] if parts[0][0] == "ref" else None, "blanks": blanks_ok})
            cur = operand
            continue
        if node[0] == "alt":
            forms, nxt = [], None
            for x in node[1]:
                if x[0] == "ref" and x[1].startswith("op1_form"):
                    forms.append(x[1])
                elif x[0] == "ref":
                    nxt = x[1]
            if nxt is None or not forms or node[1][-1] != ("ref", nxt):
                raise AnalysisError("grammar: %s is not `unary forms / next level`" % cur)
            toks = set()
            operands = set()
            for f in forms:
                fn = g.rule(f)
                if fn[0] != "seq" or fn[1][0][0] != "lit" or fn[1][-1][0] != "ref":
                    raise AnalysisError("grammar: unary form %s has an unexpected shape" % f)
                toks.add(fn[1][0][1])
                operands.add(fn[1][-1][1])
            levels.append({"rule": cur, "kind": "unary-prefix", "tokens": toks, "operand": nxt, "form_operands": operands, "forms": forms})
            cur = nxt
            continue
        raise AnalysisError("grammar: cannot classify expression rule %s = %s" % (cur, g.show(node)))
    return levels


def rule_r1(ctx: Ctx, g: Grammar) -> List[Dict[str, Any]]:
    ctx.rule("C04.R1", "operator precedence and associativity computed from the grammar layering equal the Specification's table; chains are folded left to right", min_instances=10)
    levels = extract_levels(g)
    rule_names = [l["rule"] for l in levels]
    ok_len = len(levels) == len(SPEC_LEVELS)
    ctx.check(ok_len, "grammar.expression", " > ".join(rule_names), "the expression grammar has the Specification's nine binding levels", g.path, [sorted(l["tokens"]) for l in levels])
    for i, (lvl, (skind, stoks)) in enumerate(zip(levels, SPEC_LEVELS)):
        kind = lvl["kind"]
        detail: Dict[str, Any] = {"tokens": sorted(lvl["tokens"]), "expected_tokens": sorted(stoks), "kind": kind, "expected_kind": skind}
        good = lvl["tokens"] == stoks
        if skind == "binary-left":
            want_right = "identifier" if stoks == {"."} else lvl["operand"]
            good = good and kind == "binary-left" and lvl["right"] == want_right
        elif skind == "binary-right":
            # A (op B)? with B a *looser* level that leads back to A: right-associative, and unary minus allowed on the right
            looser = rule_names[:i]
            good = good and kind == "binary-right?" and lvl["right"] in looser and lvl["right"] == (levels[i - 1]["rule"] if i else None)
            detail["right_operand"] = lvl["right"]
        else:
            good = good and kind == "unary-prefix"
            if "!" in stoks:
                good = good and lvl["form_operands"] == {lvl["rule"]}  # `! !x` nests
            else:
                good = good and lvl["form_operands"] == {lvl["operand"]}  # -2 ** 2 == -(2 ** 2)
            detail["form_operands"] = sorted(lvl.get("form_operands", []))
        if kind.startswith("binary"):
            good = good and lvl["blanks"]
        ctx.check(good, "grammar." + lvl["rule"], "level %d: %s %s" % (i + 1, kind, sorted(lvl["tokens"])), "binding level %d must be %s over %s" % (i + 1, skind, sorted(stoks)), "%s:%d" % (g.path, g.lines.get(lvl["rule"], 0)), detail)
        ctx.count()
    ctx.sample({"rule": "C04.R1", "levels": [(l["rule"], l["kind"], sorted(l["tokens"])) for l in levels]})
    return levels


def _handler(ctx: Ctx, m: ExprModel, pt: ClassInfo, rule: str) -> Any:
    """what `visit_<rule>` of the parse tree processor is bound to, as a callable (node, children) -> value"""
    repo = ctx.repo
    name = "visit_" + rule
    me = AObj(pt, ctx)
    folder = Folder({"self": me}, repo, pt.module, pt, m.hook)

    def bound(fn: FuncInfo) -> Any:
        return lambda node, children: _BoundMethod(me, fn).call(folder, [node, children], {})

    fn = repo.lookup_method(pt, name)
    if fn is not None:
        return bound(fn)
    v = repo.lookup_class_attr(pt, name)
    if v is None:
        raise AnalysisError("the parse tree processor has no handler for the grammar rule %s" % rule)
    if isinstance(v, ast.Name) and repo.lookup_method(pt, v.id) is not None:
        return bound(repo.lookup_method(pt, v.id))
    try:
        h = Folder({}, repo, pt.module, pt, m.hook).fold(v)
    except Unfoldable as ex:
        raise AnalysisError("cannot evaluate the handler %s = %s: %s" % (name, norm(v), ex))
    return lambda node, children: call_value(folder, h, [me, node, children])


def rule_r1_fold(ctx: Ctx, m: ExprModel, levels: List[Dict[str, Any]]) -> None:
    ctx.rule("C04.R1", "operator precedence and associativity computed from the grammar layering equal the Specification's table; chains are folded left to right", min_instances=10)
    pt = ctx.cls("_parser._ParseTreeProcessor")
    any_isa = frozenset({"Any"})
    for l in levels:
        if not l["kind"].startswith("binary"):
            # a unary level passes its single child through
            h = _handler(ctx, m, pt, l["rule"])
            tok = Sym(_kind_="operand", _isa_=any_isa)
            try:
                got = h(Sym(_kind_="Node"), [tok])
            except (Unfoldable, Raised) as ex:
                raise AnalysisError("visit_%s: cannot evaluate over an abstract child: %s" % (l["rule"], ex))
            ctx.check(got is tok, pt.short + ".visit_" + l["rule"], "lifts its child", "a unary level passes its single child through", pt.module.relpath, nontrivial=False)
            continue
        h = _handler(ctx, m, pt, l["rule"])
        ops = [Recorder("op%d" % i) for i in range(3)]
        for i, o in enumerate(ops):
            o.result = (lambda i: lambda a, b: ("op%d" % i, a, b))(i)
        xs = [Sym(_kind_="x%d" % i, _isa_=any_isa) for i in range(4)]
        bad = []
        for n in range(0, 4):
            children = [xs[0], [[None, ops[i], None, xs[i + 1]] for i in range(n)]]
            want: Any = xs[0]
            for i in range(n):
                want = ("op%d" % i, want, xs[i + 1])
            try:
                got = h(Sym(_kind_="Node"), children)
            except (Unfoldable, Raised) as ex:
                raise AnalysisError("visit_%s: cannot evaluate over an abstract operator chain: %s" % (l["rule"], ex))
            ctx.count()
            if got != want:
                bad.append({"chain": "x0 " + " ".join("op%d x%d" % (i, i + 1) for i in range(n)), "found": repr(got)[:160], "expected": repr(want)[:160]})
        ctx.check(not bad, pt.short + ".visit_" + l["rule"], "x0 op0 x1 op1 x2 op2 x3 -> op2(op1(op0(x0, x1), x2), x3)", "operator chains are folded from the left in source order", pt.module.relpath, bad[:2])


def rule_r2(ctx: Ctx, g: Grammar) -> None:
    ctx.rule("C04.R2", "ordered choice: no operator token shadows a longer one; real literals before integers; `<=`, `<`, fixed array forms in that order", min_instances=6)
    n = 0
    for name, node in g.rules.items():
        if node[0] != "alt":
            continue
        toks = []
        pure = True
        for x in node[1]:
            t = _tokens_of(g, x)
            if t is None or len(t) != 1:
                pure = False
                break
            toks.append(t[0])
        if not pure:
            continue
        n += 1
        bad = [(toks[i], toks[j]) for i in range(len(toks)) for j in range(i + 1, len(toks)) if toks[j].startswith(toks[i]) and toks[j] != toks[i]]
        ctx.check(not bad, "grammar." + name, " / ".join(toks), "an earlier alternative must not be a proper prefix of a later one (PEG choice is ordered)", "%s:%d" % (g.path, g.lines.get(name, 0)), bad)
    lit = g.rule("literal")
    order = [x[1] for x in lit[1]] if lit[0] == "alt" else []
    good = "literal_real" in order and "literal_integer" in order and order.index("literal_real") < order.index("literal_integer") and order.index("literal_set") == 0
    ctx.check(good, "grammar.literal", " / ".join(order), "real literals are tried before integers (an integer is a prefix of a real)", "%s:%d" % (g.path, g.lines.get("literal", 0)))
    real = g.rule("literal_real")
    order = [x[1] for x in real[1]] if real[0] == "alt" else []
    ctx.check(order[:1] == ["literal_real_exponent_notation"], "grammar.literal_real", " / ".join(order), "exponent notation is tried before plain point notation", g.path, nontrivial=False)
    arr = g.rule("type_array")
    order = [x[1] for x in arr[1]] if arr[0] == "alt" else []

    def marker(rule: str) -> Optional[str]:
        node = g.rule(rule)
        lits = [x[1] for x in node[1] if x[0] == "lit"] if node[0] == "seq" else []
        inner = [x for x in lits if x not in ("[", "]")]
        return inner[0] if inner else ""

    marks = [marker(r) for r in order]
    ctx.check(marks == ["<=", "<", ""], "grammar.type_array", " / ".join("%s(%s)" % (r, m or "fixed") for r, m in zip(order, marks)), "`[<=n]` before `[<n]` before `[n]`", "%s:%d" % (g.path, g.lines.get("type_array", 0)))
    integer = g.rule("literal_integer")
    order = [x[1] for x in integer[1]] if integer[0] == "alt" else []
    ctx.check(order and order[-1] == "literal_integer_decimal", "grammar.literal_integer", " / ".join(order), "prefixed integer forms (0b/0o/0x) are tried before plain decimal", g.path, nontrivial=False)
    atom = g.rule("expression_atom")
    order = [x[1] for x in atom[1]] if atom[0] == "alt" else []
    ctx.check(order == ["expression_parenthesized", "type", "literal", "identifier"], "grammar.expression_atom", " / ".join(order), "types and literals (true/false, bool ...) are tried before bare identifiers", g.path, nontrivial=False)
    if n < 5:
        raise AnalysisError("C04.R2: only %d token alternations found" % n)



# ----------------------------------------------------------------------------------------------------------------------
# The Specification's operator semantics over native values (applied to the symbolic operands the model uses)
ARITH = {"+": _op.add, "-": _op.sub, "*": _op.mul, "/": _op.truediv, "%": _op.mod, "**": _op.pow}
CMP = {"==": _op.eq, "!=": _op.ne, "<=": _op.le, ">=": _op.ge, "<": _op.lt, ">": _op.gt}
BIT = {"|": _op.or_, "^": _op.xor, "&": _op.and_}
LOGIC = {"||": lambda a, b: a or b, "&&": lambda a, b: a and b}
SETCMP = {"==": lambda a, b: a == b, "!=": lambda a, b: a != b, "<=": lambda a, b: a <= b, ">=": lambda a, b: a >= b, "<": lambda a, b: a < b, ">": lambda a, b: a > b}
SETBIT = {"|": lambda a, b: a | b, "^": lambda a, b: a ^ b, "&": lambda a, b: a & b}
TOKENS = list(LOGIC) + list(CMP) + list(BIT) + list(ARITH)
ERROR = ("error",)


def _nfc(x: Any) -> Any:
    return x if isinstance(x.term, tuple) and x.term[:2] == ("normalize", "NFC") else SV(("normalize", "NFC", x.term))


def spec_binary(tok: str, lk: str, lv: Any, rk: str, rv: Any) -> Any:
    """("value", kind, native) | ERROR | None (not decided here), for operand kinds and native values"""
    if lk == rk == "Rational":
        if tok in ARITH:
            # value-dependent cases are decided along the explored run (the same decisions the evaluated code met)
            if tok in ("/", "%") and is_zero(rv):
                return ERROR
            if tok == "**":
                if _integer(rv):
                    if is_negative(rv) and is_zero(lv):
                        return ERROR
                elif is_negative(lv):
                    return ERROR  # not a real number
            return ("value", "Rational", ARITH[tok](lv, rv))
        if tok in CMP:
            return ("value", "Boolean", CMP[tok](lv, rv))
        if tok in BIT:
            li = lv.integer if isinstance(lv, QV) else True
            ri = rv.integer if isinstance(rv, QV) else True
            return ("value", "Rational", BIT[tok](lv, rv)) if li and ri else ERROR
        return ERROR
    if lk == rk == "Boolean":
        if tok in LOGIC:
            return ("value", "Boolean", LOGIC[tok](lv, rv))
        if tok in ("==", "!="):
            return ("value", "Boolean", (lv == rv) if tok == "==" else (lv != rv))
        return ERROR
    if lk == rk == "String":
        if tok == "+":
            return ("value", "String", lv + rv)
        if tok in ("==", "!="):
            return ("value", "Boolean", CMP[tok](_nfc(lv), _nfc(rv)))
        return ERROR
    if lk == rk == "Set":
        if tok in SETCMP:
            return ("value", "Boolean", SETCMP[tok](frozenset(lv), frozenset(rv)))
        if tok in SETBIT:
            r = SETBIT[tok](frozenset(lv), frozenset(rv))
            return ("value", "Set", r) if r else ERROR  # an empty set cannot be represented
        return ERROR  # logical and arithmetic operators between two sets are undefined
    if {lk, rk} == {"Set", "Rational"}:
        if tok in ARITH:
            elems = []
            for x in lv if lk == "Set" else rv:
                r = spec_binary(tok, "Rational", x, "Rational", rv) if lk == "Set" else spec_binary(tok, "Rational", lv, "Rational", x)
                if r == ERROR:
                    return ERROR
                elems.append(r[2])
            return ("value", "Set", frozenset(elems))
        return ERROR
    return ERROR


def _sometimes_defined(tok: str, lv: Any, rv: Any) -> bool:
    return any(r != ERROR for _, r in explore(lambda: spec_binary(tok, "Rational", lv, "Rational", rv)))


def _sometimes_undefined(tok: str, lv: Any, rv: Any) -> bool:
    return any(r == ERROR for _, r in explore(lambda: spec_binary(tok, "Rational", lv, "Rational", rv)))


def _canon(kind: str, native: Any) -> Any:
    if kind == "Set":
        return sorted(repr(_t(x)) for x in native)
    if isinstance(native, (BV,)):
        return bool(native)  # decided along the run being explored
    return repr(_t(native)) if isinstance(native, (QV, SV)) else native


class _Operands:
    def __init__(self, ctx: Ctx, m: ExprModel):
        self.m = m
        self.ioe = ctx.cls(EXPR + "_any.InvalidOperandError")
        self.ctx = ctx
        v = m.value
        self.ints = [QV("i", True), QV("j", True)]
        self.fracs = [QV("p", False), QV("q", False)]
        self.rationals = {"integer i": self.ints[0], "integer j": self.ints[1], "non-integer p": self.fracs[0], "non-integer q": self.fracs[1], "zero": Fraction(0)}
        self.strings = {"string s": SV("s"), "string t": SV("t")}
        self.pool = [QV("e1", True), QV("e2", True), QV("e3", True)]
        self.pool_objs = [v("Rational", x) for x in self.pool]
        self.obj_native = {id(o): n for o, n in zip(self.pool_objs, self.pool)}

    def rational(self, n: Any) -> Any:
        return self.m.value("Rational", n)

    def sets(self) -> List[Tuple[str, Any, List[Any]]]:
        out = []
        for mask in range(1, 8):
            objs = [o for i, o in enumerate(self.pool_objs) if mask >> i & 1]
            out.append(("{%s}" % ", ".join("e%d" % (i + 1) for i in range(3) if mask >> i & 1), self.m.value("Set", list(objs)), [self.pool[i] for i in range(3) if mask >> i & 1]))
        return out

    def is_rejection(self, r: Raised) -> bool:
        k = None
        for c in self.ctx.repo.all_classes().values():
            if c.name == r.cls_name:
                k = c
        return k is not None and self.ctx.repo.is_subclass(k, self.ioe)

    def observe(self, run: Any, want_fn: Any) -> Optional[Dict[str, Any]]:
        """evaluate `run` (-> expression value) along every abstract branch and the Specification's result `want_fn()` under
        the same decisions; None if they always agree"""
        m = self.m
        if not callable(want_fn):
            fixed = want_fn
            want_fn = lambda: fixed  # noqa: E731

        def once() -> Any:
            try:
                r = run()
                if not isinstance(r, AObj):
                    got: Any = ("not-a-value", repr(r)[:80])
                else:
                    kind = r._cls_.name
                    nat = [m.native(x) for x in m.elements(r)] if kind == "Set" else m.native(r)
                    got = ("value", kind, _canon(kind, nat))
            except Raised as ex:
                got = ERROR if self.is_rejection(ex) else ("raises", ex.cls_name)
            want = want_fn()
            exp = want if want == ERROR else ("value", want[1], _canon(want[1], want[2]))
            return (got, exp)

        try:
            runs = explore(once, max_runs=256)
        except Unfoldable as ex:
            raise AnalysisError("cannot evaluate over symbolic operands: %s" % ex)
        for assumptions, (got, exp) in runs:
            if got != exp:
                return {"found": "rejected as an invalid operand" if got == ERROR else repr(got)[:160], "expected": "rejected as an invalid operand" if exp == ERROR else repr(exp)[:160], "when": [repr(a)[:80] for a in assumptions][:4]}
        return None


def _operator_functions(ctx: Ctx, m: ExprModel, g: Grammar) -> Tuple[Dict[str, Any], Dict[str, Any]]:
    """token -> the callable the parser's visitor yields for the token's grammar rule (evaluated from source)"""
    pt = ctx.cls("_parser._ParseTreeProcessor")
    binary: Dict[str, Any] = {}
    for name, node in g.rules.items():
        if name.startswith("op2_") and node[0] == "lit" and node[1] in TOKENS:
            h = _handler(ctx, m, pt, name)
            try:
                binary[node[1]] = h(Sym(_kind_="Node", text=node[1]), [])
            except (Unfoldable, Raised) as ex:
                raise AnalysisError("visit_%s: cannot evaluate: %s" % (name, ex))
    missing = [t for t in TOKENS if t not in binary]
    if missing:
        raise AnalysisError("no grammar rule / handler found for the operator tokens %s" % missing)
    unary: Dict[str, Any] = {}
    for name, node in g.rules.items():
        if name.startswith("op1_form_") and node[0] == "seq" and node[1] and node[1][0][0] == "lit":
            tok = node[1][0][1]
            h = _handler(ctx, m, pt, name)
            unary[tok] = (lambda h, tok: lambda operand: h(Sym(_kind_="Node"), [Sym(_kind_="Node", _isa_=frozenset({"Node"}), text=tok), None, operand]))(h, tok)
    if sorted(unary) != ["!", "+", "-"]:
        raise AnalysisError("unary operator forms found in the grammar: %s" % sorted(unary))
    return binary, unary


def rule_r3_r4_r5(ctx: Ctx, g: Grammar, m: ExprModel) -> None:
    ctx.rule("C04.R3", "each operator token, taken from the grammar through the visitor to the value classes, computes what it denotes: the recorded operator on the exact operands, in source order (symbolic operands: all values)", min_instances=37)
    ctx.rule("C04.R4", "set (op) scalar and scalar (op) set apply the operator element-wise with the operands in source order", min_instances=12)
    ctx.rule("C04.R5", "undefined operand combinations are rejected with an invalid-operand error: mismatched kinds, non-integers in bitwise operators, division by zero, empty / heterogeneous sets", min_instances=70)
    binary, unary = _operator_functions(ctx, m, g)
    O = _Operands(ctx, m)
    call = m.call
    where = "pydsdl/_expression"
    # Rational x Rational
    pairs = [("integer i", "integer j"), ("integer i", "non-integer q"), ("non-integer p", "integer j"), ("non-integer p", "non-integer q"), ("integer i", "zero"), ("non-integer p", "zero"), ("integer i", "integer i")]
    for tok in TOKENS:
        bad3, bad5 = [], []
        for ln, rn in pairs:
            lv, rv = O.rationals[ln], O.rationals[rn]
            L, R = O.rational(lv), O.rational(rv)
            d = O.observe(lambda: call(binary[tok], L, R), lambda: spec_binary(tok, "Rational", lv, "Rational", rv))
            ctx.count()
            if d:
                d["operands"] = "%s %s %s" % (ln, tok, rn)
                (bad5 if d["expected"].startswith("rejected") else bad3).append(d)
        n_def = sum(1 for ln, rn in pairs if _sometimes_defined(tok, O.rationals[ln], O.rationals[rn]))
        if n_def:
            ctx.check(not bad3, "rational %s rational" % tok, "%d operand sorts" % n_def, "%r on rationals is the exact operator on (left, right)" % tok, where, bad3[:3], rule="C04.R3")
        n_undef = sum(1 for ln, rn in pairs if _sometimes_undefined(tok, O.rationals[ln], O.rationals[rn]))
        if n_undef:
            ctx.check(not bad5, "rational %s rational (undefined cases)" % tok, "%d operand sorts" % n_undef, "%r is rejected for these rational operands (non-integers in bitwise operators, zero divisors, zero to a negative power, fractional powers of negative numbers, logical operators)" % tok, where, bad5[:3], rule="C04.R5")
    # Boolean x Boolean: the whole domain
    for tok in TOKENS:
        bad = []
        for a in (False, True):
            for b in (False, True):
                want = spec_binary(tok, "Boolean", a, "Boolean", b)
                L, R = m.value("Boolean", a), m.value("Boolean", b)
                d = O.observe(lambda: call(binary[tok], L, R), want)
                ctx.count()
                if d:
                    d["operands"] = "%s %s %s" % (a, tok, b)
                    bad.append(d)
        defined = spec_binary(tok, "Boolean", True, "Boolean", True) != ERROR
        ctx.check(not bad, "boolean %s boolean" % tok, "truth table" if defined else "rejected", "%r on booleans: %s" % (tok, "its truth table" if defined else "undefined"), where, bad[:3], rule="C04.R3" if defined else "C04.R5")
    # String x String
    for tok in TOKENS:
        want = spec_binary(tok, "String", O.strings["string s"], "String", O.strings["string t"])
        L, R = m.value("String", O.strings["string s"]), m.value("String", O.strings["string t"])
        d = O.observe(lambda: call(binary[tok], L, R), want)
        ctx.count()
        ctx.check(d is None, "string %s string" % tok, "s %s t" % tok, "%r on strings: %s" % (tok, "concatenation / comparison of the NFC-normalised texts" if want != ERROR else "undefined"), where, d, rule="C04.R3" if want != ERROR else "C04.R5")
    # Set x Set over every pair of non-empty subsets of a three-element pool (every Venn pattern)
    sets = O.sets()
    for tok in TOKENS:
        bad3, bad5 = [], []
        for ln, L, lv in sets:
            for rn, R, rv in sets:
                want = spec_binary(tok, "Set", lv, "Set", rv)
                d = O.observe(lambda: call(binary[tok], L, R), want)
                ctx.count()
                if d:
                    d["operands"] = "%s %s %s" % (ln, tok, rn)
                    (bad5 if want == ERROR else bad3).append(d)
        if tok in LOGIC or tok in ARITH:
            ctx.check(not bad5 and not bad3, "set %s set" % tok, "rejected", "%r between two sets is undefined" % tok, where, (bad5 + bad3)[:3], rule="C04.R5")
        else:
            ctx.check(not bad3 and not bad5, "set %s set" % tok, "49 pairs of subsets", "%r on sets is the %s" % (tok, "subset relation" if tok in SETCMP else "set operation (an empty result is rejected)"), where, (bad3 + bad5)[:3], rule="C04.R3")
    # Set x scalar, scalar x Set
    s2 = [x for x in sets if x[0] == "{e1, e2}"][0]
    for tok in TOKENS:
        for order in ("set-scalar", "scalar-set"):
            sv = O.rationals["integer i"]
            S = O.rational(sv)
            if order == "set-scalar":
                d = O.observe(lambda: call(binary[tok], s2[1], S), lambda: spec_binary(tok, "Set", s2[2], "Rational", sv))
                label = "{e1, e2} %s i" % tok
            else:
                d = O.observe(lambda: call(binary[tok], S, s2[1]), lambda: spec_binary(tok, "Rational", sv, "Set", s2[2]))
                label = "i %s {e1, e2}" % tok
            ctx.count()
            if tok in ARITH:
                ctx.check(d is None, label, "element-wise", "the operator is applied to each element with the scalar on its original side", where, d, rule="C04.R4")
            else:
                ctx.check(d is None, label, "rejected", "%r between a set and a scalar is undefined" % tok, where, d, rule="C04.R5")
    # mismatched kinds
    samples = {"Rational": O.rational(O.ints[0]), "Boolean": m.value("Boolean", True), "String": m.value("String", O.strings["string s"]), "Set": s2[1]}
    for lk, rk in (("Rational", "Boolean"), ("Boolean", "Rational"), ("Rational", "String"), ("String", "Rational"), ("Boolean", "String"), ("String", "Boolean"), ("Set", "Boolean"), ("Boolean", "Set"), ("Set", "String"), ("String", "Set")):
        bad = []
        for tok in TOKENS:
            d = O.observe(lambda: call(binary[tok], samples[lk], samples[rk]), ERROR)
            ctx.count()
            if d:
                d["operands"] = "%s %s %s" % (lk, tok, rk)
                bad.append(d)
        ctx.check(not bad, "%s (op) %s" % (lk.lower(), rk.lower()), "all %d operators rejected" % len(TOKENS), "operators between different kinds of values are undefined", where, bad[:3], rule="C04.R5")
    # unary
    for tok, kind, native, want in (
        ("!", "Boolean", True, ("value", "Boolean", False)), ("!", "Boolean", False, ("value", "Boolean", True)),
        ("-", "Rational", O.fracs[0], ("value", "Rational", -O.fracs[0])), ("+", "Rational", O.fracs[0], ("value", "Rational", +O.fracs[0])),
        ("-", "Rational", O.ints[0], ("value", "Rational", -O.ints[0])),
    ):
        X = m.value(kind, native)
        d = O.observe(lambda: unary[tok](X), want)
        ctx.count()
        ctx.check(d is None, "%s %s" % (tok, kind.lower()), repr(want[2])[:40], "unary %r on a %s" % (tok, kind.lower()), where, d, rule="C04.R3")
    for tok, kinds in (("!", ("Rational", "String", "Set")), ("-", ("Boolean", "String", "Set")), ("+", ("Boolean", "String", "Set"))):
        bad = []
        for k in kinds:
            d = O.observe(lambda: unary[tok](samples[k]), ERROR)
            ctx.count()
            if d:
                d["operand"] = k
                bad.append(d)
        ctx.check(not bad, "%s (non-%s)" % (tok, "boolean" if tok == "!" else "rational"), "rejected", "unary %r is undefined for other kinds of values" % tok, where, bad[:3], rule="C04.R5")
    # sets of different element types do not combine
    sset = m.value("Set", [m.value("String", O.strings["string s"])])
    bad = []
    for tok in list(CMP) + list(BIT):
        for L, R in ((s2[1], sset), (sset, s2[1])):
            d = O.observe(lambda: call(binary[tok], L, R), ERROR)
            ctx.count()
            if d:
                d["operator"] = tok
                bad.append(d)
    ctx.check(not bad, "set of rationals (op) set of strings", "rejected", "set operators are defined between sets of the same element type only", where, bad[:3], rule="C04.R5")
    # sets must be non-empty and homogeneous
    for label, elems in (("empty set", []), ("heterogeneous set", [samples["Rational"], samples["Boolean"]])):
        try:
            construct(ctx, ctx.cls(EXPR + "_container.Set"), list(elems), hook=m.hook)
            found = "accepted"
        except Raised as r:
            found = "rejected" if O.is_rejection(r) else "raises " + r.cls_name
        except Unfoldable as ex:
            raise AnalysisError("Set(%s): cannot evaluate: %s" % (label, ex))
        ctx.count()
        ctx.check(found == "rejected", "Set(%s)" % label, found, "sets must be non-empty and homogeneous", where, rule="C04.R5")
    # attribute operator
    pt = ctx.cls("_parser._ParseTreeProcessor")
    try:
        att = _handler(ctx, m, pt, "op2_attrib")(Sym(_kind_="Node"), [])
        rec = Recorder("_attribute", result=lambda name: ("attribute", name))
        got = call(att, Sym(_kind_="value", _attribute=rec, _isa_=frozenset({"Any"})), "name")
    except (Unfoldable, Raised) as ex:
        raise AnalysisError("the attribute operator: cannot evaluate: %s" % ex)
    if isinstance(got, tuple) and len(got) == 2 and isinstance(got[1], AObj) and got[1]._cls_.name == "String":
        got = (got[0], m.native(got[1]))  # a native name is wrapped into a string value on the way
    ctx.check(got == ("attribute", "name"), pt.short + ".visit_op2_attrib", "'.' -> value._attribute(name)", "`.` evaluates as the attribute operator of the left operand", pt.module.relpath, repr(got)[:80], rule="C04.R3", nontrivial=False)


def rule_r6(ctx: Ctx, m: ExprModel) -> None:
    repo = ctx.repo
    ctx.rule("C04.R6", "exact decoding and arithmetic: integer and real literals are decoded to the exact rational they spell (grid of literal texts); no float()/math.* on value paths of the expression package; the value is held as given", min_instances=4)
    pt = ctx.cls("_parser._ParseTreeProcessor")
    grid = {
        "literal_integer_binary": ["0b0", "0b1011", "0B1_0_1", "0b1111_0000"],
        "literal_integer_octal": ["0o0", "0o17", "0O7_7", "0o123_456"],
        "literal_integer_hexadecimal": ["0x0", "0xFF", "0Xde_ad", "0x1234_5678_9ABC"],
        "literal_integer_decimal": ["0", "7", "1_000", "123456789012345678901234567890"],
        "literal_real_point_notation": ["0.5", "1_0.2_5", ".125", "123456789.000000000001"],
        "literal_real_exponent_notation": ["1e3", "1.5e-3", "2_5E+0_2", "1e-30", "12.5e1"],
    }
    for rule, texts in grid.items():
        if rule not in Grammar.load(repo).rules:
            raise AnalysisError("grammar rule %s missing" % rule)
        # the value is produced by the handler of the rule itself or, when the rule has none (lifted), of the enclosing form
        chain = [rule, "literal_integer" if "integer" in rule else "literal_real"]
        hname = next((r for r in chain if repo.lookup_method(pt, "visit_" + r) is not None or repo.lookup_class_attr(pt, "visit_" + r) is not None), None)
        if hname is None:
            raise AnalysisError("no handler decodes %s" % rule)
        h = _handler(ctx, m, pt, hname)
        bad = []
        for t in texts:
            clean = t.replace("_", "")
            want = Fraction(int(clean, 0)) if "integer" in rule and not clean.isdigit() else (Fraction(int(clean)) if "integer" in rule else Fraction(clean))
            try:
                r = h(Sym(_kind_="Node", text=t, _isa_=frozenset({"Node"})), [Sym(_kind_="Node", text=t)])
                got = m.native(r)
            except Raised as ex:
                got = "raises " + ex.cls_name
            except Unfoldable as ex:
                raise AnalysisError("visit_%s(%r): cannot evaluate: %s" % (hname, t, ex))
            ctx.count()
            if got != want or isinstance(got, float):
                bad.append({"literal": t, "found": repr(got), "expected": str(want)})
        ctx.check(not bad, pt.short + ".visit_" + hname + " <- " + rule, ", ".join(texts[:3]) + ", ...", "literals are decoded exactly", pt.module.relpath, bad[:3])
    offenders = []
    for fn in repo.all_functions().values():
        if not fn.module.name.startswith("pydsdl._expression"):
            continue
        for c in calls_in(fn.node):
            n = dotted(c.func) or ""
            if n in ("float", "round") or n.startswith("math."):
                offenders.append("%s: %s" % (fn.short, norm(c)))
        for x in walk_no_nested(fn.node):
            if isinstance(x, ast.Constant) and isinstance(x.value, float):
                offenders.append("%s: float literal %r" % (fn.short, x.value))
    ctx.check(not offenders, "_expression/*", "no float()/round()/math.*/float literals", "expression values are exact rationals", "pydsdl/_expression", offenders)
    # the value class holds what it is given (symbolic number in, the same number out)
    x = QV("x", False)
    try:
        got = m.native(m.value("Rational", x))
    except Unfoldable as ex:
        raise AnalysisError("Rational(x).native_value: cannot evaluate: %s" % ex)
    ctx.check(isinstance(got, QV) and got.term == "x", EXPR + "_primitive.Rational", "Rational(x).native_value is x", "the value is held as the exact number given", "pydsdl/_expression/_primitive.py", repr(got))


def rule_r7_identifiers(ctx: Ctx) -> None:
    """an identifier in an expression is an operand like any other: its value is that of the constant it names"""
    from . import c08

    ctx.rule("C04.R7", "an identifier evaluates to the value of the constant of that name in the current section, for every value a constant can have (false, 0 and the empty string included); exactly the unknown identifiers are rejected (the builder driven through its public callbacks, constants holding real instances of the expression classes)", min_instances=1)
    c08.rule_identifiers(ctx, "C04.R7", parts=("constants",))


def run(ctx: Ctx) -> None:
    g = Grammar.load(ctx.repo)
    ctx.analysed["grammar_rules"] = len(g.rules)
    m = ExprModel(ctx)
    levels = rule_r1(ctx, g)
    ctx.attempt(rule_r1_fold, ctx, m, levels)
    ctx.attempt(rule_r2, ctx, g)
    ctx.attempt(rule_r3_r4_r5, ctx, g, m)
    ctx.attempt(rule_r6, ctx, m)
    ctx.attempt(rule_r7_identifiers, ctx)
    from . import c04text

    c04text.run(ctx)
    ctx.assume("fractions.Fraction and the operator module are exact (trusted stdlib); a fractional power may yield a float (outside the property's quantifier)")
    ctx.assume("symbolic operands: an arbitrary integer, an arbitrary non-integer, zero, arbitrary strings, the two booleans, every pair of non-empty subsets of a three-element pool")
    ctx.undecided("the arithmetic of Fraction itself, the values of string escapes")
