"""
Shared by C06 / C07 / C14: the codec functions of _serdes evaluated over the abstract codec model (sa/codec.py) for a grid
of abstract schemas, and the Specification's event sequence for each schema.
"""
from __future__ import annotations

from typing import Any, Dict, List, Optional, Tuple

from .. import codec as C
from ..core import AnalysisError, Ctx
from ..fold import Sym


def schemas(ctx: Ctx) -> Dict[str, Any]:
    """abstract schemas: nested types are opaque (a primitive, an array of composites, a composite) with alignments 1 / 8"""
    if getattr(ctx, "_codec_schemas", None) is not None:
        return ctx._codec_schemas  # type: ignore
    P = C.opaque(ctx, "UnsignedIntegerType", "P", 1)
    Q = C.opaque(ctx, "BooleanType", "Q", 1)
    A = C.opaque(ctx, "VariableLengthArrayType", "A", 8)  # an array of composites: aligned, but not a composite
    K = C.opaque(ctx, "StructureType", "K", 8)
    V = C.type_sym(ctx, "VoidType", bit_length=5, alignment_requirement=1, name="void5")
    f = lambda n, t: C.field_sym(ctx, n, t)  # noqa: E731
    pad = lambda: C.field_sym(ctx, "", V, padding=True)  # noqa: E731
    s_empty = C.structure(ctx, [], "S0")
    s_mixed = C.structure(ctx, [f("p", P), pad(), f("a", A), f("q", Q), f("k", K)], "S1")
    s_small = C.structure(ctx, [f("p", P), f("q", Q)], "S2")
    s_tail = C.structure(ctx, [f("k", K), f("q", Q), f("a", A)], "S3")
    u2 = C.union(ctx, [f("p", P), f("a", A)], 8, "U2")
    u3 = C.union(ctx, [f("k", K), f("q", Q), f("p", P)], 8, "U3")
    out = {
        "structures": [s_empty, s_mixed, s_small, s_tail],
        "unions": [u2, u3],
        "delimited": [C.delimited(ctx, s_mixed, "D1"), C.delimited(ctx, u3, "D3")],
        "fixed_arrays": [C.type_sym(ctx, "FixedLengthArrayType", element_type=K, capacity=3, alignment_requirement=8, name="K[3]"), C.type_sym(ctx, "FixedLengthArrayType", element_type=P, capacity=2, alignment_requirement=1, name="P[2]")],
        "variable_arrays": [C.type_sym(ctx, "VariableLengthArrayType", element_type=K, capacity=5, alignment_requirement=8, length_field_type=Sym(bit_length=8), name="K[<=5]"), C.type_sym(ctx, "VariableLengthArrayType", element_type=P, capacity=300, alignment_requirement=1, length_field_type=Sym(bit_length=16), name="P[<=300]")],
        "opaque": {"P": P, "Q": Q, "A": A, "K": K},
    }
    ctx._codec_schemas = out  # type: ignore
    return out


def value_for(schema: Any) -> Any:
    """a value of the schema: field name -> token (structures: every field; unions: see union_values)"""
    return {f.name: "V_" + f.name for f in schema.fields_except_padding}


# ---------------------------------------------------------------------------------------------------- Specification
def spec_structure(s: Any, values: Optional[Dict[str, Any]] = None) -> List[Any]:
    ev: List[Any] = []
    for f in s.fields:
        if f.data_type.alignment_requirement != 1:
            ev.append(("ALIGN", f.data_type.alignment_requirement))
        if "PaddingField" in f._isa_:
            ev.append(("BITS", f.data_type.bit_length))
        else:
            ev.append(("EMIT", f.data_type.name))
    if s.alignment_requirement != 1:
        ev.append(("ALIGN", s.alignment_requirement))
    return ev


def spec_union(u: Any, index: int) -> List[Any]:
    return [("BITS", u.tag_field_type.bit_length), ("EMIT", u.fields[index].data_type.name)] + ([("ALIGN", u.alignment_requirement)] if u.alignment_requirement != 1 else [])


def spec_of(schema: Any, index: int = 0) -> List[Any]:
    return spec_union(schema, index) if schema._kind_ == "UnionType" else spec_structure(schema)


# ---------------------------------------------------------------------------------------------------- runs
def writer_runs(ctx: Ctx, fname: str, schema: Any, value: Any, **kw: Any) -> List[C.CodecRun]:
    key = ("w", fname, id(schema), repr(value), repr(kw))
    cache = ctx.__dict__.setdefault("_codec_cache", {})
    if key not in cache:
        # the schema is kept with the entry so that its id() cannot be reused while the entry lives
        if fname == "serialize":
            cache[key] = (schema, C.explore_codec(ctx, fname, lambda sink: ([schema, value], dict(kw))))
        else:
            cache[key] = (schema, C.explore_codec(ctx, fname, lambda sink: ([C.AWriter(sink, "w"), schema, value], dict(kw))))
    return cache[key][1]


def reader_runs(ctx: Ctx, fname: str, schema: Any, **kw: Any) -> List[C.CodecRun]:
    key = ("r", fname, id(schema), repr(kw))
    cache = ctx.__dict__.setdefault("_codec_cache", {})
    if key not in cache:
        if fname == "deserialize":
            cache[key] = (schema, C.explore_codec(ctx, fname, lambda sink: ([schema, C.AData()], dict(kw))))
        else:
            cache[key] = (schema, C.explore_codec(ctx, fname, lambda sink: ([C.AReader(sink, "r"), schema], dict(kw))))
    return cache[key][1]


def says_exhausted(assumptions: Any) -> bool:
    """does the run assume that a reader has no data left (`remaining_bits` compared with zero)?"""
    for expr, val in assumptions:
        if not (isinstance(expr, tuple) and len(expr) == 3):
            continue
        op, a, b = expr
        if isinstance(b, tuple) and b[:1] == ("remaining",) and a == 0:
            a, b = b, a
            op = {"<": ">", ">": "<", "<=": ">=", ">=": "<="}.get(op, op)
        if isinstance(a, tuple) and a[:1] == ("remaining",) and b in (0, 1):
            if (op, b, bool(val)) in (("==", 0, True), ("!=", 0, False), ("<=", 0, True), (">", 0, False), ("<", 1, True), (">=", 1, False)):
                return True
    return False


def complete_data_runs(ctx: Ctx, fname: str, schema: Any, **kw: Any) -> List[C.CodecRun]:
    """the reader's runs on data that is not exhausted: what reading back a complete representation can do (C06).  Runs that
    assume `remaining_bits == 0` belong to truncated input, which is C07's and C14's subject."""
    return [r for r in reader_runs(ctx, fname, schema, **kw) if not says_exhausted(r.assumptions)]


def only(runs: List[C.CodecRun], what: str) -> C.CodecRun:
    if len(runs) != 1:
        raise AnalysisError("%s: expected one abstract run, found %d" % (what, len(runs)))
    return runs[0]
