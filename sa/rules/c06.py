"""
C06 -- serialize/deserialize round-trip and produce the Specification's wire encoding.

Round-trip equality over all values, IEEE-754 bit patterns and LSB-first bit arithmetic are numerical and NOT decided.
Decided is the structural agreement of the independently written layout walkers (a necessary condition for the round trip
and for "produced length is an element of bit_length_set").  The codec functions are *abstractly evaluated* (sa/codec.py):
the writer and reader are event recorders, nested types are opaque symbols, values read from the wire are abstract integers
whose tests are explored both ways.  Helper extraction, renamed locals, early returns, loops vs comprehensions do not change
the recorded events.

R1  writer <-> reader symmetry: for every abstract schema the reader's events equal the writer's, event for event.
R2  writer <-> layout model: the writer's events equal the Specification's layout (per-field alignment + field, final
    alignment; tag + variant + alignment; prefix + elements under the capacity guards; header + inner bytes); the prefix
    holds the element count, the tag the variant's index; float widths.
R3  type dispatch: every concrete type of the model is routed to the codec function of its kind and reaches a handler there.
R4  cast modes (integers, on a boundary grid): saturated = clamp to the inclusive range, truncated = wrap to the width; what
    is written is the two's complement within the width; the reader sign-extends at 2**(n-1).
R5  defaults table and the use of defaults for omitted structure fields.
"""
from __future__ import annotations

import ast
import struct as _struct
from typing import Any, Dict, List, Optional, Sequence, Set, Tuple

from .. import codec as C
from ..core import AnalysisError, ClassInfo, Ctx, FuncInfo, norm
from ..fold import Abstract,  Sym
from . import codec_common as K

SD = "_serdes"
SAT, TRUNC = "CastMode.SATURATED", "CastMode.TRUNCATED"


def _w(events: Sequence[Any], io: str, values: bool = False) -> List[Any]:
    return C.of_io(C.normalize(events, values), io)


def rule_r1_r2(ctx: Ctx) -> None:
    ctx.rule("C06.R1", "writer and reader walk the same layout: identical events for every abstract structure, union, delimited type and array", min_instances=8)
    ctx.rule("C06.R2", "the writer's events equal the Specification's layout: structure = per-field (align to the field, field) then align to the structure; union = tag, variant, align; arrays = [prefix] + elements under the capacity guards; delimited = header(byte length of the inner output) + inner bytes", min_instances=6)
    S = K.schemas(ctx)
    where = "pydsdl/_serdes.py"
    # ---- structures
    for s in S["structures"]:
        wr = K.only(K.writer_runs(ctx, "_serialize_composite", s, K.value_for(s)), "writer of %s" % s.name)
        if wr.raised:
            raise AnalysisError("writer of %s raised %s" % (s.name, wr.raised))
        rr = [r for r in K.complete_data_runs(ctx, "_deserialize_composite", s) if not r.raised]
        rd = K.only(rr, "reader of %s" % s.name)
        a, b = _w(wr.events, "w"), _w(rd.events, "r")
        ctx.count(2)
        ctx.check(a == b, "_serdes._(de)serialize_composite[StructureType %s]" % s.name, C.show(a), "the reader must consume exactly what the writer produces, step for step", where, {"reader": C.show(b)}, rule="C06.R1")
        want = K.spec_structure(s)
        ctx.check(a == want, "_serdes._serialize_composite[StructureType %s]" % s.name, C.show(a), "each field is preceded by padding to its own alignment; the structure is padded to its alignment at the end", where, {"expected": C.show(want)}, rule="C06.R2")
        # what is written for each field is the value given under the field's name; the reader files values under the names
        vals = [ev[3] for ev in C.normalize(wr.events, True) if ev[0] == "EMIT"]
        names = [f.name for f in s.fields_except_padding]
        ctx.check(vals == ["V_" + n for n in names] and isinstance(rd.result, dict) and list(rd.result) == names, "_serdes._(de)serialize_composite[StructureType %s]" % s.name, "values by field name, in field order", "every field's value is taken from / stored under the field's own name", where, {"written": vals, "read keys": list(rd.result) if isinstance(rd.result, dict) else rd.result}, rule="C06.R1", nontrivial=False)
    # ---- unions
    for u in S["unions"]:
        rruns = K.complete_data_runs(ctx, "_deserialize_composite", u)
        for i, f in enumerate(u.fields):
            wr = K.only(K.writer_runs(ctx, "_serialize_composite", u, {f.name: "V_" + f.name}), "writer of %s.%s" % (u.name, f.name))
            if wr.raised:
                raise AnalysisError("writer of %s.%s raised %s" % (u.name, f.name, wr.raised))
            a = _w(wr.events, "w")
            sel = [r for r in C.select_run(rruns, {"read": i, "remaining": 1 << 20}) if not r.raised]
            rd = K.only(sel, "reader of %s with tag %d" % (u.name, i))
            b = _w(rd.events, "r")
            ctx.count(2)
            ctx.check(a == b, "_serdes._(de)serialize_composite[UnionType %s.%s]" % (u.name, f.name), C.show(a), "the reader must consume exactly what the writer produces, step for step", where, {"reader": C.show(b)}, rule="C06.R1")
            want = K.spec_union(u, i)
            ctx.check(a == want, "_serdes._serialize_composite[UnionType %s.%s]" % (u.name, f.name), C.show(a), "a union is its tag, the selected variant, then padding to the union's alignment", where, {"expected": C.show(want)}, rule="C06.R2")
            tag = [ev for ev in C.normalize(wr.events, True) if ev[0] == "BITS"]
            ctx.check(len(tag) == 1 and tag[0][3] == i and isinstance(rd.result, dict) and list(rd.result) == [f.name], "_serdes._serialize_composite[UnionType %s.%s]" % (u.name, f.name), "tag value %s" % (tag[0][3] if tag else "?"), "the tag is the index of the selected variant in declaration order; the reader returns that variant", where, rule="C06.R2", nontrivial=False)
    # ---- delimited (nested copy and the two top-level copies)
    for d in S["delimited"]:
        inner = d.inner_type
        val = K.value_for(inner) if inner._kind_ == "StructureType" else {inner.fields[0].name: "V_" + inner.fields[0].name}
        for fname, kw in (("_serialize_composite", {}), ("serialize", {"with_delimiter_header": True})):
            wr = K.only(K.writer_runs(ctx, fname, d, val, **kw), "%s of %s" % (fname, d.name))
            if wr.raised:
                raise AnalysisError("%s of %s raised %s" % (fname, d.name, wr.raised))
            evs = C.normalize(wr.events, True)
            writers: List[str] = []
            for ev in wr.events:
                if ev[0] == "NEW" and ev[1] not in writers:
                    writers.append(ev[1])
            if fname == "_serialize_composite":
                outer: Optional[str] = "w"
                inners = [x for x in writers if x != "w"]
            else:
                # the writer whose bytes are returned is the outer one
                outer = getattr(wr.result, "origin", None)
                inners = [x for x in writers if x != outer]
            good = outer is not None and len(inners) == 1
            o_ev = C.of_io(evs, outer) if good else []  # type: ignore
            i_ev = C.of_io(C.normalize(wr.events), inners[0]) if good else []
            want_inner = K.spec_of(inner, 0)
            want_outer = [("BITS", 32, ("byte-length-of", inners[0] if good else "?")), ("COPY", inners[0] if good else "?")]
            ctx.count(2)
            ctx.check(good and o_ev == want_outer and i_ev == want_inner, "_serdes.%s[DelimitedType %s]" % (fname, d.name), "outer: %s | inner: %s" % (C.show(o_ev), C.show(i_ev)), "the delimiter header is the byte length of the serialized inner object, which follows byte by byte", where, {"expected outer": C.show(want_outer), "expected inner": C.show(want_inner)}, rule="C06.R2")
        for fname, kw in (("_deserialize_composite", {}), ("deserialize", {"with_delimiter_header": True})):
            rruns = K.complete_data_runs(ctx, fname, d, **kw)
            okr = [r for r in C.select_run(rruns, {"read": 0 if inner._kind_ == "UnionType" else 3, "remaining": 1 << 20}) if not r.raised]
            rd0 = okr[0] if okr else None
            if rd0 is None:
                raise AnalysisError("%s of %s: no completing run" % (fname, d.name))
            ios: List[str] = []
            for ev in C.normalize(rd0.events):
                if len(ev) > 1 and isinstance(ev[1], str) and ev[1] not in ios and ev[0] != "REPEAT":
                    ios.append(ev[1])
            outer_r = ios[0] if ios else "?"
            sub = next((x for x in ios if x.endswith("/sub")), "?")
            o_ev = C.of_io(C.normalize(rd0.events), outer_r)
            i_ev = C.of_io(C.normalize(rd0.events), sub)
            ctx.count()
            ctx.check(len(o_ev) == 2 and o_ev[0] == ("BITS", 32) and o_ev[1][0] == "SUB" and i_ev == K.spec_of(inner, 0), "_serdes.%s[DelimitedType %s]" % (fname, d.name), "outer: %s | sub: %s" % (C.show(o_ev), C.show(i_ev)), "the reader takes the header, then reads the inner object as the writer wrote it", where, rule="C06.R1")
    # ---- without the header the top-level functions encode the inner type directly; non-delimited types as they are
    for s in [S["delimited"][0], S["structures"][1]]:
        inner = s.inner_type if s._kind_ == "DelimitedType" else s
        wr = K.only(K.writer_runs(ctx, "serialize", s, K.value_for(inner)), "serialize of %s" % s.name)
        rd = K.only([r for r in K.complete_data_runs(ctx, "deserialize", s) if not r.raised], "deserialize of %s" % s.name)
        a = [e for e in C.normalize(wr.events) if e[0] != "NEW"]
        b = C.normalize(rd.events)
        strip = lambda evs: [(e[0],) + tuple(e[2:]) for e in evs]  # noqa: E731
        ctx.count()
        ctx.check(strip(a) == K.spec_structure(inner) and strip(b) == K.spec_structure(inner), "_serdes.(de)serialize[%s, no header]" % s.name, C.show(strip(a)), "without a delimiter header the object is encoded as its (inner) type, nothing else", where, {"reader": C.show(strip(b))}, rule="C06.R1")
    # ---- arrays
    for arr in S["fixed_arrays"] + S["variable_arrays"]:
        fixed = arr._kind_ == "FixedLengthArrayType"
        n = arr.capacity if fixed else 2
        value = ["e%d" % i for i in range(n)]
        wr = K.only(K.writer_runs(ctx, "_serialize_array", arr, value), "writer of %s" % arr.name)
        if wr.raised:
            raise AnalysisError("writer of %s raised %s" % (arr.name, wr.raised))
        a = _w(wr.events, "w", True)
        et = arr.element_type.name
        want = ([] if fixed else [("BITS", arr.length_field_type.bit_length, n)]) + [("EMIT", et, v) for v in value]
        ctx.count(2)
        ctx.check(a == want, "_serdes._serialize_array[%s]" % arr.name, C.show(a), "a fixed-length array is its elements, without a prefix" if fixed else "a variable-length array is its length prefix (the element count) followed by the elements, in order", where, {"expected": C.show(want)}, rule="C06.R2")
        rruns = K.complete_data_runs(ctx, "_deserialize_array", arr)
        # the reader, for every length the prefix can announce (a loop over an abstract count shows as REPEAT(count)[...]; a loop
        # that compares a running count with the length read shows as one run per length - both say the same)
        lengths = [n] if fixed else sorted({0, 1, 2, arr.capacity})
        bad_r = []
        shown = ""
        for ln in lengths:
            sel = [r for r in C.select_run(rruns, {"read": ln, "remaining": 1 << 20}) if not r.raised]
            rd = K.only(sel, "reader of %s for length %d" % (arr.name, ln))
            b = _w(rd.events, "r")
            shown = shown or C.show(b)
            if fixed:
                forms: List[List[Any]] = [[("EMIT", et)] * n]
            else:
                first = [e for e in C.normalize(rd.events, True) if e[0] == "BITS"]
                count = ("read", first[0][3]) if first else "<the length read>"
                forms = [[("BITS", arr.length_field_type.bit_length), ("REPEAT", count, [("EMIT", et)])], [("BITS", arr.length_field_type.bit_length)] + [("EMIT", et)] * ln]
            if b not in forms:
                bad_r.append({"length read": ln, "found": C.show(b), "expected": " or ".join(C.show(f_) for f_ in forms)})
        ctx.check(not bad_r, "_serdes._(de)serialize_array[%s]" % arr.name, shown, "prefix and elements are read as they are written: as many elements as the prefix says", where, bad_r[:3], rule="C06.R1")
        # capacity guards of the writer
        outcomes = {}
        for m in sorted({0, 1, arr.capacity - 1, arr.capacity, arr.capacity + 1}):
            if m > 400 or m < 0:
                continue
            r = K.only(K.writer_runs(ctx, "_serialize_array", arr, ["x"] * m), "writer of %s with %d elements" % (arr.name, m))
            outcomes[m] = r.raised or "ok"
            ctx.count()
        want_o = {m: ("ok" if ((m == arr.capacity) if fixed else (m <= arr.capacity)) else "ArrayLengthError") for m in outcomes}
        ctx.check(outcomes == want_o, "_serdes._serialize_array[%s]" % arr.name, "element counts -> %s" % outcomes, "a fixed array must have exactly `capacity` elements, a variable one at most `capacity`", where, {"expected": want_o}, rule="C06.R2")
    # ---- float widths (both directions): little-endian IEEE 754 of exactly the declared width
    for width in (16, 32, 64):
        ft = C.type_sym(ctx, "FloatType", bit_length=width, cast_mode=TRUNC, alignment_requirement=1, name="float%d" % width, inclusive_value_range=Sym(min=-65504, max=65504))
        wr = K.only(K.writer_runs(ctx, "_serialize_primitive", ft, 1.5), "writer of float%d" % width)
        evs = _w(wr.events, "w", True)
        fmts = {ev[2][1] for ev in evs if ev[0] == "BITS" and isinstance(ev[2], tuple) and ev[2][0] == "packed-byte"}
        good = not wr.raised and len(evs) == width // 8 and all(ev[0] == "BITS" and ev[1] == 8 for ev in evs) and len(fmts) == 1
        if good:
            fmt = next(iter(fmts))
            good = fmt.startswith("<") and fmt[1:] in ("e", "f", "d") and _struct.calcsize(fmt) * 8 == width and [ev[2][2] for ev in evs] == list(range(width // 8))
        rd = K.only([r for r in K.complete_data_runs(ctx, "_deserialize_primitive", ft) if not r.raised], "reader of float%d" % width)
        revs = _w(rd.events, "r")
        res = rd.result
        good_r = revs == [("BITS", 8)] * (width // 8) and isinstance(res, tuple) and res[0] == "UNPACKED" and res[1] in ("<e", "<f", "<d") and _struct.calcsize(res[1]) * 8 == width and res[2] == width // 8
        ctx.count(2)
        ctx.check(good and good_r, "_serdes._(de)serialize_primitive[float%d]" % width, "writer: %s | reader: %s -> %s" % (C.show(evs)[:80], C.show(revs)[:60], res), "floats are little-endian IEEE 754 of exactly the declared width, byte by byte in memory order", where, rule="C06.R2")
    ctx.sample({"rule": "C06.R1/R2", "structure S1": C.show(K.spec_structure(S["structures"][1]))})


def _leaf_kinds(ctx: Ctx) -> List[ClassInfo]:
    repo = ctx.repo
    ser = ctx.cls("_serializable._serializable.SerializableType")
    return [c for c in repo.subclasses(ser) if not repo.is_abstract_class(c)]


def rule_r3(ctx: Ctx) -> None:
    ctx.rule("C06.R3", "type dispatch: every concrete type of the model is routed to the codec function of its kind and reaches a handler there", min_instances=7)
    leaves = _leaf_kinds(ctx)
    unknown = [c.name for c in leaves if c.name not in C.KINDS]
    if unknown:
        raise AnalysisError("concrete types not known to the codec model: %s" % unknown)
    fam = {}
    for c in leaves:
        isa = C.isa_of(ctx, C.KINDS[c.name])
        fam[c.name] = "primitive" if ("PrimitiveType" in isa or "VoidType" in isa) else "array" if "ArrayType" in isa else "composite"
    # every concrete type, used as the type of a structure field and as the element type of an array, is encoded and decoded:
    # the composite / array codecs are evaluated over a one-field structure and a one-element array of each kind
    sch0 = K.schemas(ctx)
    P0 = sch0["opaque"]["P"]

    def concrete(c: Any) -> Any:
        if fam[c.name] == "primitive":
            width = 32 if c.name == "FloatType" else (1 if c.name == "BooleanType" else (5 if c.name == "VoidType" else 8))
            return C.type_sym(ctx, c.name, name=c.name, bit_length=width, cast_mode=SAT, alignment_requirement=1, inclusive_value_range=Sym(min=0, max=1))
        if c.name == "FixedLengthArrayType":
            return C.type_sym(ctx, c.name, element_type=P0, capacity=2, alignment_requirement=1, name="P[2]")
        if c.name == "VariableLengthArrayType":
            return C.type_sym(ctx, c.name, element_type=P0, capacity=5, alignment_requirement=1, length_field_type=Sym(bit_length=8), name="P[<=5]")
        if c.name == "StructureType":
            return C.structure(ctx, [C.field_sym(ctx, "p", P0)], "Sx")
        if c.name == "UnionType":
            return C.union(ctx, [C.field_sym(ctx, "p", P0), C.field_sym(ctx, "q", P0)], 8, "Ux")
        if c.name == "DelimitedType":
            return C.delimited(ctx, C.structure(ctx, [C.field_sym(ctx, "p", P0)], "Sy"), "Dx")
        return None

    def a_value(t: Any) -> Any:
        k = t._kind_
        if k in ("StructureType", "DelimitedType"):
            return {"p": "V_p"}
        if k == "UnionType":
            return {"p": "V_p"}
        if k in ("FixedLengthArrayType",):
            return ["x", "y"]
        if k == "VariableLengthArrayType":
            return ["x"]
        return None if k == "VoidType" else 1

    for role in ("field", "element"):
        for is_writer in (True, False):
            bad = {}
            for c in leaves:
                t = concrete(c)
                if t is None:
                    continue  # service types are not serializable (C13 / C07.R1)
                if role == "field":
                    if c.name == "VoidType":
                        holder = C.structure(ctx, [C.field_sym(ctx, "", t, padding=True)], "H")
                        hv: Any = {}
                    else:
                        holder = C.structure(ctx, [C.field_sym(ctx, "x", t)], "H")
                        hv = {"x": a_value(t)}
                    fname = "_serialize_composite" if is_writer else "_deserialize_composite"
                else:
                    if c.name == "VoidType":
                        continue  # void is not an element type
                    if c.name in ("UTF8Type", "ByteType"):
                        # text / blob elements live in variable-length arrays and are given as str / bytes; what the reader
                        # makes of the decoded elements (a str / bytes object) is a value conversion outside the codec events
                        if not is_writer:
                            continue
                        holder = C.type_sym(ctx, "VariableLengthArrayType", element_type=t, capacity=5, alignment_requirement=1, length_field_type=Sym(bit_length=8), name="%s[<=5]" % c.name)
                        hv = "a" if c.name == "UTF8Type" else b"a"
                    else:
                        holder = C.type_sym(ctx, "FixedLengthArrayType", element_type=t, capacity=1, alignment_requirement=t.alignment_requirement, name="%s[1]" % c.name)
                        hv = [a_value(t)]
                    fname = "_serialize_array" if is_writer else "_deserialize_array"
                runs = K.writer_runs(ctx, fname, holder, hv) if is_writer else K.complete_data_runs(ctx, fname, holder)
                ctx.count()
                good_runs = [r for r in runs if not r.raised]
                if not good_runs or not all(any(ev[0] in ("BITS", "EMIT", "HEADER", "SUBREADER", "ALIGN", "CALL") for ev in r.events) for r in good_runs):
                    bad[c.name] = [r.raised for r in runs]
            ctx.check(not bad, SD + (".serialize" if is_writer else ".deserialize"), "every concrete type as a structure %s is %s" % ("field" if role == "field" else "array element", "encoded" if is_writer else "decoded"), "every concrete type reaches the codec of its kind", "pydsdl/_serdes.py", bad)
    # inside the primitive codec every primitive kind has a handler (no fall-through to "unknown type")
    for fname, is_writer in (("_serialize_primitive", True), ("_deserialize_primitive", False)):
        bad = {}
        for c in leaves:
            if fam[c.name] != "primitive":
                continue
            width = 32 if c.name == "FloatType" else (1 if c.name == "BooleanType" else 8)
            t = C.type_sym(ctx, c.name, name=c.name, bit_length=width, cast_mode=SAT, alignment_requirement=1, inclusive_value_range=Sym(min=0, max=1))
            if is_writer:
                runs = C.explore_codec(ctx, fname, lambda sink, t=t: ([C.AWriter(sink, "w"), t, 1], {}))
            else:
                runs = C.explore_codec(ctx, fname, lambda sink, t=t: ([C.AReader(sink, "r"), t], {}))
            ctx.count()
            if any(r.raised for r in runs) or not all(any(ev[0] == "BITS" for ev in r.events) for r in runs):
                bad[c.name] = [r.raised for r in runs]
        ctx.check(not bad, SD + "." + fname, "a handler for every primitive kind", "every primitive type is encoded; none falls through to the unknown-type error", ctx.func(SD + "." + fname).where(), bad)
    # composites: structures / unions / delimited are handled (R1/R2); a service type is refused with TypeError
    sv = C.type_sym(ctx, "ServiceType", name="Svc", alignment_requirement=8)
    outcomes = {}
    for fname, mk in (("_serialize_composite", lambda sink: ([C.AWriter(sink, "w"), sv, {}], {})), ("_deserialize_composite", lambda sink: ([C.AReader(sink, "r"), sv], {})), ("serialize", lambda sink: ([sv, {}], {})), ("deserialize", lambda sink: ([sv, C.AData()], {}))):
        rs = C.explore_codec(ctx, fname, mk)
        outcomes[fname] = sorted({r.raised or "ok" for r in rs})
        ctx.count()
    ctx.check(all(v == ["TypeError"] for v in outcomes.values()), SD + " (service types)", str(outcomes), "a service type is not serializable: all four entry points refuse it with TypeError", "pydsdl/_serdes.py")
    # array element specialisations: utf8 and byte arrays accept text / bytes input
    for kind, val in (("UTF8Type", "ab"), ("ByteType", b"ab")):
        et = C.type_sym(ctx, kind, _opaque_=True, name=kind, alignment_requirement=1, full_name=kind)
        arr = C.type_sym(ctx, "VariableLengthArrayType", element_type=et, capacity=5, alignment_requirement=1, length_field_type=Sym(bit_length=8), name=kind + "[<=5]")
        rs = K.writer_runs(ctx, "_serialize_array", arr, val)
        out: List[Any] = [(r.raised, [ev[2] for ev in _w(r.events, "w", True) if ev[0] == "EMIT"]) for r in rs]
        ctx.count()
        ctx.check(out == [(None, [97, 98])], SD + "._serialize_array[%s]" % kind, str(out), "utf8 and byte arrays accept str / bytes input, element by element", "pydsdl/_serdes.py", nontrivial=False)


def rule_r4(ctx: Ctx) -> None:
    ctx.rule("C06.R4", "cast modes: saturated clamps to the type's inclusive range, truncated wraps to the width; two's complement on the wire; the reader sign-extends", min_instances=4)
    where = ctx.func(SD + "._serialize_primitive").where()
    for kind, signed in (("SignedIntegerType", True), ("UnsignedIntegerType", False)):
        bad = []
        for n in (1, 2, 7, 8, 33, 64):
            if signed and n < 2:
                continue
            lo, hi = (-(2 ** (n - 1)), 2 ** (n - 1) - 1) if signed else (0, 2**n - 1)
            for mode in (SAT, TRUNC):
                t = C.type_sym(ctx, kind, name="%s%d" % (kind, n), bit_length=n, cast_mode=mode, alignment_requirement=1, inclusive_value_range=Sym(min=lo, max=hi))
                for v in sorted({lo - 5, lo - 1, lo, lo + 1, -1, 0, 1, hi - 1, hi, hi + 1, hi + 300}):
                    r = K.only(K.writer_runs(ctx, "_serialize_primitive", t, v), "%s of %r" % (t.name, v))
                    ev = _w(r.events, "w", True)
                    res = min(max(v, lo), hi) if mode == SAT else v
                    want = [("BITS", n, res % (2**n))]
                    ctx.count()
                    if r.raised or ev != want:
                        bad.append({"type": t.name, "mode": mode, "value": v, "found": r.raised or ev, "expected": want})
        ctx.check(not bad, SD + "._serialize_primitive[%s]" % kind, "boundary grid of widths x modes x values", "out-of-range integers are clamped (saturated) or wrapped modulo 2**n (truncated); the wire holds the two's complement within the declared width", where, bad[:4])
    # reader: unsigned as read; signed sign-extended at 2**(n-1)
    rwhere = ctx.func(SD + "._deserialize_primitive").where()
    bad = []
    for kind, signed in (("SignedIntegerType", True), ("UnsignedIntegerType", False)):
        for n in (2, 7, 8, 33, 64):
            t = C.type_sym(ctx, kind, name="%s%d" % (kind, n), bit_length=n, cast_mode=SAT, alignment_requirement=1)
            runs = K.complete_data_runs(ctx, "_deserialize_primitive", t)
            for raw in sorted({0, 1, 2 ** (n - 1) - 1, 2 ** (n - 1), 2 ** (n - 1) + 1, 2**n - 1}):
                sel = C.select_run(runs, {"read": raw, "remaining": 1 << 20})
                r = K.only(sel, "reader of %s with raw %d" % (t.name, raw))
                try:
                    got = C.eval_abs(C._subst_atoms(C._x(r.result), {"read": raw}), {})
                except (KeyError, TypeError):
                    got = r.result
                want_v = raw - 2**n if (signed and raw >= 2 ** (n - 1)) else raw
                ctx.count()
                if isinstance(got, Abstract):
                    raise AnalysisError("_deserialize_primitive[%s]: the decoded value %r cannot be evaluated for the raw value %d" % (t.name, got, raw))
                if r.raised or _w(r.events, "r") != [("BITS", n)] or got != want_v:
                    bad.append({"type": t.name, "raw": raw, "found": r.raised or got, "expected": want_v})
    ctx.check(not bad, SD + "._deserialize_primitive[integers]", "raw -> value on a boundary grid", "unsigned integers are returned as read; signed integers are decoded from two's complement", rwhere, bad[:4])
    # boolean and void
    bt = C.type_sym(ctx, "BooleanType", name="bool", bit_length=1, cast_mode=SAT, alignment_requirement=1)
    outs = {v: _w(K.only(K.writer_runs(ctx, "_serialize_primitive", bt, v), "bool").events, "w", True) for v in (False, True, 0, 7)}
    ctx.count(4)
    ctx.check(all(outs[v] == [("BITS", 1, 1 if v else 0)] for v in outs), SD + "._serialize_primitive[BooleanType]", str({repr(k): v for k, v in outs.items()})[:120], "a boolean is one bit: 1 for truthy, 0 for falsy", where)
    vt = C.type_sym(ctx, "VoidType", name="void5", bit_length=5, alignment_requirement=1)
    wv = _w(K.only(K.writer_runs(ctx, "_serialize_primitive", vt, None), "void").events, "w", True)
    rv = K.only(K.complete_data_runs(ctx, "_deserialize_primitive", vt), "void")
    ctx.check(wv == [("BITS", 5, 0)] and _w(rv.events, "r") == [("BITS", 5)] and rv.result is None, SD + "._(de)serialize_primitive[VoidType]", C.show(wv), "padding is written as zero bits and skipped on reading", where, nontrivial=False)
    # floats: what is handed to the IEEE 754 packer for in-range, out-of-range, non-finite and not-representable-as-float inputs
    import math
    import struct as _struct

    fbad = []
    for width, fmt, top in ((16, "<e", 65504), (32, "<f", int(_struct.unpack("<f", b"\xff\xff\x7f\x7f")[0])), (64, "<d", int(_struct.unpack("<d", b"\xff" * 6 + b"\xef\x7f")[0]))):
        for mode in (SAT, TRUNC):
            ft = C.type_sym(ctx, "FloatType", name="float%d" % width, bit_length=width, cast_mode=mode, alignment_requirement=1, inclusive_value_range=Sym(min=-top, max=top))
            beyond = float(top) * 4 if width < 64 else None
            grid = [(1.5, 1.5), (-0.25, -0.25), (3, 3.0), (True, 1.0), (float(top), float(top)), (float("inf"), float("inf")), (float("-inf"), float("-inf")), (float("nan"), float("nan"))]
            over = (lambda sign: sign * float(top)) if mode == SAT else (lambda sign: sign * math.inf)
            if beyond is not None:
                grid += [(beyond, over(1)), (-beyond, over(-1)), (int(beyond), over(1))]
            grid += [(10**400, over(1)), (-(10**400), over(-1))]
            for v, want in grid:
                r = K.only(K.writer_runs(ctx, "_serialize_primitive", ft, v), "%s of %r" % (ft.name, v))
                ctx.count()
                got = None
                ok = not r.raised
                if ok:
                    terms = [ev[2] for ev in _w(r.events, "w", True) if ev[0] == "BITS"]
                    if not (terms and all(isinstance(t, tuple) and len(t) == 4 and t[0] == "packed-byte" for t in terms)):
                        raise AnalysisError("%s of %r: the output is not the bytes of one packed value: %s" % (ft.name, v, C.show(r.events)[:160]))
                    got = terms[0][3]
                    ok = [t[:3] for t in terms] == [("packed-byte", fmt, k) for k in range(width // 8)] and all(t[3] is got or t[3] == got for t in terms)
                    ok = ok and isinstance(got, (int, float)) and ((math.isnan(got) and math.isnan(want)) or (float(got) == want and math.copysign(1, float(got)) == math.copysign(1, want)))
                if not ok:
                    fbad.append({"type": ft.name, "mode": mode, "value": repr(v), "packed": r.raised or repr(got), "expected": repr(want)})
    ctx.check(not fbad, SD + "._serialize_primitive[FloatType]", "grid of widths x modes x {in range, at the largest finite value, beyond it, +-inf, nan, integers no float can hold}",
              "floats out of range saturate to the largest finite value or overflow to infinity (truncated); infinities and NaN pass through; in-range values are packed as given", where, fbad[:4])


def rule_r5(ctx: Ctx) -> None:
    ctx.rule("C06.R5", "defaults: false / 0 / 0.0 / [] / '' / b'' / capacity x default / dict of field defaults / first variant; omitted structure fields are encoded as their default", min_instances=3)
    S = K.schemas(ctx)
    P = S["opaque"]["P"]
    fn = ctx.func(SD + "._default_value")

    def default_of(t: Any) -> Any:
        rs = C.explore_codec(ctx, "_default_value", lambda sink: ([t], {}))
        r = K.only(rs, "_default_value of %s" % getattr(t, "name", t))
        ctx.count()
        return r.raised or r.result

    prim = lambda kind: C.type_sym(ctx, kind, name=kind, bit_length=8, cast_mode=SAT, alignment_requirement=1)  # noqa: E731
    arr = lambda kind, et, cap: C.type_sym(ctx, kind, name=kind, element_type=et, capacity=cap, alignment_requirement=1, length_field_type=Sym(bit_length=8))  # noqa: E731
    utf8 = C.type_sym(ctx, "UTF8Type", name="utf8", bit_length=8, cast_mode=TRUNC, alignment_requirement=1)
    byte = C.type_sym(ctx, "ByteType", name="byte", bit_length=8, cast_mode=TRUNC, alignment_requirement=1)
    s1, u3 = S["structures"][1], S["unions"][1]
    got = {
        "bool": default_of(prim("BooleanType")), "int": default_of(prim("SignedIntegerType")), "uint": default_of(prim("UnsignedIntegerType")), "float": default_of(prim("FloatType")),
        "void": default_of(C.type_sym(ctx, "VoidType", name="void", bit_length=3, alignment_requirement=1)),
        "fixed": default_of(arr("FixedLengthArrayType", P, 3)), "var": default_of(arr("VariableLengthArrayType", P, 3)),
        "utf8[]": default_of(arr("VariableLengthArrayType", utf8, 3)), "byte[]": default_of(arr("VariableLengthArrayType", byte, 3)),
        "struct": default_of(s1), "union": default_of(u3), "delimited": default_of(S["delimited"][0]),
    }
    D = lambda t: ("DEFAULT-OF", t.name)  # noqa: E731
    want = {
        "bool": False, "int": 0, "uint": 0, "float": 0.0, "void": None, "fixed": [D(P)] * 3, "var": [], "utf8[]": "", "byte[]": b"",
        "struct": {f.name: D(f.data_type) for f in s1.fields_except_padding}, "union": {u3.fields[0].name: D(u3.fields[0].data_type)},
        "delimited": {f.name: D(f.data_type) for f in s1.fields_except_padding},
    }
    bad = {k: repr(got[k])[:80] for k in want if repr(got[k]) != repr(want[k]) or type(got[k]) is not type(want[k])}
    ctx.check(not bad, fn.short, "defaults table", "each type has the Specification's zero value; a structure defaults field-wise, a union to its first variant", fn.where(), bad)
    # omitted structure fields are encoded as their default
    partial = {"p": "V_p"}
    wr = K.only(K.writer_runs(ctx, "_serialize_composite", s1, partial), "writer of S1 with omitted fields")
    vals = {ev[1]: ev[2] for ev in _w(wr.events, "w", True) if ev[0] == "EMIT"}
    want_v = {f.data_type.name: (partial[f.name] if f.name in partial else ("DEFAULT-OF", f.data_type.name)) for f in s1.fields_except_padding}
    ctx.check(not wr.raised and vals == want_v and _w(wr.events, "w") == K.spec_structure(s1), SD + "._serialize_composite", "omitted field -> _default_value(field.data_type)", "structure fields omitted from the input are encoded as zero / empty / first variant, in place", ctx.func(SD + "._serialize_composite").where(), {"found": vals})
    # a field that IS given is written as given, whatever its truth value: a value that tests false (0, 0.0, -0.0, False, '',
    # [], b'') is a value, not an omission - for most of them the default happens to encode alike, for negative zero it does not
    class Falsy(Abstract):
        def __init__(self, name: str):
            self.name = name

        def __bool__(self) -> bool:
            return False

        def __repr__(self) -> str:
            return self.name

    given = {f.name: Falsy("FALSY_" + f.name) for f in s1.fields_except_padding}
    wr3 = K.only(C.explore_codec(ctx, "_serialize_composite", lambda sink: ([C.AWriter(sink, "w"), s1, dict(given)], {})), "writer of S1 with values that test false")
    vals3 = {ev[1]: ev[2] for ev in _w(wr3.events, "w", True) if ev[0] == "EMIT"}
    want3 = {f.data_type.name: given[f.name] for f in s1.fields_except_padding}
    ctx.count()
    ctx.check(not wr3.raised and all(vals3.get(k) is v for k, v in want3.items()), SD + "._serialize_composite", "a given field value that tests false is written as given", "only an *omitted* field is replaced by its default: -0.0, 0, False, '' ... are values (the sign of a negative zero is part of the IEEE 754 encoding)", ctx.func(SD + "._serialize_composite").where(), {"written": {k: repr(v) for k, v in vals3.items()}})
    # unknown keys are rejected
    wr2 = K.only(K.writer_runs(ctx, "_serialize_composite", s1, {"nope": 1}), "writer of S1 with an unknown key")
    ctx.check(wr2.raised == "ValueError", SD + "._serialize_composite", "unknown key -> %s" % wr2.raised, "a value naming a field the structure does not have is rejected", ctx.func(SD + "._serialize_composite").where(), nontrivial=False)


def rule_r6_keys(ctx: Ctx) -> None:
    from . import approx_keys

    ctx.rule("C06.R6", "what is written / read is decided by the schema object given: the codec holds no memo or table keyed by type equality (two different types - an edited definition, a fork of a namespace - may compare equal)", min_instances=1)
    approx_keys.rule(ctx, "C06.R6", ["_serdes"], "SerializableType equality is name + version + approximate length set: a tag / field table looked up by it belongs to another type", "pydsdl/_serdes.py")


def concrete_grid(ctx: Ctx) -> Any:
    """(types, [(type, [values])]): the concrete grid shared by C06.R7 / C07.R6"""
    from . import concrete as C

    cached = getattr(ctx, "_concrete_grid", None)
    if cached is not None:
        return cached
    T = C.Types(ctx)
    u3, u8t, u16s, b1, i7, f16, f32, f64 = T.uint(3), T.uint(8), T.uint(16, True), T.boolean(), T.sint(7), T.float_(16), T.float_(32), T.float_(64)
    s1 = T.struct("S1 {uint3 a; void5; saturated uint16 b; uint8[<=2] c; bool d; float32 e; int7 f}", [("a", u3), ("", T.void(5)), ("b", u16s), ("c", T.varr(u8t, 2)), ("d", b1), ("e", f32), ("f", i7)])
    inner = T.struct("Inner {uint8 p; uint8[<=3] q}", [("p", u8t), ("q", T.varr(u8t, 3))])
    s2 = T.struct("S2 {Inner[2] xs; Inner[<=2] ys; uint3 z}", [("xs", T.farr(inner, 2)), ("ys", T.varr(inner, 2)), ("z", u3)])
    un = T.union("U {uint8 first; saturated uint16 second; Inner third}", [("first", u8t), ("second", u16s), ("third", inner)])
    d = T.delimited(inner, 64)
    s3 = T.struct("S3 {delimited Inner[<=3] ds; uint8 tail; delimited Inner one; U u}", [("ds", T.varr(d, 3)), ("tail", u8t), ("one", d), ("u", un)])
    ds3 = T.delimited(s3, 8 * 64)
    fl = T.struct("F {float16 h; bool k; float64 d; float32 s; float16 h2}", [("h", f16), ("k", b1), ("d", f64), ("s", f32), ("h2", f16)])
    # wide integers at every bit offset within a byte (a reader that assembles a field from a machine word must not lose
    # the bits that do not fit next to the offset)
    wide = T.struct("W {bool k; int64 v; uint64 w; uint3 g; uint61 x; int59 y; uint57 z; uint6 h; int58 t}", [("k", b1), ("v", T.sint(64)), ("w", T.uint(64)), ("g", u3), ("x", T.uint(61)), ("y", T.sint(59)), ("z", T.uint(57)), ("h", T.uint(6)), ("t", T.sint(58))])
    I = lambda p, q: {"p": p, "q": list(q)}  # noqa: E731
    grid = [
        (wide, [{"k": True, "v": -1, "w": 2**64 - 1, "g": 7, "x": 2**61 - 1, "y": -(2**58), "z": 2**57 - 1, "h": 63, "t": -1},
                {"k": False, "v": -(2**63), "w": 2**63, "g": 0, "x": 2**60, "y": 2**58 - 1, "z": 2**56, "h": 0, "t": -(2**57)},
                {"k": True, "v": 0x0123456789ABCDEF, "w": 0xFEDCBA9876543210, "g": 5, "x": 0x1BCDEF0123456789, "y": 0x0123456789ABCDE, "z": 0x123456789ABCDE, "h": 42, "t": 0x123456789ABCDE}]),
        (s1, [{"a": 5, "b": 0x1234, "c": [7, 9], "d": True, "e": 1.5, "f": -3}, {"a": 0, "b": 0, "c": [], "d": False, "e": 0.0, "f": 0},
              {"a": 7 + 8, "b": 70000, "c": [255], "d": True, "e": -0.375, "f": -64}, {"a": 2, "b": -4, "c": [1, 2], "d": False, "e": 1024.0, "f": 100}]),
        (s2, [{"xs": [I(1, [2]), I(3, [])], "ys": [], "z": 1}, {"xs": [I(255, [1, 2, 3]), I(0, [9])], "ys": [I(4, [5, 6]), I(7, [])], "z": 7}]),
        (un, [{"first": 200}, {"second": 65535}, {"second": 99999}, {"third": I(1, [2, 3])}]),
        (d, [I(1, []), I(2, [3, 4, 5])]),
        (s3, [{"ds": [I(1, [1, 2, 3]), I(2, []), I(3, [4])], "tail": 0xAB, "one": I(9, [8]), "u": {"first": 1}},
              {"ds": [], "tail": 1, "one": I(0, []), "u": {"third": I(5, [6])}},
              {"ds": [I(1, [1, 2, 3]), I(2, [1, 2, 3]), I(3, [])], "tail": 2, "one": I(7, [1, 2, 3]), "u": {"second": 3}}]),
        (ds3, [{"ds": [I(1, [2, 3]), I(4, [])], "tail": 5, "one": I(6, [7]), "u": {"first": 8}}]),
        (fl, [{"h": 1.5, "k": True, "d": -2.000000000000001, "s": 3.25, "h2": -0.5}, {"h": 65504.0, "k": False, "d": 1e300, "s": 1.1754943508222875e-38, "h2": 6.103515625e-05},
              {"h": float("inf"), "k": True, "d": float("-inf"), "s": 0.0, "h2": -0.0}]),
    ]
    ctx._concrete_grid = (T, grid)  # type: ignore
    return ctx._concrete_grid  # type: ignore


def _same(a: Any, b: Any) -> bool:
    """equality that tells 0.0 from -0.0 and an int from a bool"""
    import math

    if isinstance(a, dict) and isinstance(b, dict):
        return list(a) == list(b) and all(_same(a[k], b[k]) for k in a)
    if isinstance(a, (list, tuple)) and isinstance(b, (list, tuple)):
        return len(a) == len(b) and all(_same(x, y) for x, y in zip(a, b))
    if isinstance(a, float) and isinstance(b, float):
        return (math.isnan(a) and math.isnan(b)) or (a == b and math.copysign(1, a) == math.copysign(1, b))
    return type(a) is type(b) and a == b


def rule_r7_concrete(ctx: Ctx) -> None:
    """R1-R5 decide the codec's *event traces* over abstract schemas.  This rule evaluates the codec itself - serialize and
    deserialize with the bit writer / reader underneath, all from the source - on concrete nested types and values, and compares
    the bytes with the Specification's encoding written down independently (rules/concrete.py)."""
    from . import concrete as C

    ctx.rule("C06.R7", "concrete types x values, evaluated from the source: serialize yields exactly the Specification's bytes (LSB first, alignment padding, length prefix, union tag, delimiter header, saturation / truncation), their bit length is in the type's bit_length_set, and deserialize gives the value back - on every call, in whatever order the objects are serialized [bounded grid]", min_instances=5)
    T, grid = concrete_grid(ctx)
    n = 0
    for t, values in grid:
        bad = []
        # two passes, the second in reverse order: whatever the codec keeps between calls must not matter
        for order in (values, list(reversed(values))):
            for v in order:
                for hdr in ((False, True) if t.kind == "delimited" else (False,)):
                    want = C.encode(t, v, hdr)
                    got = C.run_codec(ctx, T, "serialize", t, v, hdr)
                    n += 1
                    if not isinstance(got, (bytes, bytearray)) or bytes(got) != want:
                        bad.append({"value": repr(v)[:120], "with header": hdr, "found": got.hex() if isinstance(got, (bytes, bytearray)) else got, "Specification": want.hex()})
                        continue
                    lens = t.inner.lengths if (t.kind == "delimited" and not hdr) else t.lengths  # type: ignore
                    if 8 * len(want) not in lens:
                        raise AnalysisError("the reference encoding of %s has %d bits, not in the type's length set: the rule's own model is inconsistent" % (t.label, 8 * len(want)))
                    back_want = C.decode(t, want, hdr)
                    back = C.run_codec(ctx, T, "deserialize", t, bytes(got), hdr)
                    n += 1
                    if not _same(back, back_want):
                        bad.append({"value": repr(v)[:120], "bytes": want.hex(), "deserialized": repr(back)[:160], "expected": repr(back_want)[:160]})
        ctx.check(not bad, t.label, "%d values x serialize / deserialize x 2 passes" % len(values), "the wire encoding is the Specification's and the value comes back", "pydsdl/_serdes.py", bad[:3])
    ctx.count(n)


def relaxed_forms(t: Any, v: Any, style: int) -> Any:
    """a relaxed spelling of the explicit value v of type t: structures positional (style bit 0) or - with a single field -
    bare (bit 1), applied at every level below the top (bit 2: at the top as well); unions stay explicit one-key dicts"""
    top = bool(style & 4)

    def rec(t_: Any, v_: Any, relax_here: bool) -> Any:
        k = t_.kind
        if k == "delimited":
            return rec(t_.inner, v_, relax_here)
        if k == "struct":
            named = [(nm, ft) for nm, ft in t_.fields if nm]
            inner = {nm: rec(ft, v_[nm], True) for nm, ft in named if nm in v_}
            if not relax_here:
                return inner
            if len(named) == 1 and (style & 2) and named[0][0] in inner and not isinstance(inner[named[0][0]], dict):
                return inner[named[0][0]]  # the bare value (not when it is itself a dict: that would read as a keyed form)
            if (style & 1) and len(named) >= 2:  # (a one-field structure given a list would read it as the bare value)
                out = []
                for nm, _ in named:
                    if nm not in inner:
                        break
                    out.append(inner[nm])
                if len(out) == len(inner):
                    return out if style & 8 else tuple(out)
            return inner
        if k == "union":
            (nm, x), = v_.items()
            ft = dict(t_.fields)[nm]
            return {nm: rec(ft, x, True)}
        if k in ("farr", "varr") and isinstance(v_, (list, tuple)):
            return [rec(t_.elem, x, True) for x in v_]
        return v_

    return rec(t, v, top)


def rule_r8_relaxed(ctx: Ctx) -> None:
    """the relaxed input forms: positional structures and bare values for single-field structures, at any depth, mixed with
    explicit dicts - serialize(..., relaxed=True) evaluated from the source must give the bytes of the explicit form"""
    from . import concrete as C

    ctx.rule("C06.R8", "relaxed input forms (positional structures as lists / tuples, a bare value for a single-field structure, at every nesting depth, in arrays and union variants, mixed with explicit dicts) serialize to the bytes of the explicit dict form, evaluated from the source on concrete nested types [bounded grid]", min_instances=3)
    T = C.Types(ctx)
    u8, u16 = T.uint(8), T.uint(16)
    p = T.struct("P {uint8 column; uint16 row}", [("column", u8), ("row", u16)])
    q = T.struct("Q {uint16 row; uint8 column}", [("row", u16), ("column", u8)])
    s1 = T.struct("S1 {uint8 only}", [("only", u8)])
    s2 = T.struct("S2 {void3; S1 inner}", [("", T.void(3)), ("inner", s1)])
    un = T.union("U {P p; Q q; uint8 n}", [("p", p), ("q", q), ("n", u8)])
    top = T.struct("T {P origin; Q target; S1 single; P[2] arr; U u; S2 deep; Q[<=2] more; uint8 last}", [("origin", p), ("target", q), ("single", s1), ("arr", T.farr(p, 2)), ("u", un), ("deep", s2), ("more", T.varr(q, 2)), ("last", u8)])
    dl = T.delimited(top, 512)
    v_top = {"origin": {"column": 1, "row": 2}, "target": {"row": 3, "column": 4}, "single": {"only": 5}, "arr": [{"column": 6, "row": 7}, {"column": 8, "row": 9}], "u": {"q": {"row": 10, "column": 11}}, "deep": {"inner": {"only": 12}}, "more": [{"row": 13, "column": 14}], "last": 15}
    v_top2 = dict(v_top, u={"p": {"column": 16, "row": 17}}, more=[])
    subjects = [(top, v_top), (top, v_top2), (dl, v_top), (un, {"q": {"row": 1, "column": 2}}), (s2, {"inner": {"only": 200}}), (T.struct("W {Q a; P b}", [("a", q), ("b", p)]), {"a": {"row": 258, "column": 3}, "b": {"column": 4, "row": 1029}})]
    n = 0
    for t, v in subjects:
        want = C.encode(t, v, False)
        bad = []
        seen = set()
        for style in range(16):
            rv = relaxed_forms(t, v, style)
            key = repr(rv)
            if key in seen:
                continue
            seen.add(key)
            got = C.run_codec(ctx, T, "serialize", t, rv, False, relaxed=True)
            n += 1
            if not isinstance(got, (bytes, bytearray)) or bytes(got) != want:
                bad.append({"relaxed value": key[:300], "found": got.hex() if isinstance(got, (bytes, bytearray)) else got, "explicit form gives": want.hex()})
        ctx.check(not bad, t.label, "%d relaxed spellings of one value" % len(seen), "a relaxed input form does not serialize to the bytes of the explicit dict form", "pydsdl/_serdes.py", bad[:3])
    ctx.count(n)


def run(ctx: Ctx) -> None:
    ctx.attempt(rule_r1_r2, ctx)
    ctx.attempt(rule_r3, ctx)
    ctx.attempt(rule_r4, ctx)
    ctx.attempt(rule_r5, ctx)
    ctx.attempt(rule_r6_keys, ctx)
    ctx.attempt(rule_r7_concrete, ctx)
    ctx.attempt(rule_r8_relaxed, ctx)
    ctx.assume("struct.pack/unpack implement IEEE 754 binary16/32/64 (trusted stdlib); write_bits/read_bits are LSB-first (bit arithmetic not decided here; offset accounting is C07.R3)")
    ctx.undecided("value round trip for all (type, value) pairs; IEEE-754 / two's-complement / LSB-first bit patterns; equivalence of the aligned fast path and the bit-wise slow path; byte equality of the relaxed input forms beyond the grid of C06.R8")
