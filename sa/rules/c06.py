"""
C06 -- serialize/deserialize round-trip and produce the Specification's wire encoding.

Round-trip equality over all values, IEEE-754 bit patterns and LSB-first bit arithmetic are numerical and NOT decided.
Decided is the structural agreement of the independently written layout walkers (a necessary condition for the round trip
and for "produced length is an element of bit_length_set"):

R1  writer <-> reader symmetry: the traces (E8) of the composite / array / primitive branches are identical event for event.
R2  writer <-> layout model: the writer traces equal the Specification's layout (per-field alignment + field, final
    alignment; tag + variant + alignment; prefix + elements with the capacity guards; header + inner bytes).
R3  type dispatch is exhaustive and unshadowed in the seven dispatchers.
R4  cast-mode action shape: saturated = clamp to the inclusive range, truncated = mask to the width.
R5  defaults table and the use of defaults for omitted structure fields.
"""
from __future__ import annotations

import ast
import re
import struct as _struct
from typing import Any, Dict, List, Optional, Sequence, Set, Tuple

from ..core import AnalysisError, ClassInfo, Ctx, FuncInfo, body_without_docstring, calls_in, dotted, norm, walk_no_nested
from ..decide import paths_of
from ..fold import Folder, Unfoldable
from ..trace import Tracer, isinstance_branches, show_all

SD = "_serdes"


def branch_traces(ctx: Ctx, fname: str, subject: str = "schema") -> Dict[str, List[Any]]:
    fn = ctx.func(SD + "." + fname)
    out: Dict[str, List[Any]] = {}
    # statements before the isinstance chain and after it belong to every branch (shared prologue / epilogue)
    chain = isinstance_branches(fn.node, subject)
    if not chain:
        raise AnalysisError("%s: no isinstance(%s, ...) dispatch found" % (fname, subject))
    body = body_without_docstring(fn.node)
    chain_stmt = next(st for st in body if isinstance(st, ast.If) and norm(st.test).startswith("isinstance(%s, " % subject))
    idx = body.index(chain_stmt)
    epilogue = body[idx + 1 :]
    for ks, stmts in chain:
        t = Tracer()
        ev = t.events(list(stmts) + list(epilogue))
        for k in ks or ["<else>"]:
            out[k] = ev
    return out


def _norm_field(s: str) -> str:
    """`f.data_type`, `field.data_type`, `schema.fields[tag].data_type` -> FIELD.data_type"""
    s = re.sub(r"schema\.fields\[\w+\]\.data_type", "FIELD.data_type", s)
    s = re.sub(r"\b(f|field)\.data_type", "FIELD.data_type", s)
    s = re.sub(r"FOR (f|field) in schema\.fields", "FOR FIELD in schema.fields", s)
    s = s.replace("isinstance(field, PaddingField)", "isinstance(FIELD, PaddingField)").replace("isinstance(f, PaddingField)", "isinstance(FIELD, PaddingField)")
    return s


def rule_r1_r2(ctx: Ctx) -> None:
    ctx.rule("C06.R1", "writer and reader walk the same layout: identical traces for structure, union, array and primitive branches", min_instances=8)
    sw, dr = branch_traces(ctx, "_serialize_composite"), branch_traces(ctx, "_deserialize_composite")
    for k in ("StructureType", "UnionType"):
        a, b = _norm_field(show_all(sw.get(k, []))), _norm_field(show_all(dr.get(k, [])))
        ctx.check(a == b and bool(a), "_serdes._(de)serialize_composite[%s]" % k, a, "the reader must consume exactly what the writer produces, step for step", "pydsdl/_serdes.py", {"reader": b})
    pw, pr = branch_traces(ctx, "_serialize_primitive"), branch_traces(ctx, "_deserialize_primitive")
    for k in ("BooleanType", "SignedIntegerType", "UnsignedIntegerType", "VoidType"):
        a, b = show_all(pw.get(k, [])), show_all(pr.get(k, []))
        ctx.check(a == b and bool(a), "_serdes._(de)serialize_primitive[%s]" % k, a, "same width written and read", "pydsdl/_serdes.py", {"reader": b})
    aw, ar = branch_traces(ctx, "_serialize_array"), branch_traces(ctx, "_deserialize_array")
    # the reader shares its element loop after the dispatch: its trace per branch = branch + shared loop
    rd = ctx.func(SD + "._deserialize_array")
    loops = [st for st in body_without_docstring(rd.node) if isinstance(st, ast.For)]
    shared = Tracer().events(loops)
    for k in ("FixedLengthArrayType", "VariableLengthArrayType"):
        a = re.sub(r"FOR \w+ in \w+", "FOR _ in ELEMENTS", show_all(aw.get(k, [])))
        b_ev = [e for e in ar.get(k, []) if not (isinstance(e, tuple) and e[0] == "FOR")] + shared
        b = re.sub(r"FOR \w+ in range\(length\)", "FOR _ in ELEMENTS", show_all(b_ev))
        ctx.check(a == b and bool(a), "_serdes._(de)serialize_array[%s]" % k, a, "prefix and elements are read as they are written", "pydsdl/_serdes.py", {"reader": b})

    ctx.rule("C06.R2", "the writer's trace equals the Specification's layout: structure = per-field (align to the field, field) then align to the structure; union = tag, variant, align; arrays = [prefix] + elements under the capacity guards; delimited = header(byte length of the inner output) + inner bytes", min_instances=6)
    want_struct = "FOR FIELD in schema.fields [ALIGN(FIELD.data_type.alignment_requirement), IF isinstance(FIELD, PaddingField) [BITS(FIELD.data_type.bit_length)] [EMIT(FIELD.data_type)]]; ALIGN(schema.alignment_requirement)"
    alt_struct = "FOR FIELD in schema.fields [ALIGN(FIELD.data_type.alignment_requirement), EMIT(FIELD.data_type)]; ALIGN(schema.alignment_requirement)"
    got = _norm_field(show_all(sw.get("StructureType", [])))
    ctx.check(got in (want_struct, alt_struct), "_serdes._serialize_composite[StructureType]", got, "each field is preceded by padding to its own alignment; the structure is padded to its alignment at the end", "pydsdl/_serdes.py", {"expected": want_struct})
    want_union = "BITS(schema.tag_field_type.bit_length); EMIT(FIELD.data_type); ALIGN(schema.alignment_requirement)"
    got = _norm_field(show_all(sw.get("UnionType", [])))
    ctx.check(got == want_union, "_serdes._serialize_composite[UnionType]", got, "a union is its tag, the selected variant, then padding to the union's alignment", "pydsdl/_serdes.py", {"expected": want_union})
    got = re.sub(r"FOR \w+ in \w+", "FOR _ in ELEMENTS", show_all(aw.get("VariableLengthArrayType", [])))
    ctx.check(got == "BITS(schema.length_field_type.bit_length); FOR _ in ELEMENTS [EMIT(schema.element_type)]", "_serdes._serialize_array[VariableLengthArrayType]", got, "a variable-length array is its length prefix followed by the elements", "pydsdl/_serdes.py")
    got = re.sub(r"FOR \w+ in \w+", "FOR _ in ELEMENTS", show_all(aw.get("FixedLengthArrayType", [])))
    ctx.check(got == "FOR _ in ELEMENTS [EMIT(schema.element_type)]", "_serdes._serialize_array[FixedLengthArrayType]", got, "a fixed-length array is its elements, without a prefix", "pydsdl/_serdes.py")
    # guards of the array writer
    sa = ctx.func(SD + "._serialize_array")
    guards = {}
    for ks, body in isinstance_branches(sa.node, "schema"):
        for st in body:
            if isinstance(st, ast.If) and st.body and isinstance(st.body[-1], ast.Raise):
                for k in ks:
                    guards[k] = norm(st.test)
    ctx.check(guards.get("FixedLengthArrayType") in ("len(value) != schema.capacity",) and guards.get("VariableLengthArrayType") in ("not 0 <= len(value) <= schema.capacity", "len(value) > schema.capacity"), sa.short, "guards: %s" % guards, "a fixed array must have exactly `capacity` elements, a variable one at most `capacity`; the prefix value is the element count", sa.where())
    pref = [c for c in calls_in(sa.node) if isinstance(c.func, ast.Attribute) and c.func.attr == "write_bits" and "length_field_type" in norm(c)]
    ctx.check(len(pref) == 1 and norm(pref[0].args[0]) == "len(value)", sa.short, norm(pref[0]) if pref else "?", "the length prefix holds the number of elements", sa.where(), nontrivial=False)
    # union tag value = index of the selected variant
    sc = ctx.func(SD + "._serialize_composite")
    tagw = [c for c in calls_in(sc.node) if isinstance(c.func, ast.Attribute) and c.func.attr == "write_bits" and "tag_field_type" in norm(c)]
    enum_ok = any(isinstance(st, ast.For) and norm(st.iter) == "enumerate(schema.fields)" for st in ast.walk(sc.node))
    ctx.check(len(tagw) == 1 and norm(tagw[0].args[0]) == "tag_index" and enum_ok, sc.short, norm(tagw[0]) if tagw else "?", "the tag is the index of the selected variant in declaration order", sc.where())
    # delimited: header value is the byte length of the serialized inner object, followed by those bytes - both copies
    for fname in ("_serialize_composite", "serialize"):
        fn = ctx.func(SD + "." + fname)
        src = norm(fn.node)
        hdr = [c for c in calls_in(fn.node) if isinstance(c.func, ast.Attribute) and c.func.attr == "write_bits" and ("delimiter_header_type" in norm(c) or "header_bit_length" in norm(c))]
        good = len(hdr) == 1
        if good:
            v = norm(hdr[0].args[0])
            good = v in ("len(inner_bytes)", "inner_byte_length") and ("inner_bytes = temp_writer.finish()" in src or "inner_bytes = inner_writer.finish()" in src)
            if v == "inner_byte_length":
                good = good and "inner_byte_length = len(inner_bytes)" in src
            good = good and "_serialize_composite(temp_writer, schema.inner_type" in src.replace("inner_writer", "temp_writer")
            good = good and re.search(r"for (\w+) in inner_bytes: writer\.write_bits\(\1, 8\)", src.replace("\n", " ")) is not None
            width = norm(hdr[0].args[1])
            good = good and width in ("schema.delimiter_header_type.bit_length", "header_bit_length")
        ctx.check(good, fn.short, norm(hdr[0]) if hdr else "?", "the delimiter header is the byte length of the serialized inner object, which follows byte by byte", fn.where())
    # float byte counts
    for fname in ("_serialize_primitive", "_deserialize_primitive"):
        fn = ctx.func(SD + "." + fname)
        fmts = {}
        for n in ast.walk(fn.node):
            if isinstance(n, ast.If) and isinstance(n.test, ast.Compare) and norm(n.test.left) == "schema.bit_length" and isinstance(n.test.comparators[0], ast.Constant):
                for s in n.body:
                    for c in ast.walk(s):
                        if isinstance(c, ast.Constant) and isinstance(c.value, str) and re.fullmatch(r"[<>=!@]?[efd]", c.value):
                            fmts.setdefault(n.test.comparators[0].value, set()).add(c.value)
        bad = {b: sorted(f) for b, f in fmts.items() if any(not x.startswith("<") or _struct.calcsize(x) * 8 != b for x in f)}
        ctx.check(set(fmts) == {16, 32, 64} and not bad, fn.short, "float formats %s" % {k: sorted(v) for k, v in fmts.items()}, "floats are little-endian IEEE 754 of exactly the declared width", fn.where(), bad)
    ctx.sample({"rule": "C06.R1/R2", "structure_trace": want_struct})


def rule_r3(ctx: Ctx) -> None:
    repo = ctx.repo
    ctx.rule("C06.R3", "type dispatch is exhaustive over the concrete types of the model and no test is shadowed by an earlier superclass test", min_instances=7)
    ser = ctx.cls("_serializable._serializable.SerializableType")
    leaves = [c for c in repo.subclasses(ser) if not repo.is_abstract_class(c)]
    names = {c.name: c for c in repo.subclasses(ser)}
    dispatchers = [
        ("_serialize_field_value", "field_type"), ("_deserialize_field_value", "field_type"),
        ("_serialize_element", "element_type"), ("_deserialize_element", "element_type"),
        ("_serialize_primitive", "schema"), ("_deserialize_primitive", "schema"), ("_default_value", "schema"),
        ("_serialize_composite", "schema"), ("_deserialize_composite", "schema"),
    ]
    domain_of = {
        "_serialize_primitive": ("PrimitiveType", "VoidType"), "_deserialize_primitive": ("PrimitiveType", "VoidType"),
        "_serialize_composite": ("CompositeType",), "_deserialize_composite": ("CompositeType",),
    }
    for fname, subj in dispatchers:
        fn = ctx.func(SD + "." + fname)
        chain = isinstance_branches(fn.node, subj)
        tests = [ks for ks, _ in chain if ks]
        dom = domain_of.get(fname)
        uncovered = []
        for leaf in leaves:
            if dom and not any(repo.is_subclass(leaf, names[d]) for d in dom if d in names):
                continue
            if leaf.name == "ServiceType" and fname in ("_default_value",):
                continue  # service types are rejected at the API boundary
            if not any(any(k in names and repo.is_subclass(leaf, names[k]) for k in ks) for ks in tests):
                uncovered.append(leaf.name)
        shadowed = []
        for i, ks in enumerate(tests):
            for j in range(i):
                for k in ks:
                    if k in names and all(any(p in names and repo.is_subclass(names[k], names[p]) for p in tests[j]) for _ in [0]):
                        if any(p in names and repo.is_subclass(names[k], names[p]) for p in tests[j]):
                            shadowed.append("%s after %s" % (k, tests[j]))
        ctx.check(not uncovered and not shadowed, fn.short, "tests: %s" % tests, "every concrete type reaches a handler and no handler is unreachable", fn.where(), {"uncovered": uncovered, "shadowed": shadowed})
    # array element specialisations come before the generic path
    for fname in ("_serialize_array",):
        fn = ctx.func(SD + "." + fname)
        chain = isinstance_branches(fn.node, "schema.element_type")
        tests = [ks for ks, _ in chain if ks]
        ctx.check(tests[:2] == [["UTF8Type"], ["ByteType"]], fn.short, "element specialisations: %s" % tests, "utf8 and byte arrays accept str / bytes input before the generic list path", fn.where(), nontrivial=False)


def rule_r4(ctx: Ctx) -> None:
    repo = ctx.repo
    ctx.rule("C06.R4", "cast modes: saturated clamps to the type's inclusive range, truncated masks to the width (integers) / overflows to infinity (floats)", min_instances=4)
    fn = ctx.func(SD + "._serialize_primitive")
    for ks, body in isinstance_branches(fn.node, "schema"):
        for k in ks:
            if k not in ("SignedIntegerType", "UnsignedIntegerType"):
                continue
            sat = trunc = None
            for st in body:
                if isinstance(st, ast.If) and norm(st.test) == "schema.cast_mode == PrimitiveType.CastMode.SATURATED":
                    for s in st.body:
                        if isinstance(s, ast.Assign) and norm(s.targets[0]) == "int_value":
                            sat = s.value
                    env = {}
                    for s in st.orelse:
                        if isinstance(s, ast.Assign) and isinstance(s.targets[0], ast.Name):
                            if norm(s.targets[0]) == "int_value":
                                from ..decide import substitute

                                trunc = substitute(s.value, env)
                            else:
                                env[s.targets[0].id] = s.value
            bounds_ok = "min_bound = int(range_val.min)" in norm(ast.Module(body=body, type_ignores=[])) and "max_bound = int(range_val.max)" in norm(ast.Module(body=body, type_ignores=[])) and "range_val = schema.inclusive_value_range" in norm(ast.Module(body=body, type_ignores=[]))
            bad = []
            if sat is None or trunc is None:
                ctx.fail(fn.short + "[%s]" % k, "cast-mode branches", "saturated / truncated actions not found", where=fn.where())
                continue
            for lo, hi in ((-128, 127), (0, 255), (0, 1), (-2, 1)):
                for v in (lo - 5, lo - 1, lo, lo + 1, 0, hi - 1, hi, hi + 1, hi + 300):
                    try:
                        got = Folder({"int_value": v, "min_bound": lo, "max_bound": hi}, repo, fn.module).fold(sat)
                    except Unfoldable as ex:
                        raise AnalysisError("cannot fold the saturation expression %s: %s" % (norm(sat), ex))
                    ctx.count()
                    if got != min(max(v, lo), hi):
                        bad.append({"mode": "saturated", "value": v, "range": [lo, hi], "found": got})
            for n in (1, 2, 7, 8, 33, 64):
                for v in (-(2**n) - 1, -1, 0, 1, 2**n - 1, 2**n, 2**n + 5):
                    try:
                        got = Folder({"int_value": v, "schema.bit_length": n}, repo, fn.module).fold(trunc)
                    except Unfoldable as ex:
                        raise AnalysisError("cannot fold the truncation expression %s: %s" % (norm(trunc), ex))
                    ctx.count()
                    if got != v % (2**n):
                        bad.append({"mode": "truncated", "value": v, "bits": n, "found": got})
            ctx.check(not bad and bounds_ok, fn.short + "[%s]" % k, "saturated: %s ; truncated: %s" % (norm(sat), norm(trunc)), "out-of-range integers are clamped (saturated) or wrapped modulo 2**n (truncated)", fn.where(), bad[:4])
            # what is written is the two's complement of the result within the width
            wr = [c for s in body for c in ast.walk(s) if isinstance(c, ast.Call) and isinstance(c.func, ast.Attribute) and c.func.attr == "write_bits"]
            ok_w = len(wr) == 1 and norm(wr[0].args[1]) == "schema.bit_length" and norm(wr[0].args[0]) in ("int_value", "raw_value")
            if ok_w and norm(wr[0].args[0]) == "raw_value":
                ok_w = "raw_value = int_value & (1 << schema.bit_length) - 1" in norm(ast.Module(body=body, type_ignores=[]))
            ctx.check(ok_w, fn.short + "[%s]" % k, norm(wr[0]) if wr else "?", "the value is written in two's complement within the declared width", fn.where(), nontrivial=False)
    # float: saturated clamps finite values, truncated overflows to +-inf
    src = norm(fn.node)
    good = "float_value = max(min_bound, min(max_bound, float_value))" in src and "math.copysign(math.inf, float_value)" in src and "math.isnan(float_value)" in src
    ctx.check(good, fn.short + "[FloatType]", "saturated: clamp finite values; overflow -> copysign(inf)", "floats saturate to the largest finite value or overflow to infinity; NaN passes through", fn.where())
    # reader sign extension
    rd = ctx.func(SD + "._deserialize_primitive")
    rsrc = norm(rd.node)
    ctx.check("if raw_value >= 1 << schema.bit_length - 1" in rsrc and "result = raw_value - (1 << schema.bit_length)" in rsrc, rd.short + "[SignedIntegerType]", "sign extension at 2**(n-1)", "signed integers are decoded from two's complement", rd.where())


def rule_r5(ctx: Ctx) -> None:
    ctx.rule("C06.R5", "defaults: false / 0 / 0.0 / [] / '' / b'' / capacity x default / dict of field defaults / first variant; omitted structure fields are encoded as their default", min_instances=3)
    fn = ctx.func(SD + "._default_value")
    table: Dict[str, str] = {}
    for ks, body in isinstance_branches(fn.node, "schema"):
        rets = [norm(r.value) for s in body for r in ast.walk(s) if isinstance(r, ast.Return)]
        sub = isinstance_branches(ast.FunctionDef(name="x", args=fn.node.args, body=list(body), decorator_list=[], lineno=0), "schema.element_type")
        for k in ks:
            if sub:
                for ks2, b2 in sub:
                    r2 = [norm(r.value) for s in b2 for r in ast.walk(s) if isinstance(r, ast.Return)]
                    for k2 in ks2 or ["<other>"]:
                        table["%s[%s]" % (k, k2)] = ";".join(r2)
            else:
                table[k] = ";".join(rets)
    want = {
        "BooleanType": "False", "SignedIntegerType": "0", "UnsignedIntegerType": "0", "FloatType": "0.0", "VoidType": "None",
        "FixedLengthArrayType": "[_default_value(schema.element_type) for _ in range(schema.capacity)]",
        "VariableLengthArrayType[UTF8Type]": "''", "VariableLengthArrayType[ByteType]": "b''", "VariableLengthArrayType[<other>]": "[]",
        "StructureType": "result", "UnionType": "{first_field.name: _default_value(first_field.data_type)}", "DelimitedType": "_default_value(schema.inner_type)",
    }
    bad = {k: table.get(k) for k, v in want.items() if table.get(k) != v}
    ctx.check(not bad, fn.short, "defaults table", "each type has the Specification's zero value", fn.where(), bad)
    src = norm(fn.node)
    ctx.check("for field in schema.fields_except_padding: result[field.name] = _default_value(field.data_type)" in src.replace("\n", " ") and "first_field = schema.fields[0]" in src, fn.short, "structure: all named fields; union: first variant", "a structure defaults field-wise, a union to its first variant", fn.where())
    sc = ctx.func(SD + "._serialize_composite")
    ssrc = norm(sc.node).replace("\n", " ")
    good = "value = obj.get(field.name, _DEFAULT_SENTINEL)" in ssrc and "if value is _DEFAULT_SENTINEL: value = _default_value(field.data_type)" in ssrc
    ctx.check(good, sc.short, "omitted field -> _default_value(field.data_type)", "structure fields omitted from the input are encoded as zero / empty / first variant", sc.where())
    for k in ("StructureType",):
        pass


def run(ctx: Ctx) -> None:
    rule_r1_r2(ctx)
    rule_r3(ctx)
    rule_r4(ctx)
    rule_r5(ctx)
    ctx.assume("struct.pack/unpack implement IEEE 754 binary16/32/64 (trusted stdlib); write_bits/read_bits are LSB-first (bit arithmetic not decided here; offset accounting is C07.R3)")
    ctx.undecided("value round trip for all (type, value) pairs; IEEE-754 / two's-complement / LSB-first bit patterns; equivalence of the aligned fast path and the bit-wise slow path; byte equality of the relaxed input forms")
