"""
Shared by C15.R5 / C10.R9: results that depend on the *ambient state of the process* - the working directory, the file
system, the environment, the clock - must be computed when they are asked for.  `Path.resolve()` of a relative path answers
relative to the working directory of that moment; `exists()`, `rglob()`, `read_text()` answer for the file system of that
moment.  A memo (functools.lru_cache / cache, as decorator or by call) around a function that performs - or reaches through
the call graph - such an operation freezes the first answer: the next call with an equal argument (the same relative path
after a chdir, the same directory after a file was added) gets the answer of another time.

The rule lists every memoised function of the package and, for each, the ambient operations reachable from it.
"""
from __future__ import annotations

import ast
from typing import Any, Dict, List, Optional, Sequence, Set, Tuple

from ..callgraph import CallGraph
from ..core import AnalysisError, Ctx, dotted, norm, walk_no_nested

MEMO = ("lru_cache", "cache", "cached", "memoize", "memoized")
AMBIENT_METHODS = {
    "resolve", "absolute", "cwd", "home", "expanduser", "exists", "is_dir", "is_file", "is_symlink", "stat", "lstat", "iterdir", "glob", "rglob", "samefile",
    "read_text", "read_bytes", "open", "readlink", "owner",
}
AMBIENT_CALLS = {"open", "os.getcwd", "os.getcwdb", "os.listdir", "os.scandir", "os.walk", "os.stat", "os.getenv", "os.path.abspath", "os.path.realpath", "os.path.exists", "os.path.isdir", "os.path.isfile", "os.path.expanduser", "os.path.expandvars", "os.path.getmtime", "time.time", "time.monotonic", "time.perf_counter", "random.random", "random.randint", "random.choice", "socket.gethostname"}
AMBIENT_NAMES = {"os.environ", "sys.argv", "os.curdir"}


EXEMPT: Dict[str, str] = {
    "_parser._get_grammar": "reads the grammar file that ships next to the module (a path derived from __file__, checked): a constant of the installation, not an input of the call",
}


def memoised(ctx: Ctx) -> List[Tuple[Any, str]]:
    """(function, how) for every function of the package (tests aside) wrapped in an argument-keyed memo"""
    repo = ctx.repo
    out: List[Tuple[Any, str]] = []
    for fn in repo.all_functions().values():
        if fn.name.startswith("_unittest") or fn.module.name.split(".")[-1].startswith("_test"):
            continue
        for d in fn.node.decorator_list:
            nm = (dotted(d.func) if isinstance(d, ast.Call) else dotted(d)) or ""
            if nm.split(".")[-1] in MEMO or nm.split(".")[-1] == "cached_property":
                out.append((fn, "@" + nm))
    for m in repo.modules.values():
        if m.name.split(".")[-1].startswith("_test"):
            continue
        for n in ast.walk(m.tree):
            if isinstance(n, ast.Call):
                f = n.func
                nm = dotted(f) or (dotted(f.func) if isinstance(f, ast.Call) else "") or ""
                if nm.split(".")[-1] in MEMO and n.args:
                    for a in n.args:
                        try:
                            r = repo.resolve_expr(m, a, None) if isinstance(a, (ast.Name, ast.Attribute)) else None
                        except Exception:
                            r = None
                        if type(r).__name__ == "FuncInfo" and not any(x is r for x, _ in out):
                            out.append((r, "%s(...) at %s:%d" % (nm, m.relpath, n.lineno)))
    return out


def ambient_sites(fn: Any) -> List[str]:
    found = []
    for n in ast.walk(fn.node):
        if isinstance(n, ast.Call):
            nm = dotted(n.func) or ""
            if nm in AMBIENT_CALLS:
                found.append("%s (%s)" % (norm(n)[:50], fn.where(n)))
            elif isinstance(n.func, ast.Attribute) and n.func.attr in AMBIENT_METHODS and not nm.startswith("self._") and nm.split(".")[0] not in ("re", "string"):
                found.append("%s (%s)" % (norm(n)[:50], fn.where(n)))
        elif isinstance(n, ast.Attribute) and (dotted(n) or "") in AMBIENT_NAMES:
            found.append("%s (%s)" % (dotted(n), fn.where(n)))
    return found


def rule(ctx: Ctx, rid: str, message: str) -> None:
    g = getattr(ctx, "_ambient_graph", None)
    if g is None:
        g = ctx._ambient_graph = CallGraph(ctx.repo)  # type: ignore
    ms = memoised(ctx)
    ctx.analysed[rid + ".memoised_functions"] = [f.short for f, _ in ms]
    # positive control: the scanner recognises a resolve() under a cache in a tiny embedded fragment
    src = "import functools\n@functools.lru_cache(maxsize=None)\ndef f(p):\n    return p.resolve()\n"
    ctl = ast.parse(src).body[1]

    class _F:
        node = ctl

        @staticmethod
        def where(n: Any = None) -> str:
            return "control"

    if not ambient_sites(_F):
        raise AnalysisError("%s: the positive control (Path.resolve under lru_cache) was not recognised" % rid)
    bad = []
    for fn, how in ms:
        if fn.short in EXEMPT and "__file__" in norm(fn.node):
            ctx.count()
            continue
        reach = g.reachable([fn.qualname])
        sites: List[str] = []
        for q in reach:
            f2 = g.funcs.get(q)
            if f2 is not None:
                sites.extend(ambient_sites(f2))
        ctx.count()
        if sites:
            bad.append({"function": fn.short, "memo": how, "ambient operations reached": sites[:4]})
    where = bad[0]["ambient operations reached"][0].split("(")[-1].rstrip(")") if bad else "pydsdl"
    ctx.check(not bad, "memoised functions of the package (%d)" % len(ms), "none reaches the working directory, the file system, the environment or the clock", message, where, bad[:4], nontrivial=False)
