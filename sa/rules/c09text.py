"""
C09, text level (R6): namespaces of small definitions that refer to one another are read end to end by the repository's
front end (evaluated from the source).  Every reference must resolve to exactly the definition it names - relative names in
the referrer's own namespace, the version as written - and the nested type must be what reading that definition on its own
yields; references that name nothing, the referrer itself, a cycle, a name in another letter case, or a name and version
that two lookup definitions share must make the reading fail with an InvalidDefinitionError.
"""
from __future__ import annotations

from typing import Any, Dict, List, Optional, Tuple

from ..core import AnalysisError, Ctx
from . import textworld as T
from .c03text import TextRun, front_end
from .c04text import is_invalid_definition

ROOT = "/w/ns"
FILES = {
    "A.1.0.dsdl": "B.0.1 b1\nB.0.2 b2\nns.B.0.1 b1_full\nns.sub.B.0.1 sb\nns.sub.C.1.0 c\nB.0.2[2] arr\nns.sub.B.0.1[<=3] varr\n@sealed\n",
    "B.0.1.dsdl": "uint8 x\n@sealed\n",
    "B.0.2.dsdl": "uint16 y\nuint8 z\n@sealed\n",
    "sub/B.0.1.dsdl": "float32 in_sub\n@sealed\n",
    "sub/C.1.0.dsdl": "B.0.1 mine\nns.B.0.1 theirs\n@sealed\n",
    "Status/Status.1.0.dsdl": "Code.1.0 code\n@sealed\n",
    "Status/Code.1.0.dsdl": "uint8 in_status\n@sealed\n",
    "Code.1.0.dsdl": "uint64 top_level\n@sealed\n",
    "AB/A.1.0.dsdl": "Code.1.0 code\nA.1.0 other\n@sealed\n".replace("A.1.0 other\n", ""),
    "AB/Code.1.0.dsdl": "int8 in_ab\n@sealed\n",
    "s/s.1.0.dsdl": "Code.1.0 code\nns.Code.1.0 top\n@sealed\n",
    "s/Code.1.0.dsdl": "int16 in_s\n@sealed\n",
}
# referrer -> field -> (full name, version) of the definition the reference names
EXPECT: Dict[Tuple[str, Tuple[int, int]], Dict[str, Tuple[str, Tuple[int, int]]]] = {
    ("ns.A", (1, 0)): {"b1": ("ns.B", (0, 1)), "b2": ("ns.B", (0, 2)), "b1_full": ("ns.B", (0, 1)), "sb": ("ns.sub.B", (0, 1)), "c": ("ns.sub.C", (1, 0)), "arr": ("ns.B", (0, 2)), "varr": ("ns.sub.B", (0, 1))},
    ("ns.sub.C", (1, 0)): {"mine": ("ns.sub.B", (0, 1)), "theirs": ("ns.B", (0, 1))},
    ("ns.Status.Status", (1, 0)): {"code": ("ns.Status.Code", (1, 0))},
    ("ns.AB.A", (1, 0)): {"code": ("ns.AB.Code", (1, 0))},
    ("ns.s.s", (1, 0)): {"code": ("ns.s.Code", (1, 0)), "top": ("ns.Code", (1, 0))},
}
BAD: List[Tuple[str, Dict[str, str], Dict[str, str]]] = [
    # label, files under the root, files under a second lookup root /l/ns
    ("a reference that names nothing", {"X.1.0.dsdl": "Nope.1.0 n\n@sealed\n"}, {}),
    ("a version that does not exist", {"X.1.0.dsdl": "B.0.3 n\n@sealed\n", "B.0.1.dsdl": "uint8 x\n@sealed\n"}, {}),
    ("the other minor version only", {"X.1.0.dsdl": "B.1.0 n\n@sealed\n", "B.0.1.dsdl": "uint8 x\n@sealed\n"}, {}),
    ("a sibling of another namespace only", {"sub/X.1.0.dsdl": "B.0.1 n\n@sealed\n", "B.0.1.dsdl": "uint8 x\n@sealed\n"}, {}),
    ("a minor version beyond 255 (1.256 is not 2.0)", {"X.1.0.dsdl": "B.1.256 n\n@sealed\n", "B.2.0.dsdl": "uint8 x\n@sealed\n", "B.1.0.dsdl": "uint8 x\n@sealed\n"}, {}),
    ("a minor version beyond 255 (0.257 is not 1.1)", {"X.1.0.dsdl": "B.0.257 n\n@sealed\n", "B.1.1.dsdl": "uint8 x\n@sealed\n"}, {}),
    ("a major version beyond 255 (256.0 is not 0.0 / 1.0)", {"X.1.0.dsdl": "B.256.1 n\n@sealed\n", "B.0.1.dsdl": "uint8 x\n@sealed\n", "B.1.1.dsdl": "uint8 x\n@sealed\n"}, {}),
    ("a version written with leading zeros of another number (1.00 is 1.0: accepted or rejected, never another definition)", {"X.1.0.dsdl": "B.1.010 n\n@sealed\n", "B.1.8.dsdl": "uint8 x\n@sealed\n", "B.1.0.dsdl": "uint8 x\n@sealed\n"}, {}),
    ("a reference to itself", {"X.1.0.dsdl": "X.1.0 me\n@sealed\n"}, {}),
    ("a reference to itself in an array", {"X.1.0.dsdl": "uint8 a\nns.X.1.0[<=2] me\n@sealed\n"}, {}),
    ("a cycle of two", {"X.1.0.dsdl": "Y.1.0 y\n@sealed\n", "Y.1.0.dsdl": "X.1.0 x\n@sealed\n"}, {}),
    ("a cycle of three", {"X.1.0.dsdl": "Y.1.0 y\n@sealed\n", "Y.1.0.dsdl": "Z.1.0 z\n@sealed\n", "Z.1.0.dsdl": "uint8 q\nX.1.0[2] x\n@sealed\n"}, {}),
    ("another letter case of the short name", {"X.1.0.dsdl": "b.0.1 n\n@sealed\n", "B.0.1.dsdl": "uint8 x\n@sealed\n"}, {}),
    ("another letter case of a namespace", {"X.1.0.dsdl": "ns.SUB.B.0.1 n\n@sealed\n", "sub/B.0.1.dsdl": "uint8 x\n@sealed\n"}, {}),
    ("another letter case of the root namespace", {"X.1.0.dsdl": "NS.B.0.1 n\n@sealed\n", "B.0.1.dsdl": "uint8 x\n@sealed\n"}, {}),
    ("two lookup definitions of one name and version", {"X.1.0.dsdl": "B.0.1 n\n@sealed\n", "B.0.1.dsdl": "uint8 x\n@sealed\n"}, {"B.0.1.dsdl": "uint8 x\n@sealed\n"}),
    ("two lookup definitions of one name and version, different texts", {"X.1.0.dsdl": "B.0.1 n\n@sealed\n", "B.0.1.dsdl": "uint8 x\n@sealed\n"}, {"B.0.1.dsdl": "uint16 other\n@sealed\n"}),
]


def rule_r6_texts(ctx: Ctx) -> None:
    ctx.rule("C09.R6", "namespaces of definitions that refer to one another, read end to end by the evaluated front end: each reference resolves to exactly the definition it names (relative names in the referrer's own namespace - also when the referrer's short name recurs in its full name -, the version as written, through arrays), the nested type is what reading that definition on its own yields; nothing / itself / a cycle / another letter case / a name and version two lookup definitions share is an InvalidDefinitionError", min_instances=3)
    fe = front_end(ctx)
    jobs = [{"files": {ROOT + "/" + k: v for k, v in FILES.items()}, "root": ROOT, "kwargs": {}, "deep": True}]
    for label, files, second in BAD:
        fs = {ROOT + "/" + k: v for k, v in files.items()}
        fs.update({"/l/ns/" + k: v for k, v in second.items()})
        jobs.append({"files": fs, "root": ROOT, "lookup": ["/l/ns"] if second else [], "kwargs": {}})
    outs = fe.read_many(jobs)
    ctx.count(len(FILES) + len(BAD))
    where = "pydsdl/_data_type_builder.py"
    o = outs[0]
    if o["raised"] is not None:
        ctx.fail("read_namespace over definitions that refer to one another", "accepted", "valid references are rejected: %s at %s:%s" % (o["raised"], o["path"], o["line"]), where=where)
    else:
        run = TextRun(o)
        bad = []
        for key, fields in EXPECT.items():
            d = run.by_name.get(key)
            if d is None:
                bad.append("no type %s.%d.%d" % (key[0], key[1][0], key[1][1]))
                continue
            rows = {a["name"]: a for a in d["attributes"]}
            for f, (name, ver) in fields.items():
                sh = rows[f]["shape"]
                while "element" in sh:
                    sh = sh["element"]
                got = (sh.get("full_name"), tuple(sh.get("version", ())))
                if got != (name, ver):
                    bad.append("%s: field %s is %s.%s, the reference names %s.%d.%d" % (key[0], f, got[0], ".".join(map(str, got[1])), name, ver[0], ver[1]))
                    continue
                alone = run.by_name.get((name, ver))
                if alone is None or T.strip_docs(sh.get("nested")) != T.strip_docs({k: v for k, v in alone.items()}):
                    diffs = T.compare(alone, sh.get("nested")) if isinstance(alone, dict) and isinstance(sh.get("nested"), dict) else ["absent"]
                    bad.append("%s: the type nested in field %s differs from %s.%d.%d read on its own: %s" % (key[0], f, name, ver[0], ver[1], "; ".join(diffs[:2])))
        ctx.check(not bad, "read_namespace over definitions that refer to one another", "%d references in %d referrers" % (sum(len(v) for v in EXPECT.values()), len(EXPECT)), "a reference does not resolve to exactly the definition it names: %s" % "; ".join(bad[:3]), where, bad[:8])
    accepted = [l for (l, _, _), x in zip(BAD, outs[1:]) if x["raised"] is None]
    wrong = ["%s -> %s%s" % (l, x["raised"], " (%s)" % x.get("wrapped") if x.get("wrapped") else "") for (l, _, _), x in zip(BAD, outs[1:]) if x["raised"] is not None and not is_invalid_definition(ctx, x["raised"])]
    ctx.check(not accepted, "references that cannot be resolved", "%d cases" % len(BAD), "a reference that names nothing definite is resolved all the same: %s" % "; ".join(accepted[:4]), where, accepted)
    ctx.check(not wrong, "references that cannot be resolved", "the failures are InvalidDefinitionErrors", "an unresolvable reference ends in an error that is not an InvalidDefinitionError: %s" % "; ".join(wrong[:4]), where, wrong)


def run(ctx: Ctx) -> None:
    ctx.attempt(rule_r6_texts, ctx)
