"""
An independent reference for DSDL constant expressions on *texts*: a tokenizer, a precedence-climbing parser built from the
Specification's operator table (rules/c04.SPEC_LEVELS - loosest to tightest, associativity per level) and an evaluator in
exact rational arithmetic.  Nothing of the repository is consulted.  Used by the text-level rules (C04.R8, C12.R7 ...) as
the oracle for what an expression text means.

Values are pairs (kind, native): ("Rational", Fraction) ("Boolean", bool) ("String", str) ("Set", frozenset of values).
`Undefined` is raised where the Specification leaves the operation undefined (the definition must be rejected);
`Malformed` where the text is not an expression at all (a syntax error; must be rejected too).
"""
from __future__ import annotations

import re
import unicodedata
from fractions import Fraction
from typing import Any, Dict, List, Optional, Tuple

Value = Tuple[str, Any]


class Undefined(Exception):
    pass


class Malformed(Exception):
    pass


_TOKEN = re.compile(
    r"""
    (?P<ws>[ \t]+)
  | (?P<real>(?:(?:[0-9](?:_?[0-9])*)?\.[0-9](?:_?[0-9])*|[0-9](?:_?[0-9])*\.)(?:[eE][+-]?[0-9](?:_?[0-9])*)?|[0-9](?:_?[0-9])*[eE][+-]?[0-9](?:_?[0-9])*)
  | (?P<int>0[bB](?:_?[01])+|0[oO](?:_?[0-7])+|0[xX](?:_?[0-9a-fA-F])+|(?:0(?:_?0)*)+(?![0-9_])|[1-9](?:_?[0-9])*)
  | (?P<str>'[^'\\]*(?:\\[^\r\n][^'\\]*)*'|"[^"\\]*(?:\\[^\r\n][^"\\]*)*")
  | (?P<name>[A-Za-z_][A-Za-z0-9_]*)
  | (?P<op>\|\||&&|==|!=|<=|>=|\*\*|[-+*/%|^&<>!.(){},])
    """,
    re.X,
)

BINARY_LEVELS = [  # loosest first: (associativity, tokens)
    ("left", ("||", "&&")),
    ("not", ("!",)),
    ("left", ("==", "!=", "<=", ">=", "<", ">")),
    ("left", ("|", "^", "&")),
    ("left", ("+", "-")),
    ("left", ("*", "/", "%")),
    ("sign", ("+", "-")),
    ("right", ("**",)),
    ("attr", (".",)),
]


def tokenize(text: str) -> List[Tuple[str, str]]:
    out = []
    pos = 0
    while pos < len(text):
        m = _TOKEN.match(text, pos)
        if m is None:
            raise Malformed("at %d in %r" % (pos, text))
        pos = m.end()
        k = m.lastgroup
        if k != "ws":
            out.append((k, m.group(k)))  # type: ignore
    return out


def unescape(literal: str) -> str:
    body = literal[1:-1]
    out = []
    i = 0
    simple = {"r": "\r", "n": "\n", "t": "\t", '"': '"', "'": "'", "\\": "\\"}
    while i < len(body):
        c = body[i]
        if c != "\\":
            out.append(c)
            i += 1
            continue
        if i + 1 >= len(body):
            raise Malformed("dangling backslash")
        e = body[i + 1]
        if e in "uU":
            n = 4 if e == "u" else 8
            h = body[i + 2 : i + 2 + n]
            if len(h) != n or not re.fullmatch(r"[0-9a-fA-F]+", h):
                raise Malformed("bad code point escape")
            try:
                out.append(chr(int(h, 16)))
            except (ValueError, OverflowError):
                raise Malformed("bad code point")
            i += 2 + n
            continue
        if e.lower() not in simple:
            raise Malformed("bad escape")
        out.append(simple[e.lower()])
        i += 2
    return "".join(out)


class Parser:
    def __init__(self, text: str, names: Optional[Dict[str, Value]] = None):
        self.toks = tokenize(text)
        self.i = 0
        self.names = names or {}

    def peek(self) -> Optional[Tuple[str, str]]:
        return self.toks[self.i] if self.i < len(self.toks) else None

    def take(self, op: Optional[str] = None) -> Tuple[str, str]:
        t = self.peek()
        if t is None or (op is not None and t != ("op", op)):
            raise Malformed("expected %r" % op)
        self.i += 1
        return t

    def at_op(self, ops: Tuple[str, ...]) -> Optional[str]:
        t = self.peek()
        return t[1] if t is not None and t[0] == "op" and t[1] in ops else None

    def parse(self) -> Any:
        tree = self.level(0)
        if self.peek() is not None:
            raise Malformed("trailing %r" % (self.peek(),))
        return tree

    def level(self, n: int) -> Any:
        if n >= len(BINARY_LEVELS):
            return self.atom()
        assoc, ops = BINARY_LEVELS[n]
        if assoc == "left":
            left = self.level(n + 1)
            while True:
                op = self.at_op(ops)
                if op is None:
                    return left
                self.take()
                left = ("bin", op, left, self.level(n + 1))
        if assoc == "not":
            if self.at_op(ops):
                self.take()
                return ("un", "!", self.level(n))  # right recursion: `!!x`
            return self.level(n + 1)
        if assoc == "sign":
            op = self.at_op(ops)
            if op:
                self.take()
                return ("un", op, self.level(n + 1))  # the operand is an exponential expression (no `--x`)
            return self.level(n + 1)
        if assoc == "right":
            left = self.level(n + 1)
            op = self.at_op(ops)
            if op:
                self.take()
                return ("bin", op, left, self.level(n - 1))  # the exponent may carry a sign: 2 ** -1
            return left
        # attribute access
        left = self.level(n + 1)
        while self.at_op(ops):
            self.take()
            t = self.take()
            if t[0] != "name":
                raise Malformed("attribute name expected")
            left = ("attr", left, t[1])
        return left

    def atom(self) -> Any:
        t = self.peek()
        if t is None:
            raise Malformed("unexpected end")
        if t == ("op", "("):
            self.take()
            e = self.level(0)
            self.take(")")
            return e
        if t == ("op", "{"):
            self.take()
            items = []
            if self.peek() != ("op", "}"):
                items.append(self.level(0))
                while self.peek() == ("op", ","):
                    self.take()
                    items.append(self.level(0))
            self.take("}")
            return ("set", items)
        self.take()
        if t[0] == "int":
            return ("lit", ("Rational", Fraction(int(t[1].replace("_", ""), 0) if not re.fullmatch(r"[0_]+", t[1]) else 0)))
        if t[0] == "real":
            return ("lit", ("Rational", Fraction(t[1].replace("_", ""))))
        if t[0] == "str":
            return ("lit", ("String", unescape(t[1])))
        if t[0] == "name":
            if t[1] == "true":
                return ("lit", ("Boolean", True))
            if t[1] == "false":
                return ("lit", ("Boolean", False))
            return ("name", t[1])
        raise Malformed("unexpected %r" % (t,))


def _nfc(s: str) -> str:
    return unicodedata.normalize("NFC", s)


def _is_int(x: Fraction) -> bool:
    return x.denominator == 1


def binary(op: str, l: Value, r: Value) -> Value:
    lk, lv = l
    rk, rv = r
    if lk == rk == "Rational":
        if op == "+":
            return ("Rational", lv + rv)
        if op == "-":
            return ("Rational", lv - rv)
        if op == "*":
            return ("Rational", lv * rv)
        if op in ("/", "%"):
            if rv == 0:
                raise Undefined("division by zero")
            return ("Rational", lv / rv if op == "/" else lv - rv * ((lv / rv).__floor__()))
        if op == "**":
            if not _is_int(rv):
                raise NotDecided("fractional exponent")
            if lv == 0 and rv < 0:
                raise Undefined("zero to a negative power")
            if abs(rv) > 4096:
                raise NotDecided("huge exponent")
            return ("Rational", Fraction(lv) ** int(rv))
        if op in ("|", "^", "&"):
            if not (_is_int(lv) and _is_int(rv)):
                raise Undefined("bitwise operator on a non-integer")
            a, b = int(lv), int(rv)
            return ("Rational", Fraction(a | b if op == "|" else a ^ b if op == "^" else a & b))
        if op in ("==", "!=", "<=", ">=", "<", ">"):
            return ("Boolean", {"==": lv == rv, "!=": lv != rv, "<=": lv <= rv, ">=": lv >= rv, "<": lv < rv, ">": lv > rv}[op])
        raise Undefined("%s on numbers" % op)
    if lk == rk == "Boolean":
        if op == "||":
            return ("Boolean", lv or rv)
        if op == "&&":
            return ("Boolean", lv and rv)
        if op in ("==", "!="):
            return ("Boolean", (lv == rv) == (op == "=="))
        raise Undefined("%s on booleans" % op)
    if lk == rk == "String":
        if op == "+":
            return ("String", lv + rv)
        if op in ("==", "!="):
            return ("Boolean", (_nfc(lv) == _nfc(rv)) == (op == "=="))
        raise Undefined("%s on strings" % op)
    if lk == rk == "Set":
        if _element_kind(lv) != _element_kind(rv):
            raise Undefined("sets of different element types")  # binary operators are defined for sets of one element type
        if op in ("==", "!="):
            return ("Boolean", (lv == rv) == (op == "=="))
        if op in ("<=", ">=", "<", ">"):
            return ("Boolean", {"<=": lv <= rv, ">=": lv >= rv, "<": lv < rv, ">": lv > rv}[op])
        if op in ("|", "^", "&"):
            if _element_kind(lv) != _element_kind(rv):
                raise Undefined("sets of different element types")
            res = lv | rv if op == "|" else lv ^ rv if op == "^" else lv & rv
            if not res:
                raise Undefined("empty set")
            return ("Set", res)
        raise Undefined("%s on sets" % op)
    if {lk, rk} == {"Set", "Rational"} and op in ("+", "-", "*", "/", "%", "**"):
        the_set = lv if lk == "Set" else rv
        if _element_kind(the_set) != "Rational":
            raise Undefined("element-wise arithmetic on a set of non-numbers")
        return ("Set", frozenset(binary(op, x, r) if lk == "Set" else binary(op, l, x) for x in the_set))
    raise Undefined("%s between %s and %s" % (op, lk, rk))


class NotDecided(Exception):
    """the reference does not say (e.g. fractional exponents): the text is not used"""


def _element_kind(s: Any) -> str:
    return next(iter(s))[0]


def evaluate(tree: Any, names: Dict[str, Value]) -> Value:
    k = tree[0]
    if k == "lit":
        return tree[1]
    if k == "name":
        if tree[1] not in names:
            raise Undefined("unknown identifier %s" % tree[1])
        return names[tree[1]]
    if k == "set":
        items = [evaluate(x, names) for x in tree[1]]
        if not items:
            raise Undefined("empty set")
        if len({i[0] for i in items}) != 1:
            raise Undefined("heterogeneous set")
        return ("Set", frozenset(items))
    if k == "un":
        v = evaluate(tree[2], names)
        if tree[1] == "!":
            if v[0] != "Boolean":
                raise Undefined("! on %s" % v[0])
            return ("Boolean", not v[1])
        if v[0] != "Rational":
            raise Undefined("sign on %s" % v[0])
        return ("Rational", -v[1] if tree[1] == "-" else +v[1])
    if k == "bin":
        l = evaluate(tree[2], names)  # both operands are evaluated (no short circuit: an undefined operand is an error)
        r = evaluate(tree[3], names)
        return binary(tree[1], l, r)
    if k == "attr":
        v = evaluate(tree[1], names)
        if v[0] == "Set" and tree[2] in ("min", "max", "count"):
            if tree[2] == "count":
                return ("Rational", Fraction(len(v[1])))
            if _element_kind(v[1]) != "Rational":
                raise NotDecided("min / max of a set of non-numbers")
            vals = [x[1] for x in v[1]]
            return ("Rational", min(vals) if tree[2] == "min" else max(vals))
        raise Undefined("no attribute %s on %s" % (tree[2], v[0]))
    raise AssertionError(tree)


def value_of(text: str, names: Optional[Dict[str, Value]] = None) -> Value:
    """the value of the expression text; raises Undefined / Malformed / NotDecided"""
    return evaluate(Parser(text).parse(), names or {})


def same(ref: Value, got: Any) -> bool:
    """compare a reference value with a value digest of the front end ((kind, native) with sets as tuples of digests)"""
    if not isinstance(got, (tuple, list)) or len(got) != 2 or got[0] != ref[0]:
        return False
    if ref[0] == "Set":
        try:
            items = list(got[1])
        except TypeError:
            return False
        if len(items) != len(ref[1]):
            return False
        return all(any(same(r, g) for g in items) for r in ref[1])
    if ref[0] == "Rational":
        return not isinstance(got[1], (bool, float)) and isinstance(got[1], (int, Fraction)) and Fraction(got[1]) == ref[1]
    return type(got[1]) is type(ref[1]) and got[1] == ref[1]


def same_printed(ref: Value, printed: Any) -> bool:
    """compare a reference value with the text a @print directive delivers: str() of the value - a string as its Python
    repr, everything else in DSDL notation (a rational as `n` or `n/d`, a set in braces in any order), which this reference
    reads back exactly"""
    if not isinstance(printed, str):
        return False
    if ref[0] == "String":
        return printed == repr(ref[1])
    try:
        got = value_of(printed)
    except (Undefined, Malformed, NotDecided):
        return False
    return got == ref


def show(v: Value) -> str:
    if v[0] == "Set":
        return "{" + ", ".join(sorted(show(x) for x in v[1])) + "}"
    return str(v[1]) if v[0] != "String" else repr(v[1])
