"""
C11, text level (R5): sets of small definitions - conforming and violating, for every clause of the cross-definition rules -
are read end to end by the repository's front end (evaluated from the source): every conforming set is accepted, every
violating set is rejected with an InvalidDefinitionError.  The verdict of a call does not depend on sets read earlier in the
same process (same names under another root directory, conforming first or violating first).
"""
from __future__ import annotations

from typing import Any, Dict, List, Optional, Tuple

from ..core import AnalysisError, Ctx
from .c03text import front_end
from .c04text import is_invalid_definition

M = "uint8 a\n@sealed\n"
M2 = "uint8 a\nuint8 b\n@sealed\n"  # another sealed layout (a different extent)
E64 = "uint8 a\n@extent 64\n"
E64b = "uint8 a\nuint8 b\n@extent 64\n"
E128 = "uint8 a\n@extent 128\n"


def svc(req: str, resp: str) -> str:
    return req + "---\n" + resp


S = svc(M, M)

# (label, files under the root, conforming)
SETS: List[Tuple[str, Dict[str, str], bool]] = [
    # ---- fixed port-IDs
    ("two messages of different names on one subject-ID", {"7000.A.1.0.dsdl": M, "7000.B.1.0.dsdl": M}, False),
    ("two messages of different namespaces on one subject-ID", {"x/7000.A.1.0.dsdl": M, "y/7000.A.1.0.dsdl": M}, False),
    ("two services of different names on one service-ID", {"300.A.1.0.dsdl": S, "300.B.1.0.dsdl": S}, False),
    ("a message and a service with the same number", {"300.A.1.0.dsdl": M, "300.B.1.0.dsdl": S}, True),
    ("one name, two major versions above zero, one subject-ID", {"7000.A.1.0.dsdl": M, "7000.A.2.0.dsdl": M}, False),
    ("one name, major versions 0 and 1, one subject-ID", {"7000.A.0.1.dsdl": M, "7000.A.1.0.dsdl": M}, True),
    ("one name, major versions 0 and 2, one service-ID", {"300.A.0.5.dsdl": S, "300.A.2.0.dsdl": S}, True),
    ("one name, one major version, one subject-ID", {"7000.A.1.0.dsdl": M, "7000.A.1.1.dsdl": M}, True),
    ("different names, different subject-IDs", {"7000.A.1.0.dsdl": M, "7001.B.1.0.dsdl": M}, True),
    ("three messages, the first and the last on one subject-ID", {"7000.A.1.0.dsdl": M, "7001.B.1.0.dsdl": M, "7000.C.1.0.dsdl": M}, False),
    # ---- minor versions: kind
    ("a message and a service as minor versions of one major", {"A.1.0.dsdl": M, "A.1.1.dsdl": S}, False),
    ("a message and a service under different majors", {"A.1.0.dsdl": M, "A.2.0.dsdl": S}, True),
    ("a message and a service as minor versions of major 0", {"A.0.1.dsdl": M, "A.0.2.dsdl": S}, False),
    # ---- minor versions: port-ID
    ("a port-ID added in the newer minor", {"A.1.0.dsdl": M, "7000.A.1.1.dsdl": M}, True),
    ("a port-ID removed in the newer minor", {"7000.A.1.0.dsdl": M, "A.1.1.dsdl": M}, False),
    ("a port-ID changed in the newer minor", {"7000.A.1.0.dsdl": M, "7001.A.1.1.dsdl": M}, False),
    ("a port-ID added in the middle minor and kept", {"A.1.0.dsdl": M, "7000.A.1.1.dsdl": M, "7000.A.1.2.dsdl": M}, True),
    ("a port-ID added in the middle minor and dropped again", {"A.1.0.dsdl": M, "7000.A.1.1.dsdl": M, "A.1.2.dsdl": M}, False),
    ("a port-ID changed between majors", {"7000.A.1.0.dsdl": M, "7001.A.2.0.dsdl": M}, True),
    ("a port-ID removed in the newer minor of major 0", {"7000.A.0.1.dsdl": M, "A.0.2.dsdl": M}, False),
    # ---- minor versions: extent and sealing (major >= 1)
    ("equal extents", {"A.1.0.dsdl": E64, "A.1.1.dsdl": E64b}, True),
    ("different extents", {"A.1.0.dsdl": E64, "A.1.1.dsdl": E128}, False),
    ("sealed and delimited", {"A.1.0.dsdl": M, "A.1.1.dsdl": E64}, False),
    ("both sealed, same layout", {"A.1.0.dsdl": M, "A.1.1.dsdl": M}, True),
    ("both sealed, different length", {"A.1.0.dsdl": M, "A.1.1.dsdl": M2}, False),
    ("different extents under major 0", {"A.0.1.dsdl": E64, "A.0.2.dsdl": E128}, True),
    ("sealed and delimited under major 0", {"A.0.1.dsdl": M, "A.0.2.dsdl": E64}, True),
    ("different extents under different majors", {"A.1.0.dsdl": E64, "A.2.0.dsdl": E128}, True),
    ("different extents in the oldest of three majors", {"A.1.0.dsdl": E64, "A.1.1.dsdl": E128, "A.2.0.dsdl": E64, "A.3.0.dsdl": E64}, False),
    ("different extents in the second of three minors", {"A.1.0.dsdl": E64, "A.1.1.dsdl": E64, "A.1.2.dsdl": E128}, False),
    # ---- services: request and response separately
    ("services, equal parts", {"A.1.0.dsdl": svc(E64, M), "A.1.1.dsdl": svc(E64b, M)}, True),
    ("services, request extents differ", {"A.1.0.dsdl": svc(E64, M), "A.1.1.dsdl": svc(E128, M)}, False),
    ("services, response extents differ", {"A.1.0.dsdl": svc(M, E64), "A.1.1.dsdl": svc(M, E128)}, False),
    ("services, request sealing differs", {"A.1.0.dsdl": svc(M, E64), "A.1.1.dsdl": svc(E64, E64)}, False),
    ("services, response sealing differs", {"A.1.0.dsdl": svc(E64, M), "A.1.1.dsdl": svc(E64, E64)}, False),
    ("services, the request of one like the response of the other", {"A.1.0.dsdl": svc(E64, E128), "A.1.1.dsdl": svc(E128, E64)}, False),
    ("services, response extents differ under major 0", {"A.0.1.dsdl": svc(M, E64), "A.0.2.dsdl": svc(M, E128)}, True),
]


def rule_r5_sets(ctx: Ctx) -> None:
    ctx.rule("C11.R5", "sets of definitions for every clause of the port-ID and minor-version rules (both sides of each), read end to end by the evaluated front end: conforming sets accepted, violating sets rejected with an InvalidDefinitionError - also when a set of the same names was read from another root directory earlier in the same process", min_instances=3)
    fe = front_end(ctx)
    kw = {"allow_unregulated_fixed_port_id": True}

    def job(files: Dict[str, str], root: str, history: Optional[List[Dict[str, Any]]] = None) -> Dict[str, Any]:
        j = dict(files={root + "/" + k: v for k, v in files.items()}, root=root, kwargs=kw)
        if history:
            j["history"] = history
        return j

    plan: List[Tuple[str, bool, Dict[str, Any]]] = [(l, ok, job(f, "/w/ns")) for l, f, ok in SETS]
    # histories: a conforming set of the same names first, then the violating one under another root - and the reverse
    by = {l: (f, ok) for l, f, ok in SETS}
    pairs = [("equal extents", "different extents"), ("both sealed, same layout", "sealed and delimited"), ("services, equal parts", "services, response extents differ"), ("services, equal parts", "services, request sealing differs"), ("a port-ID added in the newer minor", "a port-ID changed in the newer minor"), ("one name, one major version, one subject-ID", "one name, two major versions above zero, one subject-ID")]
    for good, bad in pairs:
        plan.append(("%s, after `%s` under another root" % (bad, good), False, job(by[bad][0], "/b/ns", [job(by[good][0], "/a/ns")])))
        plan.append(("%s, after `%s` under another root" % (good, bad), True, job(by[good][0], "/b/ns", [job(by[bad][0], "/a/ns")])))
    outs = fe.read_many([p[2] for p in plan])
    ctx.count(len(plan))
    accepted = [{"set": l, "files": sorted(j["files"])} for (l, ok, j), o in zip(plan, outs) if not ok and o["raised"] is None]
    rejected = [{"set": l, "raised": "%s at %s" % (o["raised"], o["path"])} for (l, ok, j), o in zip(plan, outs) if ok and o["raised"] is not None]
    wrong = ["%s -> %s" % (l, o["raised"]) for (l, ok, j), o in zip(plan, outs) if not ok and o["raised"] is not None and not is_invalid_definition(ctx, o["raised"])]
    where = "pydsdl/_namespace.py"
    ctx.check(not accepted, "violating sets of definitions", "%d sets" % sum(1 for p in plan if not p[1]), "a set of definitions that violates the port-ID / minor-version rules is accepted: %s" % "; ".join(b["set"] for b in accepted[:4]), where, accepted[:8])
    ctx.check(not rejected, "conforming sets of definitions", "%d sets" % sum(1 for p in plan if p[1]), "a conforming set of definitions is rejected: %s" % "; ".join("%s (%s)" % (b["set"], b["raised"]) for b in rejected[:4]), where, rejected[:8])
    ctx.check(not wrong, "violating sets of definitions", "the rejections are InvalidDefinitionErrors", "; ".join(wrong[:4]), where, wrong[:8])


def run(ctx: Ctx) -> None:
    ctx.attempt(rule_r5_sets, ctx)
