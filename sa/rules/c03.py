"""
C03 -- The model mirrors the source text, independent of formatting.

The parser's visitors and the builder are abstractly evaluated over abstract texts (parser_common: the visits parsimonious
makes, children before parents, line by line) and what reaches the constructors of the type model is compared with the
Specification's reading of the same lines.

R2  every attribute statement yields exactly one model attribute built from the statement's own type, name and value
    (children at the grammar positions) and the comment flushed after it; fields and constants keep their source order.
R3  directive tables (shared with C05.R8): which sequences of directives, attributes and markers are accepted, and with what
    effect - evaluated through parser and builder together.
R4  composite construction: attributes / doc / deprecated flow from the builder into the composite; request/response order.
R5  line endings and blanks as regular languages: end_of_line = \\r?\\n, `_` = blanks and tabs, final end-of-line optional,
    trailing blanks and comments allowed after a statement.
R6  document model: all sequences of line shapes up to a bound (fields with and without trailing comment, constants, paddings,
    comment lines, empty lines, lines of blanks, schema reads, `---`), @sealed first or last, with and without a final newline:
    every attribute exactly once, in order, in its own section, with exactly its comment block; section docs; schema reads
    see exactly the fields above them.
(R1, a typestate machine read off the code, was retired: it depended on the private representation of the pending-commit
slot, the header flag and the list of sections; R6 decides its clauses extensionally.)
"""
from __future__ import annotations

import ast
from typing import Any, Dict, List, Optional, Sequence, Set, Tuple

from .. import rx
from ..core import AnalysisError, ClassInfo, Ctx, FuncInfo, body_without_docstring, calls_in, dotted, kwarg, norm, walk_no_nested
from ..peg import Grammar

STMT_RULES = {
    "constant": "statement_constant",
    "field": "statement_field",
    "padding": "statement_padding_field",
    "marker": "statement_service_response_marker",
    "directive_expr": "statement_directive_with_expression",
    "directive_plain": "statement_directive_without_expression",
}
DIRECTIVES = ["print", "assert", "extent", "sealed", "union", "deprecated"]


def must_contain(g: Grammar, node: Any, target: str, stack: Tuple[str, ...] = ()) -> bool:
    t = node[0]
    if t == "ref":
        if node[1] == target:
            return True
        if node[1] in stack or node[1] not in g.rules:
            return False
        return must_contain(g, g.rules[node[1]], target, stack + (node[1],))
    if t == "seq":
        return any(must_contain(g, x, target, stack) for x in node[1])
    if t == "alt":
        return all(must_contain(g, x, target, stack) for x in node[1])
    if t == "plus":
        return must_contain(g, node[1], target, stack)
    return False


def may_contain(g: Grammar, node: Any, target: str, seen: Optional[Set[str]] = None) -> bool:
    seen = seen if seen is not None else set()
    t = node[0]
    if t == "ref":
        if node[1] == target:
            return True
        if node[1] in seen or node[1] not in g.rules:
            return False
        seen.add(node[1])
        return may_contain(g, g.rules[node[1]], target, seen)
    if t in ("seq", "alt"):
        return any(may_contain(g, x, target, seen) for x in node[1])
    if t in ("opt", "star", "plus", "not", "and"):
        return may_contain(g, node[1], target, seen)
    return False


def rule_r2(ctx: Ctx) -> None:
    repo = ctx.repo
    ctx.rule("C03.R2", "every attribute statement yields exactly one model attribute built from the statement's own type, name and value (children at the grammar positions), with the comment flushed after it; fields and constants keep their source order", min_instances=2)
    b = ctx.cls("_data_type_builder.DataTypeBuilder")
    # the deferred commits build the right attributes from the events' arguments and the comments flushed after them: the
    # builder is driven through its public interface (builder_common) and what reaches the composite is compared
    from ..fold import Sym
    from . import builder_common as B

    T1, T2, V8 = Sym(_kind_="T1", name="T1"), Sym(_kind_="T2", name="T2"), Sym(_kind_="void8", name="void8")
    VAL = Sym(_kind_="value")
    script = [
        ("on_field", (T1, "a")), ("on_attribute_comment", ("doc a",)),
        ("on_constant", (T2, "K", VAL)), ("on_attribute_comment", ("doc K",)),
        ("on_padding_field", (V8,)), ("on_attribute_comment", ("",)),
        ("on_field", (T2, "b")), ("on_attribute_comment", ("doc b",)),
        ("on_directive", (9, "sealed", None)),
    ]
    r = B.run_builder(ctx, script, allow_unregulated=True)
    if r.raised:
        raise AnalysisError("builder over abstract attribute events raised %s at %s" % (r.raised, r.raised_at))
    leaf = [kw for k, kw in r.ctor_log if k in ("StructureType", "UnionType")]
    got = []
    for x in (leaf[0].get("attributes") or []) if leaf else []:
        d = dict(x.__dict__)
        got.append((d.get("_kind_"), getattr(d.get("data_type"), "name", None), d.get("name", ""), d.get("value") is VAL if d.get("_kind_") == "Constant" else None, d.get("doc")))
    want = [("Field", "T1", "a", None, "doc a"), ("PaddingField", "void8", "", None, ""), ("Field", "T2", "b", None, "doc b"), ("Constant", "T2", "K", True, "doc K")]
    ctx.count()
    # fields (with paddings) in source order, constants in source order; how the two interleave is not specified
    split = lambda xs: ([x for x in xs if x[0] != "Constant"], [x for x in xs if x[0] == "Constant"])  # noqa: E731
    ctx.check(split(got) == split(want) and len(got) == len(want), b.short, "deferred commits -> %s" % [g[:3] for g in got], "the committed attribute is built from the statement's own (type, name[, value]) and the flushed comment; fields and constants keep their source order", b.module.relpath, {"found": got, "expected": want})
    # visitor children <-> grammar positions: statements are visited with children laid out as the grammar rule says (document
    # model); the attribute that comes into being must carry the type / name / value object of its own statement
    from .parser_common import Line, ParserModel, read_lines

    pm = ParserModel(ctx)
    lines = [Line("D"), Line("F", "a"), Line("K", "X"), Line("P"), Line("F", "b"), Line("K", "Y")]
    r2 = read_lines(pm, lines, True)
    if r2.raised:
        raise AnalysisError("the parser over an abstract text raised %s" % r2.raised)
    want_ops = [("Field", "a", "type@1", None), ("Constant", "X", "type@2", "value@2"), ("PaddingField", "", "void@3", None), ("Field", "b", "type@4", None), ("Constant", "Y", "type@5", "value@5")]
    ctx.count()
    ctx.check(r2.operands == want_ops, "_parser._ParseTreeProcessor", "statement operands reach the model: %s" % r2.operands, "each attribute is built from the children at the grammar positions of its own statement (type, identifier, expression)", "pydsdl/_parser.py", {"expected": want_ops})


def rule_r4(ctx: Ctx) -> None:
    """what the builder hands to the model's constructors, from the builder driven through its public interface (builder_common)"""
    from . import builder_common as B

    ctx.rule("C03.R4", "the composite receives the builder's attributes and doc and the definition's deprecation flag; a service pairs (request, response) in that order", min_instances=3)
    b = ctx.cls("_data_type_builder.DataTypeBuilder")
    fin = b.methods.get("finalize")
    if fin is None:
        raise AnalysisError("anchor DataTypeBuilder.finalize missing")
    bad_msg, bad_dep, bad_svc, bad_doc = [], [], [], []
    for deprecated in (False, True):
        pre = [("on_directive", (1, "deprecated", None))] if deprecated else []
        # a message
        r = B.run_builder(ctx, [("on_header_comment", ("DOC-A",))] + pre + [("on_directive", (4, "sealed", None))], allow_unregulated=True)
        ctx.count()
        leafs = [kw for k, kw in r.ctor_log if k in ("StructureType", "UnionType")]
        if r.raised or len(leafs) != 1:
            raise AnalysisError("finalize of a message: %s" % (r.raised or "%d composite constructions" % len(leafs)))
        if leafs[0].get("doc") != "DOC-A":
            bad_doc.append({"message doc": leafs[0].get("doc")})
        if leafs[0].get("attributes") != [] or leafs[0].get("deprecated") is not deprecated:
            bad_msg.append({"deprecated directive": deprecated, "passed": {k: leafs[0].get(k) for k in ("attributes", "deprecated")}})
        # a service: header comments of the two sections, kinds chosen differently so that the halves cannot be confused
        script = [("on_header_comment", ("DOC-REQ",))] + pre + [("on_directive", (3, "sealed", None)), ("on_service_response_marker", ()), ("on_header_comment", ("DOC-RSP",)), ("on_directive", (6, "union", None)), ("on_directive", (7, "extent", ("Rational", 64)))]
        r = B.run_builder(ctx, script, allow_unregulated=True)
        ctx.count()
        if r.raised:
            raise AnalysisError("finalize of a service raised %s at %s" % (r.raised, r.raised_at))
        leafs = [(k, kw) for k, kw in r.ctor_log if k in ("StructureType", "UnionType")]
        svc = [kw for k, kw in r.ctor_log if k == "ServiceType"]
        if any(kw.get("deprecated") is not deprecated for _, kw in leafs) or len(leafs) != 2:
            bad_dep.append({"deprecated directive": deprecated, "halves": [(k, kw.get("deprecated")) for k, kw in leafs]})
        ok = len(svc) == 1 and len(leafs) == 2
        if ok:
            rq, rs = svc[0].get("request"), svc[0].get("response")
            inner = lambda x: getattr(x, "inner_type", x)  # noqa: E731
            ok = getattr(inner(rq), "_kind_", None) == "StructureType" and getattr(rq, "_kind_", None) == "StructureType" and getattr(inner(rs), "_kind_", None) == "UnionType" and getattr(rs, "_kind_", None) == "DelimitedType"
            ok = ok and str(getattr(rq, "full_name", "")).endswith(".Request") and str(getattr(rs, "full_name", "")).endswith(".Response")
            if ok and (getattr(inner(rq), "doc", None) != "DOC-REQ" or getattr(inner(rs), "doc", None) != "DOC-RSP"):
                bad_doc.append({"request doc": getattr(inner(rq), "doc", None), "response doc": getattr(inner(rs), "doc", None)})
        if not ok:
            bad_svc.append({"constructed": [(k, kw.get("name")) for k, kw in leafs], "service": {k: getattr(v, "full_name", v) for k, v in (svc[0].items() if svc else [])}})
    mk = b.methods.get("_make_composite") or fin
    ctx.check(not bad_msg and not bad_doc, mk.short, "attributes, doc and deprecation reach the composite", "the model's attributes and header comment are those collected by the schema builder", mk.where(), (bad_msg + bad_doc)[:3])
    ctx.check(not bad_dep, fin.short, "deprecated flag on every composite", "@deprecated marks every part of the definition", fin.where(), bad_dep[:2])
    ctx.check(not bad_svc, fin.short, "ServiceType(request=<first schema>, response=<second schema>)", "the part before `---` is the request, the part after it the response", fin.where(), bad_svc[:2])


def rule_r5(ctx: Ctx, a: Any = None) -> None:
    ctx.rule("C03.R5", "grammar: end_of_line = CR? LF, `_` = blanks/tabs, final end-of-line optional, trailing blanks and comments allowed after a statement, comments run to the end of the line", min_instances=5)
    g = a.g if a is not None else Grammar.load(ctx.repo)
    alpha = list("ab# \t\r\n") + [rx.OTHER]

    def lang_equal(rule: str, pattern: str, what: str) -> None:
        node = g.rule(rule)
        rxp = g.regex_of(node)
        if rxp is None:
            ctx.fail("grammar." + rule, g.show(node), "rule is not a plain terminal", where=g.path)
            return
        try:
            same, only_code, only_spec = rx.equivalent(rx.compile_dfa(rxp, alpha, "fullmatch"), rx.compile_dfa(pattern, alpha, "fullmatch"))
        except rx.RxUnsupported as ex:
            raise AnalysisError("grammar rule %s: %s" % (rule, ex))
        ctx.check(same, "grammar." + rule, g.show(node), what, "%s:%d" % (g.path, g.lines.get(rule, 0)), {"accepted_but_not_specified": only_code, "specified_but_not_accepted": only_spec})

    lang_equal("end_of_line", r"\r?\n", "a line ends with LF or CR LF")
    lang_equal("_", r"[ \t]+", "blank space is any run of spaces and tabs")
    lang_equal("comment", r"#[^\r\n]*", "a comment runs from `#` to the end of the line")
    d = g.rule("definition")
    good = d == ("seq", [("ref", "line"), ("star", ("seq", [("ref", "end_of_line"), ("ref", "line")]))])
    ctx.check(good, "grammar.definition", g.show(d), "a definition is lines separated by end_of_line: the final end-of-line is optional and an empty file is valid", "%s:%d" % (g.path, g.lines.get("definition", 0)))
    ln = g.rule("line")
    good = ln == ("seq", [("opt", ("ref", "statement")), ("opt", ("ref", "_")), ("opt", ("ref", "comment"))])
    ctx.check(good, "grammar.line", g.show(ln), "a line is an optional statement, optional trailing blanks and an optional comment", "%s:%d" % (g.path, g.lines.get("line", 0)))
    # blanks between the tokens of attribute statements
    for rule, must in (("statement_constant", ["type", "_", "identifier", "_?", '"="', "_?", "expression"]), ("statement_field", ["type", "_", "identifier"])):
        node = g.rule(rule)
        seq = node[1] if node[0] == "seq" else [node]
        shown = [g.show(x) for x in seq]
        ctx.check(shown == must, "grammar." + rule, " ".join(shown), "blanks are required between type and name and optional around `=`", "%s:%d" % (g.path, g.lines.get(rule, 0)), nontrivial=False)


# ----------------------------------------------------------------------------------------------------------------------
def _doc_text(c: str) -> str:
    return c[1:] if c.startswith(" ") else c


def _expected_document(lines: List[Any]) -> Tuple[List[Tuple[str, str, str]], List[str]]:
    """the Specification's reading of an abstract text: [(kind, name, documentation)] in source order and the header
    documentation of each section.  A comment block documents the attribute it directly follows (same line or the lines
    right below it) and ends at the first line that is empty, blank, or carries a statement; the comment block at the very top
    of a section documents the section; any other comment documents nothing."""
    attrs: List[Tuple[str, str, str]] = []
    headers: List[str] = []
    kinds = {"F": "Field", "K": "Constant", "P": "PaddingField"}
    i = 0
    n = len(lines)
    section_start = True
    head: List[str] = []
    while i <= n:
        ln = lines[i] if i < n else None
        if section_start:
            # header: the run of comment-only lines at the top of the section (after `---`: starting on the marker's line)
            j = i
            while j < n and lines[j].kind == "C":
                head.append(_doc_text(lines[j].comment))
                j += 1
            headers.append("\n".join(head))
            head = []
            section_start = False
            i = j
            continue
        if ln is None:
            break
        if ln.kind in kinds:
            doc = [_doc_text(ln.comment)] if ln.comment is not None else []
            j = i + 1
            while j < n and lines[j].kind == "C":
                doc.append(_doc_text(lines[j].comment))
                j += 1
            attrs.append((kinds[ln.kind], ln.name if ln.kind != "P" else "", "\n".join(doc)))
            i = j
            continue
        if ln.kind == "M":
            section_start = True
            if ln.comment is not None:
                head.append(_doc_text(ln.comment))
            i += 1
            continue
        i += 1  # empty / blank / directive / stray comment lines
    return attrs, headers


def rule_r6(ctx: Ctx) -> None:
    """the parser and the builder evaluated over abstract texts: which attribute ends up where, with which documentation"""
    from itertools import product

    from .parser_common import Line, ParserModel, read_lines, text_of

    ctx.rule("C03.R6", "every attribute statement appears exactly once, in source order, in its own section, with the comment block attached to it; the section headers get the top comment block; empty lines, blank lines, extra comments and the presence of a final newline do not change the model (abstract texts: all sequences of line shapes up to a bound, messages and services)", min_instances=2)
    pm = ParserModel(ctx)
    alphabet = ["F", "Ft", "K", "P", "C", "B", "W", "O"]

    def mk(seq: Any, prefix: str) -> List[Any]:
        out = []
        for i, k in enumerate(seq):
            nm = "%s%d" % (prefix, i)
            if k == "Ft":
                out.append(Line("F", nm, comment=" t%d" % i))
            elif k == "C":
                out.append(Line("C", comment=" c%d" % i if i % 2 else "c%d" % i))
            else:
                out.append(Line(k, nm))
        return out

    bound = 3 if ctx.tier == "thorough" else 2
    bodies = [list(s) for L in range(0, bound + 1) for s in product(alphabet, repeat=L)]
    extra = [["F", "C", "C", "B", "C", "K"], ["C", "C", "B", "C", "F"], ["Ft", "C", "W", "C", "F"], ["C", "W", "C", "F", "C"], ["F", "B", "B", "C", "P", "C"], ["K", "C", "P", "Ft", "C", "C"], ["W", "C", "F"], ["F", "C", "B"], ["F", "C", "W"]]
    scripts: List[Tuple[str, List[Any]]] = []
    for body in bodies + extra:
        for sealed_first in (True, False):
            ls = mk(body, "a")
            scripts.append(("message", ([Line("D")] + ls) if sealed_first else (ls + [Line("D")])))
    svc_bodies = [list(s) for L in range(0, bound + 1) for s in product(["F", "Ft", "K", "C", "B"], repeat=L)]
    for body in svc_bodies:
        for sealed_first in (True, False):
            rq = mk(body, "q")
            rq = ([Line("D")] + rq) if sealed_first else (rq + [Line("D")])
            for marker in (Line("M"), Line("M", comment=" rh")) if len(body) <= 1 or ctx.tier == "thorough" else (Line("M"),):
                scripts.append(("service", rq + [marker] + [Line("C", comment=" rh2"), Line("F", "r0"), Line("C", comment=" dr"), Line("D")]))
                if sealed_first:
                    scripts.append(("service", [Line("D"), Line("F", "x"), Line("C", comment=" dx")] + [marker] + mk(body, "r") + [Line("D")]))
    bad_model: List[Dict[str, Any]] = []
    bad_format: List[Dict[str, Any]] = []
    n_runs = 0
    for kind, lines in scripts:
        want_attrs, want_headers = _expected_document(lines)
        for final_eol in (False, True) if kind == "message" or ctx.tier == "thorough" else (len(lines) % 2 == 0,):
            r = read_lines(pm, lines, final_eol)
            n_runs += 1
            ctx.count()
            sections = [c for c in r.composites if c[0] in ("StructureType", "UnionType")]
            got_headers = [c[2] for c in sections]
            # a directive whose expression reads the schema sees exactly the fields above it in its section (8 bits each)
            want_offsets, got_offsets = [], []
            for idx, v in r.offsets:
                above = 0
                for l2 in lines[:idx][::-1]:
                    if l2.kind == "M":
                        break
                    above += 1 if l2.kind in ("F", "P") else 0
                want_offsets.append((idx, frozenset([8 * above])))
                t = v
                for _ in range(6):
                    if getattr(t, "_kind_", None) in ("Set", "Rational") and getattr(t, "payload", None):
                        t = t.payload[0]
                    elif isinstance(t, (tuple, list)) and len(t) == 1:
                        t = t[0]
                    elif isinstance(t, tuple) and len(t) == 2 and t[0] == "ELEMENTS-OF":
                        t = t[1]
                got_offsets.append((idx, t[1] if isinstance(t, tuple) and len(t) == 2 and t[0] == "leaf" else repr(v)[:80]))
            # which section each attribute ends up in: fields (with paddings) in source order, constants in source order
            want_sections: List[Tuple[List[str], List[str]]] = [([], [])]
            for l2 in lines:
                if l2.kind == "M":
                    want_sections.append(([], []))
                elif l2.kind in ("F", "P"):
                    want_sections[-1][0].append(l2.name if l2.kind == "F" else "")
                elif l2.kind == "K":
                    want_sections[-1][1].append(l2.name)
            consts = {l2.name for l2 in lines if l2.kind == "K"}
            got_sections = [([n_ for n_ in c[1] if n_ not in consts], [n_ for n_ in c[1] if n_ in consts]) for c in sections]
            if r.raised or r.attrs != want_attrs or got_headers != want_headers or got_offsets != want_offsets or got_sections != want_sections:
                d = {"text": text_of(lines, final_eol), "found": {"attributes": r.attrs, "section docs": got_headers, "raised": r.raised, "_offset_ read at line": got_offsets, "sections (fields, constants)": got_sections}, "expected": {"attributes": want_attrs, "section docs": want_headers, "_offset_ read at line": want_offsets, "sections (fields, constants)": want_sections}}
                # a text that differs from an accepted one only in blanks on an otherwise empty line is a formatting matter
                (bad_format if any(l.kind == "W" for l in lines) and not r.raised else bad_model).append(d)
    fn = ctx.func("_parser._ParseTreeProcessor.visit_line")
    ctx.check(not bad_model, "_parser._ParseTreeProcessor x _data_type_builder.DataTypeBuilder", "%d abstract texts x 2 endings" % len(scripts), "each attribute once, in order, in its section, with its own comment block; section docs from the top comment block", "pydsdl/_parser.py", bad_model[:3])
    ctx.check(not bad_format, fn.short, "a line of blanks reads like an empty line", "blanks on an otherwise empty line are formatting: the model must not change", fn.where(), bad_format[:3])
    ctx.analysed["C03.R6.runs"] = n_runs


def rule_r8_text(ctx: Ctx) -> None:
    """how the text of a definition gets from the file to the parser: the accessor is evaluated over an abstract file whose
    content has CRLF, CR and LF line ends; what comes out must be the same text with every line end a single LF (Python's
    universal newlines: `open(path)` in text mode, `Path.read_text()`) - otherwise a raw line break inside a string literal,
    and every line count, differs between a CRLF and an LF copy of the same definition"""
    from ..absint import Raised
    from ..core import dotted
    from ..fold import Abstract, Folder, Unfoldable
    from . import reader_common as R

    ctx.rule("C03.R8", "the text handed to the parser is the file's content with line ends translated to LF (text mode / universal newlines): LF and CRLF copies of a definition are the same text", min_instances=1)
    dd = ctx.cls("_dsdl_definition.DSDLDefinition")
    own = R.own_definition(ctx, "ns.sub.T", 1, 2)
    raw = "uint8 a\r\n# c\r@assert 'x\r\ny' == 'x\ny'\n@sealed\r\n"
    opened: List[str] = []

    def translate(text: str) -> str:
        return text.replace("\r\n", "\n").replace("\r", "\n")

    class TextFile(Abstract):
        def __init__(self, translated: bool, binary: bool):
            self.translated, self.binary = translated, binary

        def read(self, *a: Any) -> Any:
            if self.binary:
                return raw.encode("utf8")
            return translate(raw) if self.translated else raw

        def __enter__(self) -> "TextFile":
            return self

        def __exit__(self, *a: Any) -> None:
            return None

        def close(self) -> None:
            return None

    base = R._hook(ctx, dd.module, [])

    def hook(e: ast.expr, f: Any) -> Any:
        if isinstance(e, ast.Call):
            name = dotted(e.func) or ""
            last = name.split(".")[-1]
            kw = {k.arg: f.fold(k.value) for k in e.keywords if k.arg}
            if name in ("open", "io.open") or (isinstance(e.func, ast.Attribute) and last == "open" and name.split(".")[0] in f.env):
                pos = [f.fold(a) for a in e.args]
                mode = kw.get("mode", pos[1] if name in ("open", "io.open") and len(pos) > 1 else (pos[0] if name not in ("open", "io.open") and pos else "r"))
                newline = kw.get("newline", None)
                opened.append("%s(mode=%r, newline=%r)" % (last, mode, newline))
                return TextFile(translated=("b" not in str(mode)) and newline is None, binary="b" in str(mode))
            if isinstance(e.func, ast.Attribute) and last == "read_text":
                opened.append("read_text()")
                return translate(raw) if kw.get("newline", None) is None else raw
            if isinstance(e.func, ast.Attribute) and last == "read_bytes":
                opened.append("read_bytes()")
                return raw.encode("utf8")
        return base(e, f)

    try:
        got = Folder({"d": own}, ctx.repo, dd.module, None, hook).fold(ast.parse("d.text", mode="eval").body)
    except Raised as r:
        raise AnalysisError("DSDLDefinition.text raised %s over an abstract file" % r.cls_name)
    except Unfoldable as ex:
        raise AnalysisError("DSDLDefinition.text: cannot evaluate over an abstract file: %s" % ex)
    ctx.count()
    fn = ctx.repo.lookup_method(dd, "text")
    ctx.check(isinstance(got, str) and got == translate(raw) and bool(opened), (fn.short if fn else dd.short + ".text"), "file read by %s; text handed on: %r" % (", ".join(opened) or "?", got if isinstance(got, str) else repr(got)[:60]), "LF vs CRLF is formatting: the model must not change (line ends inside string literals included)", fn.where() if fn else dd.module.relpath)


def run(ctx: Ctx) -> None:
    ctx.attempt(rule_r8_text, ctx)
    # (the typestate machine that first decided R1 read the roles of private fields off the code and was not robust against
    # a different private representation; R6 decides the same clauses extensionally and R1 is now the part of it that concerns
    # loss / duplication / misplacement)
    ctx.attempt(rule_r2, ctx)
    from . import c05b

    ctx.rule("C03.R3", "directive table: each Specification directive reaches a handler with the specified effect (decision tables shared with C05.R8)", min_instances=9)
    ctx.attempt(c05b.rule_r8_directives, ctx, "C03.R3")
    ctx.attempt(rule_r4, ctx)
    ctx.attempt(rule_r6, ctx)
    ctx.attempt(rule_r5, ctx, None)
    from . import c08

    ctx.rule("C03.R7", "values referred to from expressions are those of the text read so far *in the current section*: `_offset_` and constants by name, asked of one builder at every point of a growing two-section (service) definition (shared with C08.R3)", min_instances=1)
    ctx.attempt(c08.rule_identifiers, ctx, "C03.R7")
    from . import c03text

    c03text.run(ctx)
    ctx.assume("parsimonious visits children before their parent, left to right (NodeVisitor.visit as written in nodes.py)")
    ctx.undecided("mirror, formatting invariance and the canonical round trip beyond the generated corpus of texts (C03.R9-R11 are bounded)")
