"""
Shared by C09 / C10 / C19: the reading pipeline evaluated abstractly over a small *abstract world* of definition files.

  ADef          an abstract ReadableDSDLFile: path-derived metadata as plain attributes; `read(...)` and `text` are models of
                the interface that *record* that they were used (and, for read, play the protocol: dependencies are reported
                to the visitors and read with the same arguments, the result is cached)
  run_reader    _namespace_reader.read_definitions evaluated from its source over such a world
  resolve       DataTypeBuilder.resolve_versioned_data_type evaluated from its source over abstract lookup definitions
  read_own      DSDLDefinition.read evaluated from its source on an abstract instance built by the class's own constructor

What the rules then compare are *observations* (who was read, with which arguments; what was returned; which error), so
extracted helpers, renamed locals, loops vs comprehensions and the like do not matter.
"""
from __future__ import annotations

import ast
from typing import Any, Dict, List, Optional, Sequence, Tuple

from ..absint import APath, AObj, Raised, call_fn, construct, ctor_hook, module_call_hook, path_hook
from ..core import AnalysisError, ClassInfo, Ctx, dotted
from ..fold import Abstract, Folder, Sym, Unfoldable
from .c05 import enum_hook
from .c11 import _version


class World:
    def __init__(self) -> None:
        self.log: List[Tuple[Any, ...]] = []
        self.defs: List["ADef"] = []

    def reads(self) -> List[str]:
        return [e[1].label for e in self.log if e[0] == "read"]

    def texts(self) -> List[str]:
        return [e[1].label for e in self.log if e[0] == "text"]


class ADef(Abstract):
    _isa_ = frozenset({"ReadableDSDLFile", "DSDLFile", "ABC"})

    def __init__(self, world: World, full_name: str, major: int, minor: int, root: str = "/w", deps: Sequence["ADef"] = (), fixed_port_id: Optional[int] = None, fail: Optional[str] = None):
        comps = full_name.split(".")
        d = self.__dict__
        d["world"] = world
        d["label"] = "%s.%d.%d@%s" % (full_name, major, minor, root)
        d["full_name"] = full_name
        d["version"] = _version(major, minor)
        d["name_components"] = comps
        d["short_name"] = comps[-1]
        d["full_namespace"] = ".".join(comps[:-1])
        d["root_namespace"] = comps[0]
        d["fixed_port_id"] = fixed_port_id
        d["has_fixed_port_id"] = fixed_port_id is not None
        d["file_path"] = APath("%s/%s.%d.%d.dsdl" % (root, "/".join(comps), major, minor))
        d["root_namespace_path"] = APath("%s/%s" % (root, comps[0]))
        d["deps"] = list(deps)
        d["composite_type"] = None
        d["fail"] = fail
        d["prints"] = False
        world.defs.append(self)

    # ---- the modelled interface
    def read(self, lookup_definitions: Any, definition_visitors: Any, print_output_handler: Any, allow_unregulated_fixed_port_id: Any, **kw: Any) -> Any:
        self.world.log.append(("read", self, lookup_definitions, definition_visitors, print_output_handler, allow_unregulated_fixed_port_id, kw))
        if not self.world.__dict__.get("in_model"):
            # a read requested by the evaluated code (not by this model on behalf of a definition's dependencies)
            self.world.__dict__.setdefault("external_reads", []).append((self, print_output_handler))
        if self.composite_type is not None:
            return self.composite_type
        if self.fail:
            r = Raised(self.fail, ast.Constant(value=None))
            from ..absint import AExc

            r.exc = AExc(self.fail)  # type: ignore  # an error without location, as the type model raises them
            self.__dict__["raised_exc"] = r.exc  # type: ignore
            raise r
        if self.__dict__.get("prints") and print_output_handler is not None:
            # an evaluated `@print` on line 7 of this file: delivered through the (line, text) handler read() was given
            from ..fold import _CURRENT, call_value

            call_value(_CURRENT[-1], print_output_handler, [7, "printed by " + self.label])
        for dep in self.deps:
            # what the builder does when a reference is resolved: it reads the dependency and tells the visitors
            was = self.world.__dict__.get("in_model")
            self.world.__dict__["in_model"] = True
            try:
                dep.read(lookup_definitions, definition_visitors, print_output_handler, allow_unregulated_fixed_port_id, **kw)
            finally:
                self.world.__dict__["in_model"] = was
            for v in definition_visitors:
                v.on_definition(self, dep)
        t = Sym(_kind_="StructureType", _isa_=frozenset({"CompositeType", "StructureType", "SerializableType"}), full_name=self.full_name, version=self.version, label=self.label, source_file_path=self.file_path, fixed_port_id=self.fixed_port_id, has_fixed_port_id=self.fixed_port_id is not None, source_file_path_to_root=self.root_namespace_path, root_namespace=self.root_namespace, short_name=self.short_name, full_namespace=self.full_namespace, name_components=list(self.name_components))
        self.__dict__["composite_type"] = t
        return t

    @property
    def text(self) -> str:
        self.world.log.append(("text", self))
        return "TEXT-OF-" + self.label

    def __getattr__(self, name: str) -> Any:
        if name.startswith("__"):
            raise AttributeError(name)
        self.__dict__["world"].log.append(("other", self, name))
        raise Unfoldable("a definition object is asked for `%s`" % name)

    def __repr__(self) -> str:
        return "<%s>" % self.label


def _sort_key(d: Any) -> Any:
    if type(d).__name__ == "AObj":
        # a definition object built by its own constructor: its properties are evaluated from the source
        from ..absint import aobj_member
        from ..fold import _CURRENT

        f = _CURRENT[-1] if _CURRENT else Folder({}, d._ctx_.repo, d._cls_.module, d._cls_, None)
        name, v = aobj_member(f, d, "full_name"), aobj_member(f, d, "version")
        return (name, -v[0], -v[1])
    return (d.full_name, -d.version.major, -d.version.minor)


def _hook(ctx: Ctx, mod: Any, log: List[Any], record: Sequence[str] = (), results: Optional[Dict[str, Any]] = None) -> Any:
    res = {"dsdl_file_sort": lambda xs: sorted(xs, key=_sort_key), "file_sort": lambda xs: sorted(xs, key=_sort_key)}
    res.update(results or {})
    return path_hook(ctor_hook(ctx, module_call_hook(ctx, mod, [], log, results=res, record=list(record) + ["dsdl_file_sort", "file_sort"], base_hook=enum_hook(ctx, mod, None))))


def run_reader(ctx: Ctx, targets: List[ADef], lookups: List[ADef], handler: Any = None) -> Dict[str, Any]:
    """read_definitions(targets, lookups, handler, True) evaluated over the abstract world"""
    fn = ctx.func("_namespace_reader.read_definitions")
    log: List[Any] = []
    out: Dict[str, Any] = {"raised": None, "result": None}
    try:
        out["result"] = call_fn(ctx, fn, [list(targets), list(lookups), handler, True], hook=_hook(ctx, fn.module, log), keep=tuple(fn.module.functions))
    except Raised as r:
        out["raised"] = r.cls_name
        out["exc"] = getattr(r, "exc", None)
    except Unfoldable as ex:
        raise AnalysisError("read_definitions: cannot evaluate over the abstract world: %s" % ex)
    return out


def names_of(types: Any) -> List[str]:
    return sorted(getattr(t, "label", repr(t)) for t in (types or []))


# ----------------------------------------------------------------------------------------------------------------------
def resolve_sequence(ctx: Ctx, referrer: ADef, lookups: List[ADef], refs: List[Tuple[str, int, int]]) -> List[Any]:
    """several references resolved one after the other by the *same* builder: the label read / the error class for each"""
    cls = ctx.cls("_data_type_builder.DataTypeBuilder")
    hook = _hook(ctx, cls.module, [])
    try:
        b = construct(ctx, cls, referrer, list(lookups), [], Sym(_kind_="print-handler"), True, hook=hook)
    except (Raised, Unfoldable) as ex:
        raise AnalysisError("cannot evaluate the constructor of DataTypeBuilder: %s" % ex)
    out: List[Any] = []
    for name, major, minor in refs:
        try:
            r = Folder({"b": b, "n": name, "v": _version(major, minor)}, ctx.repo, cls.module, cls, hook).fold(ast.parse("b.resolve_versioned_data_type(n, v)", mode="eval").body)
            out.append(getattr(r, "label", r))
        except Raised as ex:
            out.append(ex.cls_name)
        except Unfoldable as ex:
            raise AnalysisError("resolve_versioned_data_type: cannot evaluate over the abstract world: %s" % ex)
    return out


def resolve(ctx: Ctx, referrer: ADef, lookups: List[ADef], name: str, major: int, minor: int, visitors: Optional[List[Any]] = None, allow_unregulated: bool = True) -> Dict[str, Any]:
    """DataTypeBuilder(referrer, lookups, ...).resolve_versioned_data_type(name, Version(major, minor)) evaluated abstractly"""
    cls = ctx.cls("_data_type_builder.DataTypeBuilder")
    log: List[Any] = []
    hook = _hook(ctx, cls.module, log)
    out: Dict[str, Any] = {"raised": None, "result": None}
    handler = Sym(_kind_="print-handler")
    vis = visitors if visitors is not None else []
    try:
        b = construct(ctx, cls, referrer, list(lookups), vis, handler, allow_unregulated, hook=hook)
        out["builder"] = b
        out["handler"] = handler
        out["result"] = Folder({"b": b, "n": name, "v": _version(major, minor)}, ctx.repo, cls.module, cls, hook).fold(ast.parse("b.resolve_versioned_data_type(n, v)", mode="eval").body)
    except Raised as r:
        out["raised"] = r.cls_name
    except Unfoldable as ex:
        raise AnalysisError("resolve_versioned_data_type: cannot evaluate over the abstract world: %s" % ex)
    return out


class VisitorLog(Abstract):
    def __init__(self) -> None:
        self.calls: List[Tuple[Any, Any]] = []

    def on_definition(self, a: Any, b: Any) -> None:
        self.calls.append((a, b))


CONTENT_ACCESS: List[str] = []  # file contents touched while constructing definition objects (must stay empty)


def own_definition(ctx: Ctx, full_name: str, major: int, minor: int, root: str = "/w") -> Any:
    """an abstract DSDLDefinition built by the class's own constructor from a syntactic path"""
    cls = ctx.cls("_dsdl_definition.DSDLDefinition")
    comps = full_name.split(".")
    base = _hook(ctx, cls.module, [])

    def hook(e: ast.expr, f: Folder) -> Any:
        if isinstance(e, ast.Call):
            name = dotted(e.func) or ""
            if name == "open" or name.split(".")[-1] in ("read_text", "read_bytes") or (name.split(".")[-1] == "parse" and name.split(".")[0] not in f.env):
                CONTENT_ACCESS.append("%s during the construction of %s" % (name, full_name))
                return Sym(read=lambda: "TEXT", __enter__=lambda: None, close=lambda: None)
        return base(e, f)

    try:
        return construct(ctx, cls, APath("%s/%s.%d.%d.dsdl" % (root, "/".join(comps), major, minor)), APath("%s/%s" % (root, comps[0])), hook=hook)
    except (Raised, Unfoldable) as ex:
        raise AnalysisError("cannot evaluate DSDLDefinition(...) over a syntactic path: %s" % ex)


def read_own(ctx: Ctx, d: Any, lookups: List[Any], times: int = 1, parse_fails: int = 0, fail_stage: Optional[str] = None, fail_cls: str = "InvalidDefinitionError") -> Dict[str, Any]:
    """d.read(lookups, visitors, handler, True) evaluated from DSDLDefinition.read's source; the builder's construction, the
    parser call and finalize() are recorded, the file is an abstract file"""
    cls = d._cls_
    out: Dict[str, Any] = {"raised": None, "results": [], "builders": [], "parses": [], "opens": 0, "finalizes": 0, "order": []}
    FINAL = Sym(_kind_="StructureType", _isa_=frozenset({"CompositeType", "StructureType", "SerializableType"}), label="THE-TYPE")

    class ABuilder(Abstract):
        def __init__(self, kw: Dict[str, Any]):
            self.kw = kw

        def finalize(self) -> Any:
            out["finalizes"] += 1
            out["order"].append("finalize")
            if fail_stage == "finalize":
                raise Raised(fail_cls, ast.Constant(value=None))  # a fault found only when the type is assembled
            return FINAL

    class AFile(Abstract):
        def read(self) -> str:
            return "FILE-TEXT"

        def __enter__(self) -> "AFile":
            return self

        def __exit__(self, *a: Any) -> None:
            return None

        def close(self) -> None:
            return None  # (closing by hand in a `finally` instead of a `with` block)

    base = _hook(ctx, cls.module, [])

    def hook(e: ast.expr, f: Folder) -> Any:
        if isinstance(e, ast.Call):
            name = dotted(e.func) or ""
            last = name.split(".")[-1]
            if last == "DataTypeBuilder":
                k = ctx.cls("_data_type_builder.DataTypeBuilder")
                init = k.methods["__init__"]
                ps = init.params[1:]
                kw = dict(zip(ps, [f.fold(a) for a in e.args]))
                kw.update({x.arg: f.fold(x.value) for x in e.keywords if x.arg})
                b = ABuilder(kw)
                out["builders"].append(b)
                out["order"].append("builder")
                if fail_stage == "builder":
                    raise Raised(fail_cls, e)
                return b
            if last == "parse" and name.split(".")[0] not in f.env:
                out["parses"].append(([f.fold(a) for a in e.args], {x.arg: f.fold(x.value) for x in e.keywords if x.arg}))
                out["order"].append("parse")
                if len(out["parses"]) <= parse_fails:
                    raise Raised("DSDLSyntaxError", e)  # the definition's text is bad
                if fail_stage == "parse":
                    raise Raised(fail_cls, e)
                return None
            if name == "open":
                out["opens"] += 1
                return AFile()
            if name.startswith("time."):
                return 0.0  # the clock only feeds log messages
        return base(e, f)

    vis = VisitorLog()
    handler = Sym(_kind_="print-handler")
    out["visitor"], out["handler"], out["final"] = vis, handler, FINAL
    for _ in range(times):
        try:
            r = Folder({"d": d, "lk": list(lookups), "vs": [vis], "h": handler}, ctx.repo, cls.module, cls, hook).fold(ast.parse("d.read(lk, vs, h, True)", mode="eval").body)
            out["results"].append(r)
        except Raised as ex:
            out["raised"] = ex.cls_name
            out["exc"] = getattr(ex, "exc", None)
            out["results"].append("raise " + ex.cls_name)
            if not parse_fails:
                break
        except RecursionError:
            raise AnalysisError("DSDLDefinition.read: evaluation does not terminate")
        except Unfoldable as ex:
            raise AnalysisError("DSDLDefinition.read: cannot evaluate over the abstract world: %s" % ex)
    return out


# ----------------------------------------------------------------------------------------------------------------------
# entry points end to end: read_namespace / read_files evaluated from the source over an abstract file system, with the only
# thing stubbed being the reading of one file (DSDLDefinition.read - which opens, parses and builds): the stub records which
# file it was asked to read, resolves the file's declared references against the lookup list *it was given* (by name and
# version), reads those in turn and reports them to the visitors - the documented protocol of ReadableDSDLFile.read.
class EntryRun:
    def __init__(self) -> None:
        self.reads: List[str] = []  # file paths, in order, every call of read() that had to build
        self.raised: Optional[str] = None
        self.result: Any = None
        self.lookup_lists: List[List[str]] = []
        self.identities: List[Dict[str, Any]] = []  # of every definition read: what its file path was taken to mean


def run_entry(ctx: Ctx, entry: str, args: List[Any], files: Dict[str, List[Tuple[str, int, int]]], kwargs: Optional[Dict[str, Any]] = None, broken: Sequence[str] = (), cwd: Optional[str] = None) -> EntryRun:
    """files: path -> references [(full name, major, minor)] of the definition in that file; `broken`: paths whose read fails
    (a definition that violates some rule)"""
    from ..absint import AObj, call_fn
    from ..core import dotted as _dotted
    from .c11 import _definition
    from .c15 import _prop

    fn = ctx.func("_namespace." + entry)
    dcls = ctx.cls("_dsdl_definition.DSDLDefinition")
    cached_attr = None
    ct = ctx.repo.lookup_method(dcls, "composite_type")
    if ct is not None:
        for n in ast.walk(ct.node):
            if isinstance(n, ast.Return) and isinstance(n.value, ast.Attribute) and isinstance(n.value.value, ast.Name) and n.value.value.id == "self":
                cached_attr = n.value.attr
    if cached_attr is None:
        raise AnalysisError("DSDLDefinition.composite_type is not a plain accessor of a field: the per-file read cannot be stubbed")
    run = EntryRun()
    saved = list(APath.FS)
    saved_cwd, saved_strict = APath.CWD, APath.STRICT
    APath.FS = list(files)
    if cwd is not None:
        APath.CWD, APath.STRICT = cwd, True
    base = _hook(ctx, fn.module, [], record=[])

    def path_of(d: Any) -> str:
        return str(_prop(ctx, d, "file_path"))

    def stub_read(d: Any, lookups: Any, visitors: Any, handler: Any, *rest: Any) -> Any:
        have = d.__dict__.get(cached_attr)
        if have is not None:
            return have
        p = path_of(d)
        run.reads.append(p)
        ident = {"file": p}
        for a_ in ("full_name", "version", "fixed_port_id", "root_namespace", "root_namespace_path"):
            try:
                x_ = _prop(ctx, d, a_)
                ident[a_] = tuple(x_) if a_ == "version" else (str(x_) if a_.endswith("path") else x_)
            except AnalysisError:
                ident[a_] = "?"
        run.identities.append(ident)
        lk = list(lookups)
        run.lookup_lists.append(sorted(path_of(x) for x in lk))
        if p in broken:
            raise Raised("InvalidDefinitionError", ast.parse("read()").body[0])
        v = _prop(ctx, d, "version")
        for name, ma, mi in files.get(p, []):
            found = [x for x in lk if _prop(ctx, x, "full_name") == name and tuple(_prop(ctx, x, "version")) == (ma, mi) and x is not d]
            if len(found) != 1:
                raise Raised("UndefinedDataTypeError" if not found else "DataTypeCollisionError", ast.parse("read()").body[0])
            stub_read(found[0], [x for x in lk if x is not d], visitors, handler, *rest)
            for vis in list(visitors):
                vis.on_definition(d, found[0])
        t = _definition(ctx, _prop(ctx, d, "full_name"), v[0], v[1], False, _prop(ctx, d, "fixed_port_id"))
        t.source_file_path = p
        d.__dict__[cached_attr] = t
        return t

    def hook(e: ast.expr, f: Folder) -> Any:
        if isinstance(e, ast.Call) and isinstance(e.func, ast.Attribute) and e.func.attr == "read" and (_dotted(e.func.value) or "?").split(".")[0] in f.env:
            recv = f.fold(e.func.value)
            if isinstance(recv, AObj) and recv._cls_ is dcls:
                a = [f.fold(x) for x in e.args]
                kw = {k.arg: f.fold(k.value) for k in e.keywords if k.arg}
                names = ["lookup_definitions", "definition_visitors", "print_output_handler", "allow_unregulated_fixed_port_id"]
                for nm in names[len(a):]:
                    if nm in kw:
                        a.append(kw[nm])
                return stub_read(recv, *a)
        return base(e, f)

    try:
        run.result = call_fn(ctx, fn, args, kwargs or {}, hook=hook, keep=tuple(fn.module.functions))
    except Raised as r:
        run.raised = r.cls_name
    except Unfoldable as ex:
        raise AnalysisError("%s: cannot evaluate over the abstract file system: %s" % (fn.short, ex))
    finally:
        APath.FS = saved
        APath.CWD, APath.STRICT = saved_cwd, saved_strict
    return run
