"""
Shared by C07 / C14: the bit reader abstractly evaluated *through its public interface* (constructor, read_bits, align_to,
bounded_subreader, remaining_bits, bit_offset) over a complete grid of position classes and compared with the reference
semantics of a windowed LSB-first bit stream:

    bit k of the stream is bit (k mod 8) of byte (k div 8); bits at or beyond the end of the data or of the reader's window
    read as zero; a read of n bits always advances the position by n; align_to(a) moves forward to the next multiple of a
    (a <= 0: no-op); bounded_subreader(n) yields a reader whose window is the next n bits and advances the parent by n;
    remaining_bits is the distance to the end of the window (of the data for an unbounded reader), never negative.

What the reader does depends on the position only through (position mod 8), where a read ends relative to the window / the
data, and the size of the request relative to 8; the grid covers every combination of those classes on buffers of 0 - 3
bytes, with all-ones data (a bit that leaks from outside a window shows up as a one) and a patterned buffer (bit order).
How the class represents its window (relative limit, absolute end, ...) and how read_bits is organised is immaterial.
"""
from __future__ import annotations

import ast
from typing import Any, Dict, List, Optional, Tuple

from ..absint import Raised, construct
from ..core import AnalysisError, Ctx
from ..fold import Folder, Unfoldable

READER = "_serdes._BitReader"


class Ref:
    def __init__(self, data: bytes, pos: int = 0, end: Optional[int] = None):
        self.data, self.pos, self.end = data, pos, end

    def _limit(self) -> int:
        n = 8 * len(self.data)
        return n if self.end is None else min(n, self.end)

    def read(self, n: int) -> int:
        v = 0
        lim = self._limit()
        for i in range(n):
            k = self.pos + i
            if k < lim:
                v |= ((self.data[k // 8] >> (k % 8)) & 1) << i
        self.pos += n
        return v

    def remaining(self) -> int:
        return max(0, (self.end if self.end is not None else 8 * len(self.data)) - self.pos)

    def align(self, a: int) -> None:
        if a > 0 and self.pos % a:
            self.pos += a - self.pos % a

    def sub(self, n: int) -> "Ref":
        c = Ref(self.data, self.pos, self.pos + n)
        self.pos += n
        return c


def scripts() -> List[Tuple[bytes, List[Tuple[str, str, int]]]]:
    """(data, [(reader, operation, argument)]): reader `r` is the top reader, `s` a sub-reader of r, `t` a sub-reader of s"""
    out: List[Tuple[bytes, List[Tuple[str, str, int]]]] = []
    reads = [0, 1, 3, 7, 8, 9, 15, 16, 17, 24, 25]
    for data in (b"", b"\xff", b"\xff\xff\xff", b"\xa5\x3c\xf1"):
        # plain reads from every position class
        for lead in (0, 1, 3, 7, 8, 11):
            for n in reads:
                out.append((data, [("r", "read", lead), ("r", "read", n), ("r", "read", 2)]))
        # alignment
        for lead in (0, 1, 7, 8, 9):
            for a in (-8, 0, 1, 8, 16):
                out.append((data, [("r", "read", lead), ("r", "align", a), ("r", "read", 8)]))
        # a window at every position class, reads inside / across / beyond it, then the parent continues
        for lead in (0, 3, 8):
            for w in (0, 1, 5, 8, 12, 16):
                for n in (0, 1, 4, 8, 9, 13, 20):
                    out.append((data, [("r", "read", lead), ("r", "sub", w), ("s", "read", n), ("s", "read", 3), ("r", "read", 8)]))
                for a in (8, 16):
                    out.append((data, [("r", "read", lead), ("r", "sub", w), ("s", "read", 1), ("s", "align", a), ("s", "read", 9)]))
                # a window inside the window (as large as what remains, or smaller)
                for w2 in (0, 3, w):
                    if w2 <= w:
                        out.append((data, [("r", "read", lead), ("r", "sub", w), ("s", "sub", w2), ("t", "read", 5), ("t", "read", 9), ("s", "read", 4)]))
    return out


def run_model(ctx: Ctx) -> Dict[str, List[Dict[str, Any]]]:
    """mismatches by kind: 'value' (what a read returns), 'offset' (position accounting), 'remaining'"""
    cached = getattr(ctx, "_bitreader_model", None)
    if cached is not None:
        return cached
    cls = ctx.cls(READER)
    bad: Dict[str, List[Dict[str, Any]]] = {"value": [], "offset": [], "remaining": []}
    n_steps = 0

    def ask(f: Folder, src: str) -> Any:
        return f.fold(ast.parse(src, mode="eval").body)

    for data, ops in scripts():
        try:
            top = construct(ctx, cls, data, hook=None)
        except (Raised, Unfoldable) as ex:
            raise AnalysisError("_BitReader(data): cannot evaluate: %s" % ex)
        f = Folder({"r": top}, ctx.repo, cls.module, cls, None)
        ref: Dict[str, Ref] = {"r": Ref(data)}
        child = {"r": "s", "s": "t"}
        trace = []
        try:
            for who, op, arg in ops:
                n_steps += 1
                trace.append("%s.%s(%d)" % (who, op, arg))
                if op == "read":
                    got = ask(f, "%s.read_bits(%d)" % (who, arg))
                    want = ref[who].read(arg)
                    if got != want:
                        bad["value"].append({"data": data.hex() or "(empty)", "operations": " ; ".join(trace), "read returned": got, "expected": want})
                        break
                elif op == "align":
                    ask(f, "%s.align_to(%d)" % (who, arg))
                    ref[who].align(arg)
                elif op == "sub":
                    f.env[child[who]] = ask(f, "%s.bounded_subreader(%d)" % (who, arg))
                    ref[child[who]] = ref[who].sub(arg)
                for name, rr in ref.items():
                    off, rem = ask(f, "%s.bit_offset" % name), ask(f, "%s.remaining_bits" % name)
                    if off != rr.pos:
                        bad["offset"].append({"data": data.hex() or "(empty)", "operations": " ; ".join(trace), "reader": name, "position": off, "expected": rr.pos})
                        raise StopIteration
                    if rem != rr.remaining():
                        bad["remaining"].append({"data": data.hex() or "(empty)", "operations": " ; ".join(trace), "reader": name, "remaining_bits": rem, "expected": rr.remaining()})
                        raise StopIteration
        except StopIteration:
            pass
        except Raised as r:
            bad["value"].append({"data": data.hex() or "(empty)", "operations": " ; ".join(trace), "raised": r.cls_name})
        except Unfoldable as ex:
            raise AnalysisError("_BitReader: cannot evaluate %s: %s" % (" ; ".join(trace), ex))
    ctx.count(n_steps)
    ctx._bitreader_model = bad  # type: ignore
    ctx._bitreader_steps = n_steps  # type: ignore
    return bad


# ----------------------------------------------------------------------------------------------------------------------
WRITER = "_serdes._BitWriter"


def run_writer_model(ctx: Ctx) -> List[Dict[str, Any]]:
    """the bit writer through its public interface (write_bits, align_to, finish, bit_offset) against a plain bit list:
    write_bits(v, n) appends the n low bits of v, least significant first; align_to(a) appends zero bits up to the next multiple
    of a (a <= 0: nothing); finish() is the bits packed LSB-first into bytes, the last byte zero-filled"""
    cached = getattr(ctx, "_bitwriter_model", None)
    if cached is not None:
        return cached
    cls = ctx.cls(WRITER)
    bad: List[Dict[str, Any]] = []
    lengths = [0, 1, 3, 7, 8, 9, 15, 16, 17, 24, 25]
    values = [0, -1, 0xA53CF1E27, 1]
    seqs: List[List[Tuple[str, int, int]]] = []
    for lead in (0, 1, 3, 7, 8, 11):
        for n in lengths:
            for v in values:
                seqs.append([("write", -1, lead), ("write", v, n), ("write", 2, 2)])
    for lead in (0, 1, 7, 8, 9):
        for a in (-8, 0, 1, 8, 16):
            seqs.append([("write", -1, lead), ("align", a, 0), ("write", 0x5A, 8)])
    n_steps = 0
    for ops in seqs:
        try:
            w = construct(ctx, cls, hook=None)
        except (Raised, Unfoldable) as ex:
            raise AnalysisError("_BitWriter(): cannot evaluate: %s" % ex)
        f = Folder({"w": w}, ctx.repo, cls.module, cls, None)
        bits: List[int] = []
        trace = []
        try:
            for op, v, n in ops:
                n_steps += 1
                if op == "write":
                    trace.append("write_bits(%#x, %d)" % (v & ((1 << max(n, 1)) - 1), n))
                    f.fold(ast.parse("w.write_bits(%d, %d)" % (v & ((1 << n) - 1) if v < 0 else v, n), mode="eval").body)
                    bits.extend(((v >> i) & 1) for i in range(n))
                else:
                    trace.append("align_to(%d)" % v)
                    f.fold(ast.parse("w.align_to(%d)" % v, mode="eval").body)
                    if v > 0 and len(bits) % v:
                        bits.extend([0] * (v - len(bits) % v))
                off = f.fold(ast.parse("w.bit_offset", mode="eval").body)
                out = f.fold(ast.parse("w.finish()", mode="eval").body)
                want = bytes(sum(b << i for i, b in enumerate(bits[k : k + 8])) for k in range(0, len(bits), 8))
                if off != len(bits) or bytes(out) != want:
                    bad.append({"operations": " ; ".join(trace), "position": off, "expected position": len(bits), "output": bytes(out).hex(), "expected output": want.hex()})
                    break
        except Raised as r:
            bad.append({"operations": " ; ".join(trace), "raised": r.cls_name})
        except Unfoldable as ex:
            raise AnalysisError("_BitWriter: cannot evaluate %s: %s" % (" ; ".join(trace), ex))
    ctx.count(n_steps)
    ctx._bitwriter_model = bad  # type: ignore
    ctx._bitwriter_steps = n_steps  # type: ignore
    return bad
