"""
C15, text level: directory trees of small definitions are read end to end by the repository's front end (evaluated from the
source) and every returned type must carry exactly the name, version and port-ID its file path encodes, and point back to
its file and root directory.

R7  read_namespace over a tree: nested namespaces, with and without port-ID, extreme versions; files that are not
    definitions are ignored; each malformed file name (own run) is an InvalidDefinitionError
R8  read_files: the same file designated through an absolute root path, a relative root path, a bare root-namespace name and
    an inferred root - one identity, source_file_path / source_file_path_to_root pointing back
"""
from __future__ import annotations

from typing import Any, Dict, List, Optional, Tuple

from ..core import AnalysisError, Ctx
from .c03text import TextRun, front_end
from .c04text import is_invalid_definition

TEXT = "uint8 a\n@sealed\n"
SVC = "uint8 a\n@sealed\n---\nuint8 b\n@sealed\n"

TREE: List[Tuple[str, str, Tuple[int, int], Optional[int], str]] = [
    # path under the root, full name, version, port-ID, text
    ("A.1.0.dsdl", "ns.A", (1, 0), None, TEXT),
    ("123.B.2.3.dsdl", "ns.B", (2, 3), 123, TEXT),
    ("0.E.0.1.dsdl", "ns.E", (0, 1), 0, TEXT),
    ("sub/C.0.1.dsdl", "ns.sub.C", (0, 1), None, TEXT),
    ("sub/C.0.2.dsdl", "ns.sub.C", (0, 2), None, TEXT),
    ("sub/C.1.0.dsdl", "ns.sub.C", (1, 0), None, TEXT),
    ("sub/deep/er/7000.D.255.255.dsdl", "ns.sub.deep.er.D", (255, 255), 7000, TEXT),
    ("sub/511.S.1.0.dsdl", "ns.sub.S", (1, 0), 511, SVC),
    ("sub/A.1.0.dsdl", "ns.sub.A", (1, 0), None, TEXT),
    ("A/A.1.0.dsdl", "ns.A.A", (1, 0), None, TEXT),
    ("x1/8191.Z9_.10.20.dsdl", "ns.x1.Z9_", (10, 20), 8191, TEXT),
]
NOT_DEFINITIONS = ["README.md", "sub/notes.txt", "sub/C.0.1.dsdl.bak", "dsdl", "sub/.hidden"]
MALFORMED = [
    "A.dsdl", "A.1.dsdl", "A.1.0.0.dsdl", "1.2.3.4.5.dsdl", "x.A.1.0.dsdl", "-1.A.1.0.dsdl", "+1.A.1.0.dsdl", "1_0.A.1.0.dsdl", "0x1.A.1.0.dsdl", "１.A.1.0.dsdl", "١.A.1.0.dsdl",
    "A.１.0.dsdl", "A.1.٠.dsdl", "A.x.0.dsdl", "A.1.x.dsdl", "A.-1.0.dsdl", "A.1.+0.dsdl", "A.1_0.0.dsdl", ".1.0.dsdl", "A..0.dsdl", "A.1..dsdl", "1..1.0.dsdl", "1.A..0.dsdl",
    " A.1.0.dsdl", "A .1.0.dsdl", "A.1.0 .dsdl", "A.1. 0.dsdl", "1 .A.1.0.dsdl", "A.1.0.\n.dsdl" if False else "A.1.\t0.dsdl",
]


def rule_r7_tree(ctx: Ctx) -> None:
    ctx.rule("C15.R7", "a directory tree read end to end by the evaluated front end: every type's full name, version and fixed port-ID are those its path encodes, source_file_path is that file and source_file_path_to_root the root directory; files that are not definitions are ignored; each malformed file name is rejected with an InvalidDefinitionError", min_instances=3)
    fe = front_end(ctx)
    root = "/w/some/where/ns"
    files = {root + "/" + p: t for p, _, _, _, t in TREE}
    files.update({root + "/" + p: "not a definition @@@" for p in NOT_DEFINITIONS})
    jobs = [{"files": files, "root": root, "kwargs": {"allow_unregulated_fixed_port_id": True}}]
    for m in MALFORMED:
        f2 = {root + "/A9.1.0.dsdl": TEXT, root + "/sub/" + m: TEXT}
        jobs.append({"files": f2, "root": root, "kwargs": {"allow_unregulated_fixed_port_id": True}})
    outs = fe.read_many(jobs)
    ctx.count(len(TREE) + len(MALFORMED))
    where = "pydsdl/_dsdl_definition.py"
    o = outs[0]
    if o["raised"] is not None:
        ctx.fail("read_namespace over the tree", "accepted", "a tree of well-named definitions is rejected: %s at %s" % (o["raised"], o["path"]), where=where)
    else:
        run = TextRun(o)
        bad = []
        for p, name, ver, port, _ in TREE:
            d = run.by_name.get((name, ver))
            if d is None:
                bad.append("%s: no type %s.%d.%d in the result" % (p, name, ver[0], ver[1]))
                continue
            exp = {"full_name": name, "version": ver, "fixed_port_id": port, "source_file_path": root + "/" + p, "root_path": root}
            for k, v in exp.items():
                got = tuple(d[k]) if k == "version" else d[k]
                if got != v or type(got) is not type(v):
                    bad.append("%s: %s is %r, the path says %r" % (p, k, got, v))
            if d["kind"] == "ServiceType":
                for part in ("request", "response"):
                    s = d[part]
                    if s["source_file_path"] != root + "/" + p or tuple(s["version"]) != ver or not s["full_name"].startswith(name + "."):
                        bad.append("%s: the %s part is %s.%s from %s" % (p, part, s["full_name"], s["version"], s["source_file_path"]))
        extra = sorted(set(run.by_name) - {(n, v) for _, n, v, _, _ in TREE})
        if extra:
            bad.append("types that no file of the tree defines: %s" % extra)
        ctx.check(not bad, "read_namespace over the tree", "%d definitions, %d other files" % (len(TREE), len(NOT_DEFINITIONS)), "a type's identity is not the one its path encodes: %s" % "; ".join(bad[:4]), where, bad[:10])
    accepted = [m for m, x in zip(MALFORMED, outs[1:]) if x["raised"] is None]
    wrong = ["%r -> %s" % (m, x["raised"]) for m, x in zip(MALFORMED, outs[1:]) if x["raised"] is not None and not is_invalid_definition(ctx, x["raised"])]
    ctx.check(not accepted, "read_namespace over a malformed file name", "%d names" % len(MALFORMED), "a file name that does not have the shape [<port-id>.]<ShortName>.<major>.<minor>.dsdl is accepted: %s" % ", ".join(repr(m) for m in accepted[:6]), where, accepted)
    ctx.check(not wrong, "read_namespace over a malformed file name", "the rejections are InvalidDefinitionErrors", "a malformed file name is rejected with an error that is not an InvalidDefinitionError: %s" % "; ".join(wrong[:4]), where, wrong)


def rule_r8_read_files(ctx: Ctx) -> None:
    ctx.rule("C15.R8", "read_files end to end: one file designated through an absolute root path, a relative root path, a bare root-namespace name and an inferred root (relative target) - the same identity every time, source_file_path / source_file_path_to_root pointing back to the file and the root", min_instances=4)
    fe = front_end(ctx)
    base = "/w/proj"
    files = {base + "/types/ns/sub/7.C.1.2.dsdl": "ns.B.1.0 b\n@sealed\n", base + "/types/ns/B.1.0.dsdl": TEXT, base + "/other/ns/X.1.0.dsdl": TEXT}
    kw = {"allow_unregulated_fixed_port_id": True}
    target_abs = base + "/types/ns/sub/7.C.1.2.dsdl"
    designations = [
        ("absolute target, absolute root", dict(targets=[target_abs], roots=[base + "/types/ns"], cwd="/elsewhere")),
        ("relative target, relative root path", dict(targets=["types/ns/sub/7.C.1.2.dsdl"], roots=["types/ns"], cwd=base)),
        ("relative target from inside the tree, relative root path", dict(targets=["ns/sub/7.C.1.2.dsdl"], roots=["types/ns"], cwd=base)),
        ("relative target, absolute root", dict(targets=["ns/sub/7.C.1.2.dsdl"], roots=[base + "/types/ns"], cwd="/elsewhere")),
        ("deep relative target, bare root name", dict(targets=["proj/types/ns/sub/7.C.1.2.dsdl"], roots=["ns"], cwd="/w", as_paths=False)),
        ("relative target, inferred root", dict(targets=["ns/sub/7.C.1.2.dsdl"], roots=[], cwd=base + "/types")),
        ("absolute target, bare root name", dict(targets=[target_abs], roots=["ns"], cwd="/elsewhere", as_paths=False)),
        ("relative target, bare root name", dict(targets=["types/ns/sub/7.C.1.2.dsdl"], roots=["ns"], cwd=base, as_paths=False)),
        ("relative target from inside the tree, bare root name", dict(targets=["ns/sub/7.C.1.2.dsdl"], roots=["ns"], cwd=base + "/types", as_paths=False)),
        ("absolute target, root as a text", dict(targets=[target_abs], roots=[base + "/types/ns"], cwd="/elsewhere", as_paths=False)),
    ]
    jobs = [dict(files=files, entry="read_files", kwargs=kw, **d) for _, d in designations]
    outs = fe.read_many(jobs)
    ctx.count(len(jobs))
    where = "pydsdl/_namespace.py"
    for (label, d), o in zip(designations, outs):
        if o["raised"] is not None:
            ctx.fail("read_files: %s" % label, "accepted", "a valid designation of an existing file is rejected: %s (%s)" % (o["raised"], o.get("text")), where=where, detail=d)
            continue
        direct, trans = o.get("direct", []), o.get("transitive", [])
        bad = []
        if len(direct) != 1:
            bad.append("%d direct types" % len(direct))
        else:
            t = direct[0]
            exp = {"full_name": "ns.sub.C", "version": (1, 2), "fixed_port_id": 7}
            for k, v in exp.items():
                got = tuple(t[k]) if k == "version" else t[k]
                if got != v:
                    bad.append("%s is %r, the path says %r" % (k, got, v))
            # the file and the root, however spelled (relative spellings are relative to the working directory)
            cwd = d["cwd"]
            absolute = lambda p: p if p.startswith("/") else cwd.rstrip("/") + "/" + p  # noqa: E731
            if absolute(t["source_file_path"]) != target_abs:
                bad.append("source_file_path is %r" % t["source_file_path"])
            if absolute(t["root_path"]) != base + "/types/ns":
                bad.append("source_file_path_to_root is %r" % t["root_path"])
        if [(x["full_name"], tuple(x["version"])) for x in trans] != [("ns.B", (1, 0))]:
            bad.append("transitive types: %s" % [(x["full_name"], tuple(x["version"])) for x in trans])
        elif absolute(trans[0]["source_file_path"]) != base + "/types/ns/B.1.0.dsdl":
            bad.append("the dependency comes from %r" % trans[0]["source_file_path"])
        ctx.check(not bad, "read_files: %s" % label, "ns.sub.C.1.2, port 7, from its file", "the identity of the type read is not the one its path encodes: %s" % "; ".join(bad[:4]), where, {"call": d, "differences": bad})


def run(ctx: Ctx) -> None:
    ctx.attempt(rule_r7_tree, ctx)
    ctx.attempt(rule_r8_read_files, ctx)
