"""
C17 -- Errors and @print output are attributed to the right file and line.

R1  location injection: each handler on the propagation path stamps its *own* context (parse: the current line;
    DSDLDefinition.read: its own file; _read_definitions: the target's file) and re-raises the same object; the setter
    fills unknown fields only (so the innermost - i.e. the dependency's - location wins).
R2  deferred work is attributed at queue time: in the extracted parser x builder automaton every execution of a pending
    attribute callback happens on the line it was queued on, or inside a handler that re-attributes the error to a line
    captured when it was queued; the captured line is written exactly by the visitors that queue.
R3  only end_of_line consumes line breaks: a grammar terminal whose language contains a line break is end_of_line (one
    break per match) or has a visitor that advances the counter by the breaks matched; statements that can span lines
    report the line they begin on.
R4  line counter discipline: initial value 1, written only by visit_end_of_line (+1) and the visitors of R3; directive
    visitors pass the statement's line to on_directive; the assertion error carries that line and the definition's path.
R5  the print handler handed to X.read(...) is bound to X's own path.
R6  @print delivers exactly once per evaluated directive.
"""
from __future__ import annotations

import ast
from typing import Any, Dict, List, Optional, Set, Tuple

from .. import rx
from ..core import AnalysisError, ClassInfo, Ctx, FuncInfo, body_without_docstring, calls_in, dotted, kwarg, norm, walk_no_nested
from ..decide import A, f_eval, path_formula, paths_of, valuations
from ..fold import Sym
from ..peg import Grammar
from .c03 import Automaton


def _handlers_for(ctx: Ctx, fn: FuncInfo, cls_name: str) -> List[Tuple[ast.Try, ast.ExceptHandler]]:
    """handlers for `cls_name` in fn - private helpers expanded, local functions included"""
    out = []
    node = ctx.inl(fn)
    for tr in [n for n in ast.walk(node) if isinstance(n, ast.Try)]:
        for h in tr.handlers:
            ts = h.type.elts if isinstance(h.type, ast.Tuple) else ([h.type] if h.type is not None else [])
            for t in ts:
                k = ctx.repo.resolve_expr(fn.module, t, fn.cls)
                if isinstance(k, ClassInfo) and k.name == cls_name:
                    out.append((tr, h))
    return out


def _handler_keywords(h: ast.ExceptHandler) -> List[Dict[str, str]]:
    """keyword arguments of ex.set_error_location_if_unknown(...) in the handler, handler-local temporaries substituted"""
    from ..decide import substitute

    env: Dict[str, ast.AST] = {}
    out = []
    for st in h.body:
        if isinstance(st, ast.Assign) and len(st.targets) == 1 and isinstance(st.targets[0], ast.Name):
            env[st.targets[0].id] = substitute(st.value, env)
            continue
        for c in ast.walk(st):
            if isinstance(c, ast.Call) and isinstance(c.func, ast.Attribute) and c.func.attr == "set_error_location_if_unknown" and norm(c.func.value) == h.name:
                out.append({k.arg: norm(substitute(k.value, env)) for k in c.keywords if k.arg})
    return out


def rule_r1(ctx: Ctx) -> None:
    repo = ctx.repo
    ctx.rule("C17.R1", "location injection: every Error handler on the propagation path stamps its own context and re-raises the same object; the setter only fills unknown fields", min_instances=4)
    sites = [("_parser.parse", "line"), ("_dsdl_definition.DSDLDefinition.read", "own path"), ("_namespace_reader._read_definitions", "read path")]
    for short, kind in sites:
        fn = ctx.func(short)
        hs = _handlers_for(ctx, fn, "Error")
        good = False
        detail: List[Any] = []
        for tr, h in hs:
            if not h.name:
                continue
            kws = _handler_keywords(h)
            rer = [r for r in ast.walk(ast.Module(body=h.body, type_ignores=[])) if isinstance(r, ast.Raise)]
            same = bool(rer) and all(r.exc is None or norm(r.exc) == h.name for r in rer)
            body_calls = [c for s_ in tr.body for c in ast.walk(s_) if isinstance(c, ast.Call)]
            if kind == "line":
                # the parse tree is visited inside the try; the line stamped is the visitor's running counter
                visitors = [norm(c.func.value) for c in body_calls if isinstance(c.func, ast.Attribute) and c.func.attr == "visit"]
                prot = len(set(visitors)) == 1
                want = {"line": ["%s.current_line_number" % visitors[0]]} if prot else {"line": ["?"]}
            elif kind == "own path":
                prot = any((isinstance(c.func, ast.Attribute) and c.func.attr in ("parse", "finalize")) or (dotted(c.func) or "").endswith("parse") for c in body_calls)
                want = {"path": ["self.file_path", "self._file_path"]}
            else:
                readers = [norm(c.func.value) for c in body_calls if isinstance(c.func, ast.Attribute) and c.func.attr == "read"]
                prot = len(set(readers)) == 1
                want = {"path": ["%s.file_path" % readers[0]]} if prot else {"path": ["?"]}
            # it must be the first handler that matches Error (no broader handler before it)
            first = tr.handlers.index(h) == 0
            detail.append({"keywords": kws, "reraises_same": same, "protects": prot, "first": first, "expected": want})
            if len(kws) == 1 and set(kws[0]) == set(want) and all(kws[0][k] in v for k, v in want.items()) and same and prot and first:
                good = True
        ctx.check(good, fn.short, "except Error as ex: ex.set_error_location_if_unknown(<%s of what is being processed>); raise ex" % ("line" if kind == "line" else "path"), "the handler stamps the context of the file/line being processed and re-raises the same exception", fn.where(), detail)
    # the setter
    err = ctx.cls("_error.Error")
    st = err.methods.get("set_error_location_if_unknown")
    if st is None:
        raise AnalysisError("anchor Error.set_error_location_if_unknown missing")
    paths = paths_of(st.node)

    def atom(e: Any) -> Any:
        s = norm(e)
        m = {"self._path": "HAS_PATH", "path": "ARG_PATH", "self._line": "HAS_LINE", "line": "ARG_LINE", "self.path": "HAS_PATH", "self.line": "HAS_LINE"}
        if s in m:
            return A(m[s])
        if s.endswith(" is None") and s[:-8] in m:
            from ..decide import f_not

            return f_not(A(m[s[:-8]]))
        if s.endswith(" is not None") and s[:-12] in m:
            return A(m[s[:-12]])
        raise AnalysisError("set_error_location_if_unknown: condition outside the abstraction: %s" % s)

    bad = []
    for v in valuations(["HAS_PATH", "ARG_PATH", "HAS_LINE", "ARG_LINE"]):
        taken = [p for p in paths if f_eval(path_formula(p, atom), v)]
        ctx.count()
        if len(taken) != 1:
            raise AnalysisError("set_error_location_if_unknown: %d feasible paths" % len(taken))
        env = taken[0].env
        wrote_path = "self._path" in env
        wrote_line = "self._line" in env
        if wrote_path != ((not v["HAS_PATH"]) and v["ARG_PATH"]) or wrote_line != ((not v["HAS_LINE"]) and v["ARG_LINE"]):
            bad.append({"state": v, "writes_path": wrote_path, "writes_line": wrote_line})
        if wrote_path and norm(env["self._path"]) != "path" or wrote_line and norm(env["self._line"]) != "line":
            bad.append({"state": v, "stores": {k: norm(x) for k, x in env.items()}})
    ctx.check(not bad, st.short, "fills unknown path / line only", "a location that is already known (set closer to the fault) is never overwritten", st.where(), bad[:4])
    # accessors
    from ..regions import trivial_property_expr

    for prop, want_e in (("path", "self._path"), ("line", "self._line")):
        e = trivial_property_expr(repo, err, prop)
        ctx.check(e is not None and norm(e) == want_e, err.short + "." + prop, norm(e) if e is not None else "?", "accessor returns the stored location", err.module.relpath, nontrivial=False)


class _Tok(Sym):
    """an opaque, truthy context value (`pr.current_line_number`, `self.file_path`, ...): named by how it was reached"""

    def __init__(self, name: str):
        super().__init__()
        self.__dict__["_name"] = name

    def __getattr__(self, a: str) -> Any:
        if a.startswith("__"):
            raise AttributeError(a)
        return _Tok(self._name + "." + a)

    def __repr__(self) -> str:
        return "<%s>" % self._name


def rule_r7(ctx: Ctx) -> None:
    """composition of the location stamps along the propagation path, on the repository's own Error class"""
    from ..absint import Evaluator, Raised, construct
    from ..fold import Folder, Unfoldable

    ctx.rule("C17.R7", "a line is stamped only on an error whose file is not yet known (an error that arrives with the path of another file - a dependency - never gets a line of this file); a path is stamped only when unknown; a known line is never changed", min_instances=4)
    err = ctx.cls("_error.Error")
    OTHER = "/deps/Other.1.0.dsdl"
    n = 0
    seen: Set[Tuple[str, int]] = set()
    for mod_name in ("_parser", "_dsdl_definition", "_namespace_reader", "_data_type_builder"):
        mod = ctx.repo.module(mod_name)
        fns = list(mod.functions.values()) + [m for c in mod.classes.values() for m in c.methods.values()]
        # a handler is reported once, at the function that lexically contains it (helpers are expanded into their callers)
        fns.sort(key=lambda f: 0 if any(isinstance(x, ast.ExceptHandler) for x in ast.walk(f.node)) else 1)
        for fn in fns:
            for tr, h in _handlers_for(ctx, fn, "Error"):
                if (mod.relpath, h.lineno) in seen:
                    continue
                own = any(isinstance(x, ast.ExceptHandler) and x.lineno == h.lineno for x in ast.walk(fn.node))
                if not own and any(any(isinstance(x, ast.ExceptHandler) and x.lineno == h.lineno for x in ast.walk(g.node)) for g in fns):
                    continue
                seen.add((mod.relpath, h.lineno))
                if not h.name or not any(isinstance(c, ast.Call) and isinstance(c.func, ast.Attribute) and c.func.attr == "set_error_location_if_unknown" for s_ in h.body for c in ast.walk(s_)):
                    continue
                results = {}
                for label, (p0, l0) in {"fresh": (None, None), "from another file, no line": (OTHER, None), "from another file, with line": (OTHER, 7), "line known, file not yet": (None, 3)}.items():
                    ex = construct(ctx, err, "text", p0, l0)
                    env: Dict[str, Any] = {h.name: ex}
                    for nm in {x.id for s_ in h.body for x in ast.walk(s_) if isinstance(x, ast.Name)} - {h.name}:
                        env[nm] = _Tok(nm)
                    try:
                        Evaluator(env, ctx.repo, fn.module, fn.cls, None).run(list(h.body))
                    except Raised:
                        pass
                    except Unfoldable as exn:
                        raise AnalysisError("%s: cannot evaluate the handler over an abstract error: %s" % (fn.short, exn))
                    f = Folder({"e": ex}, ctx.repo, err.module, err, None)
                    results[label] = (f.fold(ast.parse("e.path", mode="eval").body), f.fold(ast.parse("e.line", mode="eval").body))
                    ctx.count()
                bad = []
                fp, fl = results["fresh"]
                stamps_line, stamps_path = fl is not None, fp is not None
                op, ol = results["from another file, no line"]
                if op != OTHER:
                    bad.append({"incoming": "path of another file, no line", "path after": repr(op)})
                if ol is not None:
                    bad.append({"incoming": "path of another file (a dependency), no line", "line after": repr(ol), "expected": "still unknown: the line of this file means nothing in the other file"})
                if results["from another file, with line"] != (OTHER, 7):
                    bad.append({"incoming": "path and line of another file", "after": repr(results["from another file, with line"])})
                if results["line known, file not yet"][1] != 3:
                    bad.append({"incoming": "line 3, no path", "line after": repr(results["line known, file not yet"][1])})
                n += 1
                ctx.check(not bad, fn.short, "handler stamping %s" % " and ".join(x for x, y in (("the line", stamps_line), ("the path", stamps_path)) if y), "the (path, line) pair of an error always refers to one file: a stamp never completes the location of another file with a value from this one", "%s:%d" % (fn.module.relpath, h.lineno), bad)
    if n < 4:
        raise AnalysisError("only %d location-stamping handlers found" % n)



def rule_r2(ctx: Ctx, a: Automaton) -> None:
    ctx.rule("C17.R2", "a pending attribute is committed on its own line or inside a handler that re-attributes errors to the line captured when it was queued; that line is written exactly where attributes are queued", min_instances=2)
    bad = [c for c in a.commits if c["age"] > 0 and not (c["protected"] and c["capok"])]
    ctx.count(len(a.commits))
    distinct = sorted({(c["where"], c["context"].split(" line=")[1] if " line=" in c["context"] else c["context"]) for c in bad})
    ctx.check(not bad, "_parser._ParseTreeProcessor._flush_comment", "deferred commits on a later line are re-attributed (%d commit executions explored)" % len(a.commits), "an error raised by the lazily committed attribute must carry the attribute's own line, not the line reached by the parser", "", [{"commit_at": w, "line_shape": c} for w, c in distinct[:4]] + ([{"late_commits_without_a_valid_captured_line": len(bad), "handler_present": any(c["protected"] for c in bad), "captured_line_stale": any(c["protected"] and not c["capok"] for c in bad)}] if bad else []))
    # the captured line variable: which attribute is used by the relabelling handler, and who writes it
    pt = a.parser
    captured: Set[str] = set()
    for fn in pt.methods.values():
        for tr in [n for n in walk_no_nested(fn.node) if isinstance(n, ast.Try)]:
            for h in tr.handlers:
                for c in ast.walk(ast.Module(body=h.body, type_ignores=[])):
                    if isinstance(c, ast.Call) and isinstance(c.func, ast.Attribute) and c.func.attr == "set_error_location_if_unknown":
                        for k in c.keywords:
                            if k.arg == "line" and norm(k.value).startswith("self.") and "current_line_number" not in norm(k.value):
                                captured.add(norm(k.value))
    if not captured:
        ctx.check(not any(c["age"] > 0 for c in a.commits), pt.short, "no captured line", "no handler re-attributes deferred commits", pt.module.relpath, nontrivial=False)
        return
    if len(captured) != 1:
        raise AnalysisError("several captured-line variables: %s" % sorted(captured))
    var = captured.pop()
    writers = {}
    for name, fn in pt.methods.items():
        for st in walk_no_nested(fn.node):
            if isinstance(st, (ast.Assign, ast.AugAssign)):
                tg = st.targets if isinstance(st, ast.Assign) else [st.target]
                if any(norm(t) == var for t in tg):
                    writers[name] = norm(st.value)
    from ..typestate import Interp

    queueing = sorted(m for m in pt.methods if m.startswith("visit_statement_") and any(e.kind == "QUEUE" for _, eff in Interp(a.pl).run_method(pt, m, (False, False, 0, False)) for e in eff))
    want_writers = set(queueing) | {"__init__"}
    from .c03 import may_contain

    multi_owners = [o for o, _ in _multiline_terminals(a.g) if o != "end_of_line"]

    def can_span_lines(visitor: str) -> bool:
        rule = visitor[len("visit_"):]
        return rule in a.g.rules and any(may_contain(a.g, a.g.rules[rule], o) for o in multi_owners)

    line_exprs_ok = all(_is_statement_line(ctx, pt, pt.methods[m], writers.get(m, ""), multiline=can_span_lines(m)) for m in queueing)
    ctx.check(set(writers) == want_writers and line_exprs_ok, pt.short, "%s written by %s" % (var, sorted(writers)), "the line of the pending attribute is recorded by exactly the visitors that queue an attribute, from the statement's own line", pt.module.relpath, {"queueing_visitors": queueing, "writers": writers})


def _multiline_terminals(g: Grammar) -> List[Tuple[str, str]]:
    """(owner rule, pattern) of every terminal whose language contains a line break"""
    alpha = list("a'\"\\#\r\n \t") + [rx.OTHER]
    out = []

    def rec(owner: str, n: Any) -> None:
        t = n[0]
        if t == "re":
            try:
                if rx.uses_char(n[1], "\n", alpha):
                    out.append((owner, n[1]))
            except rx.RxUnsupported as ex:
                raise AnalysisError("grammar terminal %s: %s" % (owner, ex))
        elif t == "lit":
            if "\n" in n[1]:
                out.append((owner, n[1]))
        elif t in ("seq", "alt"):
            for x in n[1]:
                rec(owner, x)
        elif t in ("opt", "star", "plus", "not", "and"):
            rec(owner, n[1])

    for name, node in g.rules.items():
        rec(name, node)
    return out


def _is_statement_line(ctx: Ctx, pt: ClassInfo, fn: FuncInfo, expr_text: str, multiline: bool = True) -> bool:
    """the expression (private helpers expanded, temporaries substituted) denotes the line the statement node begins on"""
    node_param = fn.params[1] if len(fn.params) > 1 else "node"
    try:
        e = ast.parse(expr_text, mode="eval").body
    except SyntaxError:
        return False
    counter = ("self.current_line_number", "self._current_line_number")
    breaks = ("%s.text.count('\\n')" % node_param,)
    if norm(e) in counter:
        return not multiline
    if isinstance(e, ast.BinOp) and isinstance(e.op, ast.Sub) and norm(e.left) in counter and norm(e.right) in breaks:
        return True
    # still a call of a one-expression helper on the node (not expanded because it is public or overridden): look inside
    if isinstance(e, ast.Call) and isinstance(e.func, ast.Attribute) and norm(e.func.value) == "self" and [norm(x) for x in e.args] == [node_param]:
        h = ctx.repo.lookup_method(pt, e.func.attr)
        if h is not None and len(h.params) == 2:
            rets = [p for p in paths_of(ctx.inl(h)) if p.kind == "return"]
            if len(rets) == 1:
                return _is_statement_line(ctx, pt, h, norm(rets[0].value), multiline)
    return False


def _canonical_calls(ctx: Ctx, fn: FuncInfo, attr: str) -> List[ast.Call]:
    """calls of `.attr(...)` met on the paths of fn, with helpers expanded and temporaries substituted"""
    out = []
    seen = set()
    for p in paths_of(ctx.inl(fn)):
        for ev in list(p.events) + ([p.value] if p.value is not None else []):
            node = ev[2] if isinstance(ev, tuple) and ev[0] == "assign" else ev
            if not isinstance(node, ast.AST):
                continue
            for c in ast.walk(node):
                if isinstance(c, ast.Call) and isinstance(c.func, ast.Attribute) and c.func.attr == attr and norm(c) not in seen:
                    seen.add(norm(c))
                    out.append(c)
    return out


def _counter_advances(ctx: Ctx, fn: FuncInfo, line_attr: str) -> List[str]:
    """the amounts by which fn (helpers expanded, temporaries substituted) advances the line counter, one per path"""
    out = []
    for p in paths_of(ctx.inl(fn)):
        if p.kind == "raise":
            continue
        adv: List[str] = []
        last = None
        for ev in p.events:
            if isinstance(ev, tuple) and ev[0] == "assign" and "self.%s" % line_attr in ev[1]:
                last = ev[2]
        if last is not None:
            # the value finally stored, as a sum over the counter's value on entry (earlier stores are substituted into it)
            v = last
            while isinstance(v, ast.BinOp) and isinstance(v.op, ast.Add) and norm(v) != "self.%s" % line_attr:
                adv.insert(0, norm(v.right))
                v = v.left
            if norm(v) != "self.%s" % line_attr:
                adv = ["=" + norm(last)]
        out.append(" + ".join(adv) if adv else "0")
    return sorted(set(out))


def rule_r3_r4(ctx: Ctx, a: Automaton) -> None:
    repo = ctx.repo
    g = a.g
    pt = a.parser
    ctx.rule("C17.R3", "only end_of_line consumes line breaks, or the terminal's visitor advances the counter by the breaks it matched; statements report the line they begin on", min_instances=3)
    multi = _multiline_terminals(g)
    ctx.analysed["C17.R3.multiline_terminals"] = multi
    sanctioned_writers: Set[str] = set()
    seen_eol = False
    for owner, pat in multi:
        if owner == "end_of_line":
            alpha = list("a\r\n ") + [rx.OTHER]
            same, x, y = rx.equivalent(rx.compile_dfa(pat, alpha, "fullmatch"), rx.compile_dfa(r"\r?\n", alpha, "fullmatch"))
            ctx.check(same, "grammar.end_of_line", pat, "end_of_line matches exactly one line break", g.path, {"extra": x, "missing": y})
            seen_eol = True
            continue
        vis = pt.methods.get("visit_" + owner)
        good = False
        if vis is not None and len(vis.params) >= 2:
            node_param = vis.params[1]
            adv = _counter_advances(ctx, vis, a.pl.line_attr)
            if adv == ["%s.text.count('\\n')" % node_param]:
                good = True
                sanctioned_writers.add(vis.name)
        ctx.check(good, "grammar." + owner, pat, "a terminal that can match line breaks must advance the line counter by the number of breaks it matched", "%s:%d" % (g.path, g.lines.get(owner, 0)), {"visitor": vis.short if vis else None})
    if not seen_eol:
        raise AnalysisError("end_of_line is not among the terminals containing a line break")
    has_multi = any(o != "end_of_line" for o, _ in multi)
    # directive visitors report the first line of the statement
    for m in ("visit_statement_directive_with_expression", "visit_statement_directive_without_expression"):
        fn = pt.methods.get(m)
        if fn is None:
            raise AnalysisError("anchor %s missing" % m)
        calls = _canonical_calls(ctx, fn, "on_directive")
        good = len(calls) == 1
        expr = ""
        if good:
            le = kwarg(calls[0], "line_number", 0)
            expr = norm(le) if le is not None else ""
            good = _is_statement_line(ctx, pt, fn, expr, multiline=has_multi)
        ctx.check(good, fn.short, "on_directive(line_number=%s)" % expr, "a directive is attributed to the line it begins on", fn.where())

    ctx.rule("C17.R4", "line counter: starts at 1, +1 per end_of_line, otherwise written only by the sanctioned multi-line terminal visitors; assertion errors carry the directive's line and the definition's path", min_instances=3)
    init = pt.methods["__init__"]
    inits = [norm(st.value) for st in walk_no_nested(init.node) if isinstance(st, ast.Assign) and norm(st.targets[0]) == "self.%s" % a.pl.line_attr]
    ctx.check(inits == ["1"], pt.short + ".__init__", "line counter starts at %s" % inits, "lines are numbered from one", init.where())
    writers: Dict[str, List[str]] = {}
    raw_writers: Set[str] = set()
    for name, fn in pt.methods.items():
        if name == "__init__":
            continue
        if any(isinstance(st, (ast.Assign, ast.AugAssign)) and any(norm(t) == "self.%s" % a.pl.line_attr for t in (st.targets if isinstance(st, ast.Assign) else [st.target])) for st in ast.walk(fn.node)):
            raw_writers.add(name)
        adv = [x for x in _counter_advances(ctx, fn, a.pl.line_attr) if x != "0"]
        if adv:
            writers[name] = adv
    # a private helper that writes the counter is judged through the visitors that call it (their canonical bodies contain it)
    def callers_of(name: str) -> Set[str]:
        return {n2 for n2, m2 in pt.methods.items() if any(isinstance(c.func, ast.Attribute) and c.func.attr == name and norm(c.func.value) == "self" for c in calls_in(m2.node, include_nested=True))}

    helpers = {n for n in raw_writers if not n.startswith("visit_") and n.startswith("_")}
    for hname in sorted(helpers):
        cs = callers_of(hname)
        if cs and cs <= (sanctioned_writers | {"visit_end_of_line"} | helpers):
            writers.pop(hname, None)
    eol = writers.get("visit_end_of_line", [])
    others = {k: v for k, v in writers.items() if k != "visit_end_of_line" and k not in sanctioned_writers}
    ctx.check(eol == ["1"] and not others, pt.short, "writers: %s" % {k: v for k, v in writers.items()}, "the counter advances by exactly one per end_of_line and by the matched breaks of multi-line terminals, nowhere else", pt.module.relpath, {"unexpected_writers": others})
    from ..regions import trivial_property_expr

    e = trivial_property_expr(repo, pt, "current_line_number")
    ctx.check(e is not None and norm(e) == "self.%s" % a.pl.line_attr, pt.short + ".current_line_number", norm(e) if e is not None else "?", "the accessor returns the counter", pt.module.relpath, nontrivial=False)
    b = a.pl.builder
    ad = b.methods.get("_on_assert_directive")
    if ad is None:
        raise AnalysisError("anchor _on_assert_directive missing")
    raises = [r for r in ast.walk(ad.node) if isinstance(r, ast.Raise) and isinstance(r.exc, ast.Call) and (dotted(r.exc.func) or "").endswith("AssertionCheckFailureError")]
    good = len(raises) == 1
    if good:
        kw = {k.arg: norm(k.value) for k in raises[0].exc.keywords}  # type: ignore
        good = kw.get("line") == ad.params[1] and kw.get("path") in ("self._definition.file_path",)
    ctx.check(good, ad.short, "AssertionCheckFailureError(path=self._definition.file_path, line=<directive line>)", "a failed assertion names its own file and line", ad.where())
    od = b.methods["on_directive"]
    call_ok = any(isinstance(n, ast.Call) and norm(n.func) == "handler" and norm(n.args[0]) == od.params[1] for n in ast.walk(od.node))
    ctx.check(call_ok, od.short, "handler(line_number, ...)", "the directive's line reaches its handler unchanged", od.where(), nontrivial=False)


def _handler_binding(fn: FuncInfo, h: ast.AST, want_path: str) -> Optional[bool]:
    """
    Is the (line, text) handler expression `h`, used inside `fn`, bound to the path `want_path`?
    True:  functools.partial(F, want_path);  a lambda / local def taking (line, text) that calls something with want_path
           (directly, or through a parameter whose default is want_path) as the first argument.
    False: a handler that was bound elsewhere and is merely forwarded (a parameter, an attribute of self), or one bound to
           another path.
    None:  not recognisable.
    """
    if isinstance(h, ast.Call) and dotted(h.func) == "functools.partial" and len(h.args) == 2 and not h.keywords:
        return norm(h.args[1]) == want_path
    if isinstance(h, ast.Call) and isinstance(h.func, ast.Name) and len(h.args) >= 1:
        # a local factory: def make(path): def handler(line, text): user(path, line, text); return handler
        facs = [n for n in ast.walk(fn.node) if isinstance(n, ast.FunctionDef) and n.name == h.func.id and n is not fn.node]
        if len(facs) == 1:
            fac = facs[0]
            fparams = [x.arg for x in fac.args.posonlyargs + fac.args.args]
            rets = [r.value for r in ast.walk(fac) if isinstance(r, ast.Return) and r.value is not None]
            inner: Optional[ast.AST] = None
            if len(rets) == 1:
                if isinstance(rets[0], ast.Lambda):
                    inner = rets[0]
                elif isinstance(rets[0], ast.Name):
                    ds = [n for n in ast.walk(fac) if isinstance(n, ast.FunctionDef) and n.name == rets[0].id and n is not fac]
                    inner = ds[0] if len(ds) == 1 else None
            if inner is not None and fparams:
                ia = inner.args  # type: ignore
                free = [x.arg for x in ia.posonlyargs + ia.args][: len(ia.posonlyargs + ia.args) - len(ia.defaults)]
                body = inner.body if isinstance(inner.body, list) else [inner.body]  # type: ignore
                firsts = [norm(c.args[0]) for st in body for c in ast.walk(st) if isinstance(c, ast.Call) and len(c.args) == 3 and [norm(x) for x in c.args[1:]] == free]
                if len(free) == 2 and firsts:
                    bound = dict(zip(fparams, [norm(x) for x in h.args]))
                    return all(bound.get(f0) == want_path for f0 in firsts)
        return None
    target: Optional[ast.AST] = None
    if isinstance(h, ast.Lambda):
        target = h
    elif isinstance(h, ast.Name):
        defs = [n for n in ast.walk(fn.node) if isinstance(n, ast.FunctionDef) and n.name == h.id and n is not fn.node]
        if len(defs) == 1:
            target = defs[0]
        elif not defs:
            return False  # a parameter / outer variable: bound by somebody else, to somebody else's file
        else:
            return None
    elif isinstance(h, ast.Attribute):
        return False  # e.g. self._print_output_handler: already bound to the file this builder works on
    if target is None:
        return None
    a = target.args  # type: ignore
    pos = [x.arg for x in a.posonlyargs + a.args]
    defaults = dict(zip(reversed(pos), reversed([norm(d) for d in a.defaults])))
    free = [x for x in pos if x not in defaults]
    if len(free) != 2:
        return None
    body = target.body if isinstance(target.body, list) else [target.body]  # type: ignore
    firsts = []
    for st in body:
        for c in ast.walk(st):
            if isinstance(c, ast.Call) and len(c.args) == 3 and [norm(x) for x in c.args[1:]] == free:
                f0 = norm(c.args[0])
                firsts.append(defaults.get(f0, f0))
    if not firsts:
        return None
    return all(f == want_path for f in firsts)


def rule_r5_r6(ctx: Ctx) -> None:
    repo = ctx.repo
    ctx.rule("C17.R5", "the print handler passed to X.read(...) is bound to X's own file path", min_instances=2)
    # every call of `.read(` with a print handler argument
    n = 0
    for fn in repo.all_functions().values():
        if fn.module.name.startswith("pydsdl._serdes"):
            continue
        for c in calls_in(fn.node):
            if not (isinstance(c.func, ast.Attribute) and c.func.attr == "read"):
                continue
            h = kwarg(c, "print_output_handler", 2)
            if h is None:
                continue
            n += 1
            recv = norm(c.func.value)
            why = norm(h)
            verdict = _handler_binding(fn, h, "%s.file_path" % recv)
            if verdict is None:
                raise AnalysisError("C17.R5: %s: cannot tell which path the print handler %s is bound to" % (fn.qualname, why))
            ctx.check(verdict, fn.short, "%s.read(print_output_handler=%s)" % (recv, why), "a dependency read on demand must deliver its @print output with the dependency's own path, not the referrer's", fn.where(c))
    if n < 2:
        raise AnalysisError("C17.R5: expected at least the two read() call sites that forward a print handler, found %d" % n)
    ctx.rule("C17.R6", "@print invokes the handler exactly once per evaluated directive, with the directive's line", min_instances=1)
    b = ctx.cls("_data_type_builder.DataTypeBuilder")
    pd = b.methods.get("_on_print_directive")
    if pd is None:
        raise AnalysisError("anchor _on_print_directive missing")
    bad = []
    for p in paths_of(pd.node):
        if p.kind == "raise":
            continue
        calls = [ev for ev in p.events if isinstance(ev, ast.Call) and norm(ev.func) == "self._print_output_handler"]
        if len(calls) != 1 or norm(calls[0].args[0]) != pd.params[1]:
            bad.append({"path": repr(p)[:100], "calls": [norm(c) for c in calls]})
    ctx.check(not bad, pd.short, "one handler call per path, first argument = the directive's line", "each evaluated @print is delivered exactly once", pd.where(), bad)
    nsr = ctx.func("_namespace_reader._read_definitions")
    # the wrapper around the user's handler: the one local function (at any nesting) that calls it; it forwards (file, line,
    # message) once, the line and message being its own last two parameters and the file a parameter of it or of its factory
    user = next((p_ for p_ in nsr.params if "print" in p_ and "handler" in p_), None)
    if user is None:
        raise AnalysisError("_read_definitions: the user's print handler parameter was not found")
    wrappers = []
    for n in ast.walk(nsr.node):
        if isinstance(n, (ast.FunctionDef, ast.Lambda)) and n is not nsr.node:
            own_calls = [c for c in _calls_not_in_nested(n) if norm(c.func) == user]
            if own_calls:
                wrappers.append((n, own_calls))
    good = len(wrappers) == 1
    if good:
        w, cs = wrappers[0]
        params = [x.arg for x in w.args.posonlyargs + w.args.args]
        outer_params = {x.arg for f2 in ast.walk(nsr.node) if isinstance(f2, ast.FunctionDef) and f2 is not nsr.node and any(y is w for y in ast.walk(f2)) for x in f2.args.posonlyargs + f2.args.args}
        good = len(cs) == 1 and len(cs[0].args) == 3 and not cs[0].keywords and len(params) >= 2 and [norm(x) for x in cs[0].args[1:]] == params[-2:] and norm(cs[0].args[0]) in (set(params[:-2]) | outer_params)
    ctx.check(good, nsr.short + " (print wrapper)", "forwards (file, line, message) once", "the wrapper forwards each message once, unchanged", nsr.where(), nontrivial=False)


def _calls_not_in_nested(fn: ast.AST) -> List[ast.Call]:
    out: List[ast.Call] = []
    stack = list(ast.iter_child_nodes(fn))
    while stack:
        n = stack.pop()
        if isinstance(n, (ast.FunctionDef, ast.Lambda)):
            continue
        if isinstance(n, ast.Call):
            out.append(n)
        stack.extend(ast.iter_child_nodes(n))
    return out


def run(ctx: Ctx) -> None:
    a = Automaton(ctx)
    a.explore()
    ctx.analysed["automaton"] = {"states": len(a.states_seen), "transitions": a.transitions, "commit_executions": len(a.commits)}
    ctx.attempt(rule_r1, ctx)
    ctx.attempt(rule_r7, ctx)
    ctx.attempt(rule_r2, ctx, a)
    ctx.attempt(rule_r3_r4, ctx, a)
    ctx.attempt(rule_r5_r6, ctx)
    ctx.assume("a definition is evaluated once (result cached, C09.R4), so each @print is met once")
    ctx.assume("errors raised while a statement is still being evaluated are stamped with the parser's current line, which lies within the statement")
