"""
C17 -- Errors and @print output are attributed to the right file and line.

R1  location injection: each handler on the propagation path stamps its *own* context (parse: the current line;
    DSDLDefinition.read: its own file; _read_definitions: the target's file) and re-raises the same object; the setter
    fills unknown fields only (so the innermost - i.e. the dependency's - location wins).
R2  deferred work is attributed at queue time: in the extracted parser x builder automaton every execution of a pending
    attribute callback happens on the line it was queued on, or inside a handler that re-attributes the error to a line
    captured when it was queued; the captured line is written exactly by the visitors that queue.
R3  only end_of_line consumes line breaks: a grammar terminal whose language contains a line break is end_of_line (one
    break per match) or has a visitor that advances the counter by the breaks matched; statements that can span lines
    report the line they begin on.
R4  line counter discipline: initial value 1, written only by visit_end_of_line (+1) and the visitors of R3; directive
    visitors pass the statement's line to on_directive; the assertion error carries that line and the definition's path.
R5  the print handler handed to X.read(...) is bound to X's own path.
R6  @print delivers exactly once per evaluated directive.
"""
from __future__ import annotations

import ast
from typing import Any, Dict, List, Optional, Set, Tuple

from .. import rx
from ..core import AnalysisError, ClassInfo, Ctx, FuncInfo, body_without_docstring, calls_in, dotted, kwarg, norm, walk_no_nested
from ..decide import A, f_eval, path_formula, paths_of, valuations
from ..fold import Sym
from ..peg import Grammar


def _handlers_for(ctx: Ctx, fn: FuncInfo, cls_name: str) -> List[Tuple[ast.Try, ast.ExceptHandler]]:
    """handlers for `cls_name` in fn - private helpers expanded, local functions included"""
    out = []
    node = ctx.inl(fn)
    for tr in [n for n in ast.walk(node) if isinstance(n, ast.Try)]:
        for h in tr.handlers:
            ts = h.type.elts if isinstance(h.type, ast.Tuple) else ([h.type] if h.type is not None else [])
            for t in ts:
                k = ctx.repo.resolve_expr(fn.module, t, fn.cls)
                if isinstance(k, ClassInfo) and k.name == cls_name:
                    out.append((tr, h))
    return out


def _handler_keywords(h: ast.ExceptHandler) -> List[Dict[str, str]]:
    """keyword arguments of ex.set_error_location_if_unknown(...) in the handler, handler-local temporaries substituted"""
    from ..decide import substitute

    env: Dict[str, ast.AST] = {}
    out = []
    for st in h.body:
        if isinstance(st, ast.Assign) and len(st.targets) == 1 and isinstance(st.targets[0], ast.Name):
            env[st.targets[0].id] = substitute(st.value, env)
            continue
        for c in ast.walk(st):
            if isinstance(c, ast.Call) and isinstance(c.func, ast.Attribute) and c.func.attr == "set_error_location_if_unknown" and norm(c.func.value) == h.name:
                out.append({k.arg: norm(substitute(k.value, env)) for k in c.keywords if k.arg})
    return out


def rule_r1(ctx: Ctx) -> None:
    """location injection, observed: on the repository's own Error class and on the reading pipeline over abstract worlds"""
    from ..absint import AExc, APath, Raised, construct, ctor_hook
    from ..fold import Folder, Unfoldable
    from . import reader_common as R

    ctx.rule("C17.R1", "location injection: every Error handler on the propagation path stamps its own context and re-raises the same object; the setter only fills unknown fields", min_instances=3)
    err = ctx.cls("_error.Error")
    st = ctx.repo.lookup_method(err, "set_error_location_if_unknown")
    if st is None:
        raise AnalysisError("anchor Error.set_error_location_if_unknown missing")
    hook = ctor_hook(ctx, None)
    bad = []
    P0, P1 = APath("/known/A.1.0.dsdl"), APath("/given/B.1.0.dsdl")
    for p0 in (None, P0):
        for l0 in (None, 11):
            for ap in (None, P1):
                for al in (None, 22):
                    try:
                        ex = construct(ctx, err, "text", p0, l0, hook=hook)
                        f = Folder({"e": ex, "p": ap, "l": al}, ctx.repo, err.module, err, hook)
                        f.fold(ast.parse("e.set_error_location_if_unknown(path=p, line=l)", mode="eval").body)
                        got = (f.fold(ast.parse("e.path", mode="eval").body), f.fold(ast.parse("e.line", mode="eval").body))
                    except (Raised, Unfoldable) as exn:
                        raise AnalysisError("Error.set_error_location_if_unknown: cannot evaluate: %s" % exn)
                    ctx.count()
                    want = (p0 if p0 is not None else ap, l0 if l0 is not None else al)
                    if got != want:
                        bad.append({"known": (str(p0), l0), "given": (str(ap), al), "after": (str(got[0]), got[1]), "expected": (str(want[0]), want[1])})
    ctx.check(not bad, st.short, "fills unknown path / line only (16 states)", "a location that is already known (set closer to the fault) is never overwritten", st.where(), bad[:4])

    # DSDLDefinition.read: a fault of the definition itself (no location yet) leaves with the definition's own path, same object
    rd = ctx.func("_dsdl_definition.DSDLDefinition.read")
    own = R.own_definition(ctx, "ns.sub.T", 1, 2)
    w0 = R.World()
    o = R.read_own(ctx, own, [R.ADef(w0, "zz.First", 1, 0), R.ADef(w0, "ns.sub.U", 1, 0)], parse_fails=1)
    ctx.count()
    exc = o.get("exc")
    good = o["raised"] == "DSDLSyntaxError" and exc is not None and str(getattr(exc, "path", None)) == "/w/ns/sub/T.1.2.dsdl"
    ctx.check(good, rd.short, "a fault of the definition leaves with the definition's own path", "the handler stamps the context of the file being processed and re-raises the same exception", rd.where(), {"raised": o["raised"], "path": str(getattr(exc, "path", None))})

    # ... wherever in the read the fault is found: while the builder is set up, while the text is processed, and when the type
    # is assembled at the end (missing @sealed / @extent, a union with one variant, a port-ID outside the regulated range)
    stage_bad = []
    for stage in ("parse", "finalize"):  # (setting up the builder evaluates nothing of the definition: it cannot find a fault)
        for cls_ in ("InvalidDefinitionError", "DSDLSyntaxError"):
            own2 = R.own_definition(ctx, "ns.sub.T", 1, 2)
            w2 = R.World()
            o2 = R.read_own(ctx, own2, [R.ADef(w2, "ns.sub.U", 1, 0)], fail_stage=stage, fail_cls=cls_)
            ctx.count()
            exc2 = o2.get("exc")
            if o2["raised"] != cls_ or exc2 is None or str(getattr(exc2, "path", None)) != "/w/ns/sub/T.1.2.dsdl":
                stage_bad.append({"fault found while": stage, "class": cls_, "left as": o2["raised"], "path": str(getattr(exc2, "path", None)), "expected path": "/w/ns/sub/T.1.2.dsdl"})
    ctx.check(not stage_bad, rd.short, "a fault found at any stage of the read (statements, final assembly) leaves with the definition's own path", "the error's path is the file containing the fault - also for a fault that only shows when the type is assembled, and also when the definition is read as somebody's dependency", rd.where(), stage_bad[:3])

    # the namespace reader: the same for every target, and an error that already names a file keeps it
    nsr = ctx.func("_namespace_reader.read_definitions")
    bad = []
    for preset in (None, "/deps/Other.1.0.dsdl"):
        w = R.World()
        B = R.ADef(w, "ns.B", 1, 0, fail="UndefinedDataTypeError")
        A = R.ADef(w, "ns.A", 1, 0)
        out = None
        for targets in ([B], [A, B]):
            for d in w.defs:
                d.__dict__["composite_type"] = None
            # the fault is planted in B; when it already names a file (it came from a dependency of B), that file wins
            orig_read = B.read

            def failing(*a: Any, _orig: Any = orig_read, **k: Any) -> Any:
                try:
                    return _orig(*a, **k)
                except Raised as r:
                    if preset is not None:
                        r.exc.path = APath(preset)  # type: ignore
                    raise

            B.__dict__["read"] = failing
            out = R.run_reader(ctx, targets, [A, B])
            ctx.count()
            exc = out.get("exc")
            want_path = preset or str(B.file_path)
            if out["raised"] != "UndefinedDataTypeError" or exc is None or exc is not B.__dict__.get("raised_exc") or str(getattr(exc, "path", None)) != want_path:
                bad.append({"targets": [t.label for t in targets], "fault names the file": preset, "left as": out["raised"], "path": str(getattr(exc, "path", None)), "same object": exc is B.__dict__.get("raised_exc"), "expected path": want_path})
    ctx.check(not bad, nsr.short, "a fault in a target leaves with the target's path (or the file it already names), unchanged otherwise", "the handler stamps the context of the file being processed and re-raises the same exception", nsr.where(), bad[:3])
    from ..regions import trivial_property_expr  # noqa: F401


class _Tok(Sym):
    """an opaque, truthy context value (`pr.current_line_number`, `self.file_path`, ...): named by how it was reached"""

    def __init__(self, name: str):
        super().__init__()
        self.__dict__["_name"] = name

    def __getattr__(self, a: str) -> Any:
        if a.startswith("__"):
            raise AttributeError(a)
        return _Tok(self._name + "." + a)

    def __repr__(self) -> str:
        return "<%s>" % self._name


def rule_r7(ctx: Ctx) -> None:
    """composition of the location stamps along the propagation path, on the repository's own Error class"""
    from ..absint import Evaluator, Raised, construct, ctor_hook
    from ..fold import Folder, Unfoldable

    ctx.rule("C17.R7", "a line is stamped only on an error whose file is not yet known (an error that arrives with the path of another file - a dependency - never gets a line of this file); a path is stamped only when unknown; a known line is never changed", min_instances=2)
    err = ctx.cls("_error.Error")
    OTHER = "/deps/Other.1.0.dsdl"
    n = 0
    seen: Set[Tuple[str, int]] = set()
    any_line = any_path = False
    for mod_name in sorted(ctx.repo.modules):
        mod = ctx.repo.modules[mod_name]
        fns = list(mod.functions.values()) + [m for c in mod.classes.values() for m in c.methods.values()]
        # a handler is reported once, at the function that lexically contains it (helpers are expanded into their callers)
        fns.sort(key=lambda f: 0 if any(isinstance(x, ast.ExceptHandler) for x in ast.walk(f.node)) else 1)
        for fn in fns:
            for tr, h in _handlers_for(ctx, fn, "Error"):
                if (mod.relpath, h.lineno) in seen:
                    continue
                own = any(isinstance(x, ast.ExceptHandler) and x.lineno == h.lineno for x in ast.walk(fn.node))
                if not own and any(any(isinstance(x, ast.ExceptHandler) and x.lineno == h.lineno for x in ast.walk(g.node)) for g in fns):
                    continue
                seen.add((mod.relpath, h.lineno))
                def stamps(body: Any, depth: int = 0) -> bool:
                    """the body stamps a location - itself, or through a function of the package it hands the error to"""
                    for s_ in body:
                        for c in ast.walk(s_):
                            if isinstance(c, ast.Call) and isinstance(c.func, ast.Attribute) and c.func.attr == "set_error_location_if_unknown":
                                return True
                            if isinstance(c, ast.Call) and depth < 2 and isinstance(c.func, (ast.Name, ast.Attribute)):
                                try:
                                    r_ = ctx.repo.resolve_expr(fn.module, c.func, fn.cls)
                                except Exception:
                                    r_ = None
                                if type(r_).__name__ == "FuncInfo" and stamps(r_.node.body, depth + 1):
                                    return True
                    return False

                if not h.name or not stamps(h.body):
                    continue
                results = {}
                for label, (p0, l0) in {"fresh": (None, None), "from another file, no line": (OTHER, None), "from another file, with line": (OTHER, 7), "line known, file not yet": (None, 3)}.items():
                    ex = construct(ctx, err, "text", p0, l0, hook=ctor_hook(ctx, None))
                    env: Dict[str, Any] = {h.name: ex}
                    for nm in {x.id for s_ in h.body for x in ast.walk(s_) if isinstance(x, ast.Name)} - {h.name}:
                        if ctx.repo.module_member(fn.module.name, nm) is not None:
                            continue  # a function / class / constant of the module: it means what it means there
                        env[nm] = _Tok(nm)
                    try:
                        Evaluator(env, ctx.repo, fn.module, fn.cls, ctor_hook(ctx, None)).run(list(h.body))
                    except Raised:
                        pass
                    except Unfoldable as exn:
                        raise AnalysisError("%s: cannot evaluate the handler over an abstract error: %s" % (fn.short, exn))
                    f = Folder({"e": ex}, ctx.repo, err.module, err, ctor_hook(ctx, None))
                    results[label] = (f.fold(ast.parse("e.path", mode="eval").body), f.fold(ast.parse("e.line", mode="eval").body))
                    ctx.count()
                bad = []
                fp, fl = results["fresh"]
                stamps_line, stamps_path = fl is not None, fp is not None
                op, ol = results["from another file, no line"]
                if op != OTHER:
                    bad.append({"incoming": "path of another file, no line", "path after": repr(op)})
                if ol is not None:
                    bad.append({"incoming": "path of another file (a dependency), no line", "line after": repr(ol), "expected": "still unknown: the line of this file means nothing in the other file"})
                if results["from another file, with line"] != (OTHER, 7):
                    bad.append({"incoming": "path and line of another file", "after": repr(results["from another file, with line"])})
                if results["line known, file not yet"][1] != 3:
                    bad.append({"incoming": "line 3, no path", "line after": repr(results["line known, file not yet"][1])})
                n += 1
                any_line, any_path = any_line or stamps_line, any_path or stamps_path
                ctx.check(not bad, fn.short, "handler stamping %s" % " and ".join(x for x, y in (("the line", stamps_line), ("the path", stamps_path)) if y), "the (path, line) pair of an error always refers to one file: a stamp never completes the location of another file with a value from this one", "%s:%d" % (fn.module.relpath, h.lineno), bad)
    if not (any_line and any_path):
        # (how many handlers there are is the repository's business - one shared helper or one per reader; that a line is
        # stamped somewhere and a path somewhere is what the rule needs to have something to decide)
        raise AnalysisError("%d location-stamping handlers found, %s" % (n, "none stamps a line" if not any_line else "none stamps a path"))



def _multiline_terminals(g: Grammar) -> List[Tuple[str, str]]:
    """(owner rule, pattern) of every terminal whose language contains a line break"""
    alpha = list("a'\"\\#\r\n \t") + [rx.OTHER]
    out = []

    def rec(owner: str, n: Any) -> None:
        t = n[0]
        if t == "re":
            try:
                if rx.uses_char(n[1], "\n", alpha):
                    out.append((owner, n[1]))
            except rx.RxUnsupported as ex:
                raise AnalysisError("grammar terminal %s: %s" % (owner, ex))
        elif t == "lit":
            if "\n" in n[1]:
                out.append((owner, n[1]))
        elif t in ("seq", "alt"):
            for x in n[1]:
                rec(owner, x)
        elif t in ("opt", "star", "plus", "not", "and"):
            rec(owner, n[1])

    for name, node in g.rules.items():
        rec(name, node)
    return out


def rule_r3(ctx: Ctx) -> None:
    """every grammar terminal that can match a line break keeps the line counter in step: its visitor, evaluated on a node
    whose text holds k line breaks, advances the parser's current line by exactly k (end_of_line: by one)"""
    from ..absint import Raised
    from ..fold import Folder, Unfoldable
    from .parser_common import ParserModel, node

    g = Grammar.load(ctx.repo)
    ctx.rule("C17.R3", "only end_of_line consumes line breaks, or the terminal's visitor advances the counter by the breaks it matched; the counter starts at one", min_instances=3)
    pm = ParserModel(ctx, g)
    multi = _multiline_terminals(g)
    ctx.analysed["C17.R3.multiline_terminals"] = multi
    seen_eol = False

    def line_of(me: Any, hook: Any) -> Any:
        return Folder({"p": me}, ctx.repo, pm.pt.module, pm.pt, hook).fold(ast.parse("p.current_line_number", mode="eval").body)

    for owner, pat in multi:
        if owner == "end_of_line":
            alpha = list("a\r\n ") + [rx.OTHER]
            same, x, y = rx.equivalent(rx.compile_dfa(pat, alpha, "fullmatch"), rx.compile_dfa(r"\r?\n", alpha, "fullmatch"))
            ctx.check(same, "grammar.end_of_line", pat, "end_of_line matches exactly one line break", g.path, {"extra": x, "missing": y})
            seen_eol = True
        # texts of the terminal's language with k line breaks
        samples = {"end_of_line": [("\n", 1), ("\r\n", 1)]}.get(owner)
        if samples is None:
            q = "'" if "'" in pat else ('"' if '"' in pat else "")
            samples = [(q + body + q, body.count("\n")) for body in ("ab", "a\nb", "\n\n\n", "a\r\nb\n", "a\x0cb", "\x0b\x1c\x1d\x1e\x85", "\u2028\u2029", "a\x0c\nb\u2028\n", "a\rb")]
        bad = []
        for text, k in samples:
            me, b_, run_, hook = pm.fresh()

            def lit_hook(e: ast.expr, f: Any, hook: Any = hook) -> Any:
                if isinstance(e, ast.Call) and (dotted(e.func) or "").split(".")[-1] == "_parse_string_literal":
                    return Sym(_kind_="String", _isa_=frozenset({"Any", "String"}))
                return hook(e, f)

            try:
                before = line_of(me, hook)
                pm.visit(me, lit_hook, owner, node(text), [])
                after = line_of(me, hook)
            except (Raised, Unfoldable) as ex:
                raise AnalysisError("visit_%s on a node of %d line breaks: cannot evaluate: %s" % (owner, k, ex))
            ctx.count()
            if before != 1 and not bad:
                bad.append({"the counter starts at": before})
            if after - before != k:
                bad.append({"text": text, "line breaks": k, "counter advanced by": after - before})
        ctx.check(not bad, "grammar." + owner, pat, "a terminal that can match line breaks must advance the line counter by the number of breaks it matched (lines are numbered from one)", "%s:%d" % (g.path, g.lines.get(owner, 0)), bad[:3])
    if not seen_eol:
        raise AnalysisError("end_of_line is not among the terminals containing a line break")


def rule_r5_r6(ctx: Ctx) -> None:
    """print delivery observed on the reader model (reader_common) and the document model (parser_common)"""
    from ..absint import Recorder
    from . import reader_common as R

    ctx.rule("C17.R5", "the print handler passed to X.read(...) is bound to X's own file path", min_instances=2)
    # (a) the namespace reader: every definition it reads gets a handler that delivers with that definition's own path
    w = R.World()
    C = R.ADef(w, "ns.C", 1, 0)
    Bd = R.ADef(w, "ns.B", 1, 0, deps=[C])
    A = R.ADef(w, "ns.A", 1, 1, deps=[Bd])
    X = R.ADef(w, "other.X", 1, 0)
    user = Recorder("user-print-handler")
    out = R.run_reader(ctx, [A, X], [A, Bd, C, X], handler=user)
    if out["raised"]:
        raise AnalysisError("read_definitions over the abstract world raised %s" % out["raised"])
    nsr = ctx.func("_namespace_reader.read_definitions")
    bad = []
    ext = w.__dict__.get("external_reads", [])
    for d, h in ext:
        del user.log[:]
        if h is None:
            bad.append({"definition": d.label, "handler": None})
            continue
        try:
            from ..fold import Folder as _F, call_value as _cv

            _cv(_F({}, ctx.repo, nsr.module, None, R._hook(ctx, nsr.module, [])), h, [41, "probe"])
        except Exception as ex:  # the handler is a value of the evaluated program
            raise AnalysisError("the print handler given to %s.read cannot be evaluated: %s" % (d.label, ex))
        got = [(str(a[0]), a[1], a[2]) for _, a, _ in user.log]
        ctx.count()
        if got != [(str(d.file_path), 41, "probe")]:
            bad.append({"definition read": d.label, "a print on line 41 is delivered as": got, "expected": [(str(d.file_path), 41, "probe")]})
    if len(ext) < 2:
        raise AnalysisError("the namespace reader read %d definitions of the abstract world, expected at least the two targets" % len(ext))
    ctx.check(not bad, nsr.short, "every definition read by the namespace reader prints under its own path (%d reads)" % len(ext), "a print is delivered once, with the path of the file being read, the directive's line and text", nsr.where(), bad[:3])
    # without a user handler nothing is delivered and nothing fails
    w2 = R.World()
    A2 = R.ADef(w2, "ns.A", 1, 0)
    A2.__dict__["prints"] = True
    o2 = R.run_reader(ctx, [A2], [A2], handler=None)
    ctx.check(o2["raised"] is None, nsr.short, "no user handler: prints are dropped", "print output is optional", nsr.where(), o2["raised"], nontrivial=False)
    # (b) a dependency read on demand by the builder
    rv = ctx.func("_data_type_builder.DataTypeBuilder.resolve_versioned_data_type")
    w3 = R.World()
    A3 = R.ADef(w3, "ns.A", 1, 0)
    B3 = R.ADef(w3, "ns.B", 1, 0)
    o3 = R.resolve(ctx, A3, [A3, B3], "ns.B", 1, 0)
    if o3["raised"]:
        raise AnalysisError("resolve_versioned_data_type over the abstract world raised %s" % o3["raised"])
    reads = [e for e in w3.log if e[0] == "read" and e[1] is B3]
    ctx.count()
    own = bool(reads) and all(e[4] is not o3["handler"] for e in reads)
    ctx.check(own, rv.short, "target_definition.read(print_output_handler=self._print_output_handler)", "a dependency read on demand must deliver its @print output with the dependency's own path, not the referrer's", rv.where(), "the dependency is read with the referring definition's own (line, text) handler, which is bound to the referrer's path")

    ctx.rule("C17.R6", "@print invokes the handler exactly once per evaluated directive, with the directive's line", min_instances=1)
    from .parser_common import Line, ParserModel, parse_lines

    pm = ParserModel(ctx)
    bad = []
    for prefix in ([], [Line("B")], [Line("C", comment=" c"), Line("W")], [Line("F", "a"), Line("C", comment=" d"), Line("B")]):
        for pr in (Line("X", directive="print", value=("Rational", 7)), Line("D", directive="print"), Line("X", directive="print", value=("String", "form\x0cfeed\x0b\x1c\x85\u2028\u2029")), Line("X", directive="print", value=("String", "raw\nbreak\x0c"))):
            lines = [Line("D")] + prefix + [pr, Line("F", "z")]
            r = parse_lines(pm, lines, True)
            ctx.count()
            want_line = len(prefix) + 2
            if r.raised or [a[0] for a in r.prints] != [want_line]:
                bad.append({"text": "\n".join(repr(l) for l in lines), "delivered": r.prints, "raised": r.raised, "expected line": want_line})
    pd = ctx.cls("_data_type_builder.DataTypeBuilder")
    ctx.check(not bad, pd.short, "one delivery per @print, with the directive's own line", "each evaluated @print is delivered exactly once", pd.module.relpath, bad[:3])


def rule_r8(ctx: Ctx) -> None:
    """where faults are reported: the repository's parse() evaluated over abstract texts with a fault planted in one statement"""
    from .parser_common import Line, ParserModel, parse_lines, text_of

    ctx.rule("C17.R8", "a fault is reported at the line of the statement it lies in - also when the statement is committed lazily several lines further down, when it follows blank / comment lines or a multi-line string literal, and however the text ends", min_instances=3)
    pm = ParserModel(ctx)
    prefixes = [[], [Line("B")], [Line("C", comment=" c")], [Line("W"), Line("B")], [Line("F", "ok")], [Line("F", "ok", comment=" t"), Line("C", comment=" d")], [Line("X", directive="print", value=("String", "two\nlines"))], [Line("X", directive="print", value=("String", "form\x0cfeed\u2028sep"))], [Line("P")], [Line("K", "ok")]]
    suffixes = [
        [], [Line("C", comment=" doc")], [Line("C", comment=" doc"), Line("C", comment=" more")], [Line("B")], [Line("W")], [Line("C", comment=" doc"), Line("B"), Line("B")],
        # every kind of statement that can follow directly (it is the one that makes the pending attribute commit)
        [Line("F", "next")], [Line("K", "next")], [Line("P")], [Line("D", directive="print")], [Line("X", directive="print", value=("Rational", 1))], [Line("X", directive="assert", value=("Boolean", True))],
        [Line("C", comment=" doc"), Line("P")], [Line("C", comment=" doc"), Line("K", "next")], [Line("B"), Line("B"), Line("K", "later")],
    ]
    bad_lazy, bad_now = [], []
    n = 0
    for pre in prefixes:
        extra = sum(repr(l).count("\n") for l in pre)  # physical lines taken by multi-line statements
        for kind in ("F", "K"):
            for suf in suffixes:
                for final_eol in (False, True):
                    lines = [Line("D")] + pre + [Line(kind, "bad")] + suf
                    r = parse_lines(pm, lines, final_eol, faulty=["bad"])
                    n += 1
                    ctx.count()
                    want = 1 + len(pre) + extra + 1
                    if r.raised != "InvalidConstantValueError" or getattr(r, "error_line", None) != want:
                        bad_lazy.append({"text": text_of(lines, final_eol), "fault in": "the attribute `bad` on line %d" % want, "reported": "%s at line %s" % (r.raised, getattr(r, "error_line", None))})
        # faults raised while the statement itself is being visited
        for lines, cls_name in (([Line("D")] + pre + [Line("X", directive="assert", value=("Boolean", False))], "AssertionCheckFailureError"), ([Line("D")] + pre + [Line("D", directive="bogus")], "InvalidDirectiveError"), ([Line("D")] + pre + [Line("D", directive="sealed")], "InvalidDirectiveError"), ([Line("D")] + pre + [Line("T", "x")], "InvalidBitLengthError"), ([Line("D")] + pre + [Line("T", "x"), Line("C", comment=" after")], "InvalidBitLengthError")):
            r = parse_lines(pm, lines, True)
            ctx.count()
            want = 1 + len(pre) + extra + 1
            if r.raised != cls_name or getattr(r, "error_line", None) != want:
                bad_now.append({"text": text_of(lines, True), "fault on line": want, "reported": "%s at line %s" % (r.raised, getattr(r, "error_line", None))})
    ctx.check(not bad_lazy, "_parser.parse x _data_type_builder.DataTypeBuilder", "faulty attribute committed later: %d abstract texts" % n, "an error raised by the lazily committed attribute must carry the attribute's own line, not the line reached by the parser", "pydsdl/_parser.py", bad_lazy[:3])
    ctx.check(not bad_now, "_parser.parse x _data_type_builder.DataTypeBuilder", "faulty directive: reported on its own line", "a fault met while a statement is evaluated is attributed to the line the statement begins on", "pydsdl/_parser.py", bad_now[:3])
    # the failed assertion also names the definition's file
    r = parse_lines(pm, [Line("D"), Line("X", directive="assert", value=("Boolean", False))], True)
    ctx.check(r.raised == "AssertionCheckFailureError" and str(getattr(r, "error_path", None)) == "/root/ns/sub/T.1.2.dsdl", "_data_type_builder.DataTypeBuilder", "a failed assertion names its own file and line", "the assertion error carries the path of the definition being built", "pydsdl/_data_type_builder.py", str(getattr(r, "error_path", None)), nontrivial=False)


def run(ctx: Ctx) -> None:
    ctx.attempt(rule_r1, ctx)
    ctx.attempt(rule_r7, ctx)
    ctx.attempt(rule_r8, ctx)
    ctx.attempt(rule_r5_r6, ctx)
    ctx.attempt(rule_r3, ctx)
    from . import c17text

    c17text.run(ctx)
    ctx.assume("a definition is evaluated once (result cached, C09.R4), so each @print is met once")
    ctx.assume("errors raised while a statement is still being evaluated are stamped with the parser's current line, which lies within the statement")
