"""
C08 -- Field offsets and in-language layout intrinsics equal the real bit positions.

R1  offset traces of the four iterators, as terms of the bit-length-set algebra: structure = pad(base, SELF.align) then per
    field pad(F.align), YIELD, + bls(F); union = pad(base, SELF.align) + tag, the same offset for every variant; delimited =
    base + header then the inner iterator; fixed array = pad(base, SELF.align), element i at base + repeat(elem, i).
    Cross-check: the per-field step composed over a field equals the structure aggregation step of the layout model.
R2  every field / element exactly once, in order: one unconditional yield per iteration, no filtering.
R3  intrinsics: `_offset_` = aggregate of the fields so far, selected by the same union predicate as the final type, without
    the final padding; `_bit_length_` = bit_length_set; `_extent_` = extent; every _attribute override falls back to super();
    a union rejects fields after its offset was computed.
"""
from __future__ import annotations

import ast
from typing import Any, Dict, List, Optional, Tuple

from ..core import AnalysisError, ClassInfo, Ctx, FuncInfo, body_without_docstring, calls_in, dotted, norm, walk_no_nested
from ..layout import NotLayout, bls_term, term_str
from ..regions import inline_properties, trivial_property_expr

SER = "_serializable."


def iterator_trace(ctx: Ctx, cls: ClassInfo, fn: FuncInfo) -> List[str]:
    """assignments to bit-length-set accumulators, loops and yields of an offset iterator, in order"""
    base = fn.params[1]
    accs = {base}
    for st in ast.walk(fn.node):
        if isinstance(st, ast.Assign) and isinstance(st.targets[0], ast.Name):
            accs.add(st.targets[0].id)

    def term(e: ast.AST) -> str:
        e2 = inline_properties(ctx.repo, cls, e)
        return term_str(bls_term(e2, lambda n: n in accs))

    def walk(stmts: List[ast.stmt]) -> List[str]:
        out: List[str] = []
        for st in stmts:
            if isinstance(st, ast.Assign) and isinstance(st.targets[0], ast.Name):
                try:
                    out.append("%s = %s" % (st.targets[0].id, term(st.value)))
                except NotLayout:
                    out.append("%s = ?%s" % (st.targets[0].id, norm(st.value)))
            elif isinstance(st, ast.For):
                it = norm(inline_properties(ctx.repo, cls, st.iter))
                out.append("FOR %s in %s [%s]" % (norm(st.target), it, "; ".join(walk(st.body))))
            elif isinstance(st, ast.Expr) and isinstance(st.value, ast.Yield):
                v = st.value.value
                if isinstance(v, ast.Tuple) and len(v.elts) == 2:
                    out.append("YIELD(%s, %s)" % (norm(v.elts[0]), norm(v.elts[1])))
                else:
                    out.append("YIELD(?%s)" % norm(v))
            elif isinstance(st, ast.Return) and st.value is not None:
                out.append("RETURN %s" % norm(inline_properties(ctx.repo, cls, st.value)))
            elif isinstance(st, (ast.Assert, ast.Pass)):
                continue
            elif isinstance(st, ast.Expr) and isinstance(st.value, ast.Constant):
                continue
            elif isinstance(st, ast.If):
                out.append("IF %s [%s] [%s]" % (norm(st.test), "; ".join(walk(st.body)), "; ".join(walk(st.orelse))))
            elif isinstance(st, ast.Raise):
                out.append("RAISE")
            else:
                out.append("?%s" % type(st).__name__)
        return out

    return walk(body_without_docstring(fn.node))


def rule_r1_r2(ctx: Ctx) -> None:
    repo = ctx.repo
    ctx.rule("C08.R1", "offset iterators: base padded to the type's alignment, then fields at the positions the layout model and the encoder give them", min_instances=5)
    ctx.rule("C08.R2", "every field / element is yielded exactly once per loop iteration, in order, unconditionally", min_instances=3)
    st = ctx.cls(SER + "_composite.StructureType")
    fn = st.methods.get("iterate_fields_with_offsets")
    if fn is None:
        raise AnalysisError("anchor StructureType.iterate_fields_with_offsets missing")
    b = fn.params[1]
    tr = iterator_trace(ctx, st, fn)
    want = [
        "offset = pad(var(%s), self.alignment_requirement)" % b,
        "FOR f in self.fields [offset = pad(var(offset), f.data_type.alignment_requirement); YIELD(f, offset); offset = cat(var(offset), bls(f.data_type))]",
    ]
    ctx.check(tr == want, fn.short, " | ".join(tr), "a structure's field starts after padding the running offset to the field's alignment; the next offset adds the field's length set", fn.where(), {"expected": want}, rule="C08.R1")
    ctx.check(sum(x.count("YIELD(") for x in tr) == 1 and "IF" not in " ".join(tr), fn.short, "one unconditional yield per field", "no field may be skipped or repeated", fn.where(), rule="C08.R2")
    # cross-check with the aggregation step of the layout model: pad + add over one field
    agg = st.methods.get("aggregate_bit_length_sets")
    agg_src = norm(agg.node) if agg else ""
    ctx.check("bls = bls.pad_to_alignment(t.alignment_requirement) + t.bit_length_set" in agg_src, st.short, "iterator step == aggregation step (pad to the field's alignment, then add its set)", "the offsets handed to code generators and the length model are the same computation", st.module.relpath, rule="C08.R1")

    un = ctx.cls(SER + "_composite.UnionType")
    fn = un.methods.get("iterate_fields_with_offsets")
    if fn is None:
        raise AnalysisError("anchor UnionType.iterate_fields_with_offsets missing")
    b = fn.params[1]
    tr = iterator_trace(ctx, un, fn)
    want = ["offset = cat(pad(var(%s), self.alignment_requirement), leaf(self._tag_field_type.bit_length))" % b, "FOR f in self.fields [YIELD(f, offset)]"]
    ctx.check(tr == want, fn.short, " | ".join(tr), "every variant of a union starts right after the tag, which follows the padded base", fn.where(), {"expected": want}, rule="C08.R1")
    ctx.check(sum(x.count("YIELD(") for x in tr) == 1 and "IF" not in " ".join(tr), fn.short, "one unconditional yield per variant", "no variant may be skipped or repeated", fn.where(), rule="C08.R2")

    dl = ctx.cls(SER + "_composite.DelimitedType")
    fn = dl.methods.get("iterate_fields_with_offsets")
    if fn is None:
        raise AnalysisError("anchor DelimitedType.iterate_fields_with_offsets missing")
    b = fn.params[1]
    tr = iterator_trace(ctx, dl, fn)
    want = ["%s = cat(var(%s), bls(self._delimiter_header_type))" % (b, b), "RETURN self._inner.iterate_fields_with_offsets(%s)" % b]
    alt = ["%s = cat(var(%s), leaf(self._delimiter_header_type.bit_length))" % (b, b), want[1]]
    ctx.check(tr in (want, alt), fn.short, " | ".join(tr), "a delimited type's fields are those of the inner type, shifted by the delimiter header", fn.where(), {"expected": want}, rule="C08.R1")

    fa = ctx.cls(SER + "_array.FixedLengthArrayType")
    fn = fa.methods.get("enumerate_elements_with_offsets")
    if fn is None:
        raise AnalysisError("anchor enumerate_elements_with_offsets missing")
    b = fn.params[1]
    tr = iterator_trace(ctx, fa, fn)
    want = ["%s = pad(var(%s), self.alignment_requirement)" % (b, b), "FOR index in range(self._capacity) [offset = cat(var(%s), rep(bls(self._element_type), index)); YIELD(index, offset)]" % b]
    ctx.check(tr == want, fn.short, " | ".join(tr), "element i of a fixed array starts at the padded base plus i elements", fn.where(), {"expected": want}, rule="C08.R1")
    ctx.check(sum(x.count("YIELD(") for x in tr) == 1 and "IF" not in " ".join(tr), fn.short, "one unconditional yield per element", "no element may be skipped or repeated", fn.where(), rule="C08.R2")
    # service types have no offsets
    sv = ctx.cls(SER + "_composite.ServiceType")
    m = sv.methods.get("iterate_fields_with_offsets")
    ctx.check(m is not None and any(isinstance(x, ast.Raise) for x in ast.walk(m.node)), sv.short + ".iterate_fields_with_offsets", "raises", "a service type has no serializable fields", sv.module.relpath, rule="C08.R1", nontrivial=False)
    ctx.sample({"rule": "C08.R1", "structure": tr})


def rule_r3(ctx: Ctx) -> None:
    repo = ctx.repo
    ctx.rule("C08.R3", "intrinsics: _offset_ / _bit_length_ / _extent_ are wired to the layout model; attribute lookups fall back to the parent class; unions reject fields after _offset_ was evaluated", min_instances=7)
    dsb = ctx.cls("_data_schema_builder.DataSchemaBuilder")
    off = dsb.methods.get("offset")
    if off is None:
        raise AnalysisError("anchor DataSchemaBuilder.offset missing")
    body = body_without_docstring(off.node)
    assigns = {norm(s.targets[0]): norm(s.value) for s in body if isinstance(s, ast.Assign) and len(s.targets) == 1}
    rets = [norm(r.value) for r in body if isinstance(r, ast.Return)]
    sel = assigns.get("ty", "")
    good = sel in ("_serializable.UnionType if self.union else _serializable.StructureType", "_serializable.UnionType if self._is_union else _serializable.StructureType")
    agg = assigns.get("out", rets[0] if rets else "")
    good = good and agg == "ty.aggregate_bit_length_sets([f.data_type for f in self.fields])" and rets in (["out"], [agg])
    extra = [norm(s) for s in body if not isinstance(s, (ast.Assert, ast.Return)) and not (isinstance(s, ast.Assign) and norm(s.targets[0]) in ("ty", "out", "self._bit_length_computed_at_least_once")) and not (isinstance(s, ast.Expr) and isinstance(s.value, ast.Constant))]
    ctx.check(good and not extra, off.short, "%s ; %s" % (sel, agg), "`_offset_` is the layout aggregate of exactly the fields declared so far, of the kind the final type will have, without the final padding", off.where(), {"unexpected_statements": extra[:3]})
    flag = assigns.get("self._bit_length_computed_at_least_once")
    af = dsb.methods.get("add_field")
    guard = False
    if af is not None:
        for st in body_without_docstring(af.node):
            if isinstance(st, ast.If) and norm(st.test) in ("self.union and self._bit_length_computed_at_least_once", "self._is_union and self._bit_length_computed_at_least_once") and st.body and isinstance(st.body[-1], ast.Raise):
                guard = True
    ctx.check(flag == "True" and guard, dsb.short, "offset marks the schema; add_field rejects union fields afterwards", "inter-field offsets are not defined for unions: a union must not grow after its offset was observed", dsb.module.relpath)
    # selection agreement with the final type
    mk = ctx.func("_data_type_builder.DataTypeBuilder._make_composite")
    sel2 = [norm(s.value) for s in walk_no_nested(mk.node) if isinstance(s, ast.Assign) and norm(s.targets[0]) == "ty"]
    ctx.check(sel2 == ["_serializable.UnionType if builder.union else _serializable.StructureType"], mk.short, str(sel2), "the intrinsic and the final type choose union vs structure by the same flag", mk.where(), nontrivial=False)
    # resolve_top_level_identifier
    rt = ctx.func("_data_type_builder.DataTypeBuilder.resolve_top_level_identifier")
    src = norm(rt.node).replace("\n", " ")
    nm = rt.params[1]
    good = ("if %s == '_offset_'" % nm) in src and "bls = self._structs[-1].offset" in src and "return _expression.Set(map(_expression.Rational, bls))" in src
    good = good and ("for c in self._structs[-1].constants: if c.name == %s: return c.value" % nm) in src
    ctx.check(good, rt.short, "_offset_ -> Set(map(Rational, current schema's offset)); constants of the current schema by name", "`_offset_` evaluates to the set of lengths of everything before this point in the current schema", rt.where())
    # _bit_length_ / _extent_
    ser = ctx.cls(SER + "_serializable.SerializableType")
    at = ser.methods.get("_attribute")
    src = norm(at.node).replace("\n", " ") if at else ""
    ctx.check("== '_bit_length_'" in src and "_expression.Set(map(_expression.Rational, self.bit_length_set))" in src and "return super()._attribute(%s)" % at.params[1] in src, ser.short + "._attribute", "_bit_length_ -> Set(map(Rational, self.bit_length_set)); else super()", "`T._bit_length_` is T.bit_length_set", at.where() if at else "")
    comp = ctx.cls(SER + "_composite.CompositeType")
    at = comp.methods.get("_attribute")
    src = norm(at.node).replace("\n", " ") if at else ""
    ctx.check("== '_extent_'" in src and "_expression.Rational(self.extent)" in src and "return super()._attribute(%s)" % at.params[1] in src, comp.short + "._attribute", "_extent_ -> Rational(self.extent); constants by name; else super()", "`T._extent_` is T.extent", at.where() if at else "")
    # every _attribute override falls back to super()
    any_c = ctx.cls("_expression._any.Any")
    for c in repo.subclasses(any_c, strict=True):
        m = c.methods.get("_attribute")
        if m is None:
            continue
        falls = [cl for cl in calls_in(m.node) if isinstance(cl.func, ast.Attribute) and cl.func.attr == "_attribute" and isinstance(cl.func.value, ast.Call) and dotted(cl.func.value.func) == "super" and [norm(a) for a in cl.args] == [m.params[1]]]
        ctx.check(len(falls) >= 1, m.short, "falls back to super()._attribute(name)", "unknown attributes must reach the parent classes (and finally the undefined-attribute error)", m.where(), nontrivial=False)


def run(ctx: Ctx) -> None:
    rule_r1_r2(ctx)
    rule_r3(ctx)
    ctx.assume("the bit-length-set algebra is exact (C01); alignments are powers of two and the delimiter header is a multiple of the alignment (C02)")
    ctx.undecided("numerical equality of the offset sets with the encoder's positions (only the agreement of the traces / terms is decided)")
