"""
C08 -- Field offsets and in-language layout intrinsics equal the real bit positions.

R1  offset traces of the four iterators, as terms of the bit-length-set algebra: structure = pad(base, SELF.align) then per
    field pad(F.align), YIELD, + bls(F); union = pad(base, SELF.align) + tag, the same offset for every variant; delimited =
    base + header then the inner iterator; fixed array = pad(base, SELF.align), element i at base + repeat(elem, i).
    Cross-check: the per-field step composed over a field equals the structure aggregation step of the layout model.
R2  every field / element exactly once, in order: one unconditional yield per iteration, no filtering.
R3  intrinsics: `_offset_` = aggregate of the fields so far, selected by the same union predicate as the final type, without
    the final padding; `_bit_length_` = bit_length_set; `_extent_` = extent; every _attribute override falls back to super();
    a union rejects fields after its offset was computed.
"""
from __future__ import annotations

import ast
from typing import Any, Dict, List, Optional, Tuple

from ..core import AnalysisError, ClassInfo, Ctx, FuncInfo, body_without_docstring, calls_in, dotted, norm, walk_no_nested
from .. import spec_tables as spec
from ..absint import AObj, Evaluator, Raised, construct, make_obj, set_public
from ..fold import Folder, Sym, Unfoldable
from ..layout import NotLayout, TBls, bls_term, explore, mentions_only_min_max, show_term, term_str, under
from ..regions import inline_properties, trivial_property_expr
from .c02 import _field_type_grids, _layout_hook, aggregate_term, spec_structure, spec_union

SER = "_serializable."
FIELD = frozenset({"Field", "Attribute", "Any"})


def _run_iterator(ctx: Ctx, cls: ClassInfo, fn: FuncInfo, me: AObj, base: TBls) -> List[Tuple[List[Any], List[Any], Any]]:
    """abstract runs of an offset iterator: [(assumptions, yielded pairs, returned value)]"""
    body = body_without_docstring(ctx.inl(fn))

    def run() -> Any:
        ev = Evaluator({fn.params[0]: me, fn.params[1]: base}, ctx.repo, fn.module, cls, _layout_hook(ctx, fn.module, cls))
        r = ev.run(body)
        return list(ev.yielded), r

    try:
        return [(a, y, r) for a, (y, r) in explore(run)]
    except (Unfoldable, Raised, NotLayout) as ex:
        raise AnalysisError("%s: cannot evaluate over abstract fields: %s" % (fn.short, ex))


def _verdict(ctx: Ctx, fn: FuncInfo, assumptions: List[Any]) -> None:
    kinds = [e for e, _ in assumptions]
    if kinds and not all(mentions_only_min_max(e) or e[0] == "aligned" for e in kinds):
        raise AnalysisError("%s: the offsets are conditional on %s, which this analysis cannot relate to alignment" % (fn.short, [show_term(e) for e in kinds]))


def rule_r1_r2(ctx: Ctx) -> None:
    repo = ctx.repo
    ctx.rule("C08.R1", "offset iterators, evaluated over abstract fields: base padded to the type's alignment, then every field at the position the layout model (the aggregation of the preceding fields) gives it", min_instances=5)
    ctx.rule("C08.R2", "every field / element is yielded exactly once, in order", min_instances=3)
    st = ctx.cls(SER + "_composite.StructureType")
    un = ctx.cls(SER + "_composite.UnionType")
    bases = [TBls.var("BASE", 1), TBls.var("BASE8", 8), TBls.of(0)]
    for c in (st, un):
        fn = c.methods.get("iterate_fields_with_offsets")
        agg = c.methods.get("aggregate_bit_length_sets")
        if fn is None or agg is None:
            raise AnalysisError("anchor %s.iterate_fields_with_offsets / aggregate_bit_length_sets missing" % c.name)
        bad1, bad2 = [], []
        for ts in _field_type_grids():
            if c is un and len(ts) < 2:
                continue
            fields = [Sym(data_type=t, name="f%d" % i, _isa_=(FIELD | {"PaddingField"}) if (c is st and i == 1) else FIELD) for i, t in enumerate(ts)]
            al = max([8] + [t.alignment_requirement for t in ts])
            tag = Sym(bit_length=max([spec.smallest_standard_width(len(ts) - 1)] + [t.alignment_requirement for t in ts]), alignment_requirement=1)
            for base in bases:
                me = make_obj(ctx, c, fields=fields, alignment_requirement=al, tag_field_type=tag)
                for assumptions, yielded, _ in _run_iterator(ctx, c, fn, me, base):
                    ctx.count()
                    got_fields = [y[0] if isinstance(y, tuple) and len(y) == 2 else None for y in yielded]
                    if [id(x) for x in got_fields] != [id(x) for x in fields]:
                        bad2.append({"field alignments": [t.alignment_requirement for t in ts], "yielded": [getattr(x, "name", "?") for x in got_fields]})
                        continue

                    def expected() -> List[TBls]:
                        out = []
                        start = base.pad_to_alignment(al)
                        for i, t in enumerate(ts):
                            if c is st:
                                # everything before the field, as the layout model aggregates it, then the field's own padding
                                before = start + under(assumptions, lambda i=i: aggregate_term(ctx, agg, ts[:i]))
                                out.append(before.pad_to_alignment(t.alignment_requirement))
                            else:
                                out.append(start + tag.bit_length)
                        return out

                    want = under(assumptions, expected)
                    got = [y[1] for y in yielded]
                    if got != want:
                        _verdict(ctx, fn, assumptions)
                        bad1.append({"field alignments": [t.alignment_requirement for t in ts], "base": repr(base), "assuming": ["%s is %s" % (show_term(e), v) for e, v in assumptions], "found": [repr(x) for x in got], "expected": [repr(x) for x in want]})
        ctx.check(not bad1, fn.short, "offsets over 0..3 abstract fields x 3 abstract bases", "a field's offset is the padded base plus the layout aggregate of the fields before it, padded to the field's own alignment" if c is st else "every variant of a union starts right after the tag, which follows the padded base", fn.where(), bad1[:2], rule="C08.R1")
        ctx.check(not bad2, fn.short, "each field yielded once, in order", "no field may be skipped, repeated or reordered", fn.where(), bad2[:2], rule="C08.R2")

    # the structure aggregation is itself the Specification's (C02.R5): re-stated here because the offsets are defined through it
    bad = []
    agg = st.methods["aggregate_bit_length_sets"]
    for ts in _field_type_grids():
        for assumptions, got in explore(lambda: aggregate_term(ctx, agg, ts)):
            if got != under(assumptions, lambda: spec_structure(ts)):
                _verdict(ctx, agg, assumptions)
                bad.append({"field alignments": [t.alignment_requirement for t in ts], "found": repr(got)})
    ctx.check(not bad, st.short, "iterator step == aggregation step (pad to the field's alignment, then add its set)", "the offsets handed to code generators and the length model are the same computation", st.module.relpath, bad[:2], rule="C08.R1")

    dl = ctx.cls(SER + "_composite.DelimitedType")
    fn = dl.methods.get("iterate_fields_with_offsets")
    if fn is None:
        raise AnalysisError("anchor DelimitedType.iterate_fields_with_offsets missing")
    bad = []
    for base in bases:
        class _Inner(Sym):
            def iterate_fields_with_offsets(self, off: Any = 0) -> Any:
                return ("INNER-FIELDS-AT", TBls.of(off))

        inner = _Inner(alignment_requirement=8)
        me = make_obj(ctx, dl, inner_type=inner, delimiter_header_type=Sym(bit_length=spec.DELIMITER_HEADER_BITS, bit_length_set=TBls.of(spec.DELIMITER_HEADER_BITS)), alignment_requirement=8)
        for assumptions, yielded, ret in _run_iterator(ctx, dl, fn, me, base):
            ctx.count()
            want = ("INNER-FIELDS-AT", base + spec.DELIMITER_HEADER_BITS)
            got = ret if not yielded else ("yielded", yielded)
            if got != want:
                bad.append({"base": repr(base), "found": repr(got), "expected": repr(want)})
    ctx.check(not bad, fn.short, "inner iterator at base + header", "a delimited type's fields are those of the inner type, shifted by the delimiter header", fn.where(), bad[:2], rule="C08.R1")

    fa = ctx.cls(SER + "_array.FixedLengthArrayType")
    fn = fa.methods.get("enumerate_elements_with_offsets")
    if fn is None:
        raise AnalysisError("anchor enumerate_elements_with_offsets missing")
    bad1, bad2 = [], []
    for a in (1, 8):
        for cap in (1, 2, 5):
            et = Sym(bit_length_set=TBls.var("E", a), alignment_requirement=a)
            for base in bases:
                me = make_obj(ctx, fa, element_type=et, capacity=cap, alignment_requirement=a)
                for assumptions, yielded, _ in _run_iterator(ctx, fa, fn, me, base):
                    ctx.count()
                    idx = [y[0] if isinstance(y, tuple) and len(y) == 2 else None for y in yielded]
                    if idx != list(range(cap)):
                        bad2.append({"capacity": cap, "yielded": idx})
                        continue
                    want = under(assumptions, lambda: [base.pad_to_alignment(a) + et.bit_length_set.repeat(i) for i in range(cap)])
                    got = [y[1] for y in yielded]
                    if got != want:
                        _verdict(ctx, fn, assumptions)
                        bad1.append({"capacity": cap, "element alignment": a, "base": repr(base), "found": [repr(x) for x in got], "expected": [repr(x) for x in want]})
    ctx.check(not bad1, fn.short, "element offsets over abstract elements", "element i of a fixed array starts at the padded base plus i elements", fn.where(), bad1[:2], rule="C08.R1")
    ctx.check(not bad2, fn.short, "each element yielded once, in order", "no element may be skipped or repeated", fn.where(), bad2[:2], rule="C08.R2")
    # service types have no offsets
    sv = ctx.cls(SER + "_composite.ServiceType")
    m = sv.methods.get("iterate_fields_with_offsets")
    ctx.check(m is not None and any(isinstance(x, ast.Raise) for x in ast.walk(m.node)), sv.short + ".iterate_fields_with_offsets", "raises", "a service type has no serializable fields", sv.module.relpath, rule="C08.R1", nontrivial=False)
    ctx.sample({"rule": "C08.R1", "structure over [T0(1), T1(8)] at BASE": [repr(base) for base in bases]})


def _new(ctx: Ctx, cls: ClassInfo) -> AObj:
    try:
        return construct(ctx, cls, hook=_layout_hook(ctx, cls.module, cls))
    except (Unfoldable, Raised) as ex:
        raise AnalysisError("cannot evaluate the constructor of %s: %s" % (cls.name, ex))


def _expr_hook(ctx: Ctx, mod: Any, cls: Optional[ClassInfo]) -> Any:
    """layout hook + the expression-value constructors as inert records + super()._attribute(x) as a marker"""
    lh = _layout_hook(ctx, mod, cls)

    def hook(e: ast.expr, f: Folder) -> Any:
        r = lh(e, f)
        if r is not NotImplemented:
            return r
        if isinstance(e, ast.Call):
            name = dotted(e.func) or ""
            last = name.split(".")[-1]
            if isinstance(e.func, ast.Attribute) and isinstance(e.func.value, ast.Call) and dotted(e.func.value.func) == "super":
                return ("SUPER", e.func.attr) + tuple(f.fold(a) for a in e.args)
            if last in ("Rational", "Set", "String", "Boolean") and name.split(".")[0] in ("_expression", last):
                args = [f.fold(a) for a in e.args]
                return (last,) + tuple(tuple(a) if isinstance(a, list) else a for a in args)
            if name == "map" and len(e.args) == 2:
                k = None
                try:
                    k = f.fold(e.args[0])
                except Unfoldable:
                    pass
                if isinstance(k, ClassInfo):
                    return [(k.name, x) for x in f.fold(e.args[1])]
        return NotImplemented

    return hook


def rule_r3(ctx: Ctx) -> None:
    repo = ctx.repo
    ctx.rule("C08.R3", "intrinsics: _offset_ / _bit_length_ / _extent_ are wired to the layout model; attribute lookups fall back to the parent class; unions reject fields after _offset_ was evaluated", min_instances=7)
    dsb = ctx.cls("_data_schema_builder.DataSchemaBuilder")
    off = dsb.methods.get("offset")
    if off is None or not off.is_property:
        raise AnalysisError("anchor DataSchemaBuilder.offset (property) missing")
    bad = []
    flags: set = set()
    hookf = _layout_hook(ctx, off.module, dsb)
    q_off = ast.parse("self.offset", mode="eval").body
    q_add = ast.parse("self.add_field(x)", mode="eval").body
    for union in (False, True):
        for ts in _field_type_grids():
            fields = [Sym(data_type=t, name="f%d" % i, _isa_=FIELD) for i, t in enumerate(ts)]
            # the offset is queried after `cut` fields and again after all of them (a structure may grow between queries)
            for cut in ([len(ts)] if union else range(len(ts) + 1)):
                me = set_public(_new(ctx, dsb), fields=[], union=union, constants=[])
                before = dict(me.__dict__)

                def run() -> Any:
                    me_fields = me.fields
                    del me_fields[:]
                    for k in list(me.__dict__):
                        if k not in before:
                            del me.__dict__[k]
                    for k, v in before.items():
                        if not isinstance(v, list):
                            me.__dict__[k] = v
                    out = []
                    done = 0
                    for stop in sorted({cut, len(ts)}):
                        for x in fields[done:stop]:
                            if union:
                                me_fields.append(x)
                            else:
                                Folder({"self": me, "x": x}, repo, off.module, dsb, hookf).fold(q_add)
                        done = stop
                        out.append((stop, Folder({"self": me}, repo, off.module, dsb, hookf).fold(q_off)))
                    return out

                try:
                    runs = explore(run)
                except (Unfoldable, Raised, NotLayout) as ex:
                    raise AnalysisError("%s: cannot evaluate over abstract fields: %s" % (off.short, ex))
                for assumptions, outs in runs:
                    for stop, got in outs:
                        ctx.count()
                        want = under(assumptions, lambda: (spec_union if union else spec_structure)(ts[:stop]))
                        if got != want:
                            _verdict(ctx, off, assumptions)
                            bad.append({"union": union, "field alignments": [t.alignment_requirement for t in ts], "queried after": sorted({cut, len(ts)}), "at": stop, "found": repr(got), "expected": repr(want)})
                flags |= {k for k, v in me.__dict__.items() if v is True and before.get(k) is not True and not k.endswith("_")}
                if [id(x) for x in me.fields] != [id(x) for x in fields]:
                    bad.append({"note": "the field list was modified by the query"})
    ctx.check(not bad, off.short, "offset over abstract fields, both kinds", "`_offset_` is the layout aggregate of exactly the fields declared so far, of the kind the final type will have, without the final padding", off.where(), bad[:2])
    # observing the offset marks the schema; a union must not grow afterwards
    af = dsb.methods.get("add_field")
    if af is None:
        raise AnalysisError("anchor DataSchemaBuilder.add_field missing")
    outcomes = {}
    for union in (False, True):
        for observed in (False, True):
            me = set_public(_new(ctx, dsb), fields=[], union=union, constants=[])
            for fl in flags:
                me.__dict__[fl] = observed
            try:
                Folder({"self": me, "x": Sym(data_type=_field_type_grids()[1][0], name="x", _isa_=FIELD)}, repo, af.module, dsb, _layout_hook(ctx, af.module, dsb)).fold(ast.parse("self.add_field(x)", mode="eval").body)
                outcomes[(union, observed)] = "added" if len(me.fields) == 1 else "dropped"
            except Raised as r:
                outcomes[(union, observed)] = r.cls_name
            except Unfoldable as ex:
                raise AnalysisError("%s: cannot evaluate: %s" % (af.short, ex))
            ctx.count()
    want_o = {(False, False): "added", (False, True): "added", (True, False): "added", (True, True): "BitLengthAnalysisError"}
    ctx.check(bool(flags) and outcomes == want_o, dsb.short, "offset marks the schema (%s); add_field: %s" % (sorted(flags), {"union=%s,observed=%s" % k: v for k, v in outcomes.items()}), "inter-field offsets are not defined for unions: a union must not grow after its offset was observed", dsb.module.relpath)
    # selection agreement with the final type
    mk = ctx.func("_data_type_builder.DataTypeBuilder._make_composite")
    sel = []
    for n in ast.walk(ctx.inl(mk)):
        test = body = orelse = None
        if isinstance(n, ast.IfExp):
            test, body, orelse = n.test, norm(n.body), norm(n.orelse)
        elif isinstance(n, ast.If) and n.orelse:
            test, body, orelse = n.test, " ".join(norm(x) for x in n.body), " ".join(norm(x) for x in n.orelse)
        if test is not None and "union" in norm(test) and ("UnionType" in body + orelse) and ("StructureType" in body + orelse):
            positive = not (isinstance(test, ast.UnaryOp) and isinstance(test.op, ast.Not))
            sel.append(("UnionType" in body) == positive and ("StructureType" in orelse) == positive)
    if not sel:
        raise AnalysisError("_make_composite: the choice between UnionType and StructureType was not found")
    ctx.check(all(sel), mk.short, "UnionType iff the schema is a union", "the intrinsic and the final type choose union vs structure by the same flag", mk.where(), nontrivial=False)
    # resolve_top_level_identifier
    dtb = ctx.cls("_data_type_builder.DataTypeBuilder")
    rt = dtb.methods.get("resolve_top_level_identifier")
    if rt is None:
        raise AnalysisError("anchor resolve_top_level_identifier missing")
    from .builder_common import definition_sym
    from ..absint import construct

    from ..absint import ctor_hook

    hook_e = _expr_hook(ctx, rt.module, dtb)
    try:
        me = construct(ctx, dtb, definition_sym(), [], [], Sym(_kind_="print-handler"), False, hook=ctor_hook(ctx, hook_e, only=[dsb.name]))
    except (Raised, Unfoldable) as ex:
        raise AnalysisError("cannot evaluate the constructor of DataTypeBuilder: %s" % ex)
    slots = [k for k, v in me.__dict__.items() if isinstance(v, list) and v and all(isinstance(x, AObj) and x._cls_ is dsb for x in v)]
    if len(slots) != 1:
        raise AnalysisError("DataTypeBuilder: the list of schema sections was not found among %s" % sorted(me.__dict__))
    sections = me.__dict__[slots[0]]

    def ask(nm: str) -> Any:
        try:
            return Folder({"self": me, "n": nm}, repo, rt.module, dtb, hook_e).fold(ast.parse("self.resolve_top_level_identifier(n)", mode="eval").body)
        except Raised as r:
            return "raise " + r.cls_name
        except Unfoldable as ex:
            raise AnalysisError("%s: cannot evaluate: %s" % (rt.short, ex))

    def section(n_fields: int, offset: str, consts: List[Any]) -> Any:
        return set_public(_new(ctx, dsb), fields=[Sym(name="f%d" % i, _isa_=FIELD) for i in range(n_fields)], union=False, constants=consts, offset=TBls.var(offset))

    def elements(v: str) -> Any:
        return ("Set", (("Rational", ("ELEMENTS-OF", ("var", v, 1))),))

    # the same builder is asked again and again while the current section grows and a new section begins: every answer
    # must be the offset of the current section as it is *now* (no stale answer from an earlier state or section)
    K = [Sym(name="J", value="VJ"), Sym(name="K", value="VK")]
    W = [Sym(name="K", value="WRONG-SECTION")]
    states = {
        "request, 1 field": (lambda: [section(1, "O1", K)], "O1"),
        "request, 2 fields": (lambda: [section(2, "O2", K)], "O2"),
        "response, 1 field": (lambda: [section(2, "O2", W), section(1, "O3", K)], "O3"),
        "response, 2 fields": (lambda: [section(2, "O2", W), section(2, "O4", K)], "O4"),
        "response, no field": (lambda: [section(1, "O1", W), section(0, "O5", K)], "O5"),
    }
    bad_seq = []
    for a_label, (a_make, a_var) in states.items():
        for b_label, (b_make, b_var) in states.items():
            # a fresh builder is asked in state A and then in state B: no answer may be carried over
            try:
                me = construct(ctx, dtb, definition_sym(), [], [], Sym(_kind_="print-handler"), False, hook=ctor_hook(ctx, hook_e, only=[dsb.name]))
            except (Raised, Unfoldable) as ex:
                raise AnalysisError("cannot evaluate the constructor of DataTypeBuilder: %s" % ex)
            sections = me.__dict__[slots[0]]
            for label, make, want_var in ((a_label, a_make, a_var), (a_label + " (asked again)", None, a_var), (b_label, b_make, b_var)):
                if make is not None:
                    sections[:] = make()
                got = ask("_offset_")
                ctx.count()
                if repr(got) != repr(elements(want_var)):
                    bad_seq.append({"asked in": "%s, then %s" % (a_label, b_label), "at": label, "found": repr(got)[:120], "expected": repr(elements(want_var))})
    sections[:] = states["response, 1 field"][0]()
    results = {"K": ask("K"), "nope": ask("nope")}
    ctx.count(2)
    want_r = {"K": "VK", "nope": "raise UndefinedIdentifierError"}
    ctx.check(not bad_seq and repr(results) == repr(want_r), rt.short, "_offset_ -> Set(map(Rational, current schema's offset)) at every point of a growing two-section definition; constants of the current schema by name", "`_offset_` evaluates to the set of lengths of everything before this point in the current schema", rt.where(), {"offset": bad_seq[:3], "identifiers": {k: repr(v)[:120] for k, v in results.items()}})
    # _bit_length_ / _extent_
    ser = ctx.cls(SER + "_serializable.SerializableType")
    comp = ctx.cls(SER + "_composite.CompositeType")
    for c, intrinsic, me_kw, want_v in (
        (ser, "_bit_length_", {"bit_length_set": TBls.var("BLS")}, ("Set", (("Rational", ("ELEMENTS-OF", ("var", "BLS", 1))),))),
        (comp, "_extent_", {"extent": 4242, "constants": [Sym(name="K", value="VK")], "bit_length_set": TBls.var("BLS")}, ("Rational", 4242)),
    ):
        at = c.methods.get("_attribute")
        if at is None:
            raise AnalysisError("anchor %s._attribute missing" % c.name)
        res = {}
        for nm in (intrinsic, "K", "zzz"):
            me = make_obj(ctx, c, **me_kw)
            try:
                res[nm] = Folder({"self": me, "n": Sym(native_value=nm)}, repo, at.module, c, _expr_hook(ctx, at.module, c)).fold(ast.parse("self._attribute(n)", mode="eval").body)
            except Raised as r:
                res[nm] = "raise " + r.cls_name
            except Unfoldable as ex:
                raise AnalysisError("%s: cannot evaluate: %s" % (at.short, ex))
            ctx.count()
        good = repr(res[intrinsic]) == repr(want_v) and isinstance(res["zzz"], tuple) and res["zzz"][:2] == ("SUPER", "_attribute")
        if c is comp:
            good = good and repr(res["K"]) == repr("VK")
        ctx.check(good, c.short + "._attribute", "%s -> %s; unknown -> super()" % (intrinsic, repr(res[intrinsic])[:60]), "`T.%s` is the layout model's answer" % intrinsic, at.where(), {k: repr(v)[:100] for k, v in res.items()})
    # every _attribute override falls back to super()
    any_c = ctx.cls("_expression._any.Any")
    for c in repo.subclasses(any_c, strict=True):
        m = c.methods.get("_attribute")
        if m is None:
            continue
        falls = [cl for cl in calls_in(ctx.inl(m)) if isinstance(cl.func, ast.Attribute) and cl.func.attr == "_attribute" and isinstance(cl.func.value, ast.Call) and dotted(cl.func.value.func) == "super" and len(cl.args) == 1]
        ctx.check(len(falls) >= 1, m.short, "falls back to super()._attribute(name)", "unknown attributes must reach the parent classes (and finally the undefined-attribute error)", m.where(), nontrivial=False)


def run(ctx: Ctx) -> None:
    ctx.attempt(rule_r1_r2, ctx)
    ctx.attempt(rule_r3, ctx)
    ctx.assume("the bit-length-set algebra is exact (C01); alignments are powers of two and the delimiter header is a multiple of the alignment (C02)")
    ctx.undecided("numerical equality of the offset sets with the encoder's positions (only the agreement of the traces / terms is decided)")
