"""
C08 -- Field offsets and in-language layout intrinsics equal the real bit positions.

R1  offset traces of the four iterators, as terms of the bit-length-set algebra: structure = pad(base, SELF.align) then per
    field pad(F.align), YIELD, + bls(F); union = pad(base, SELF.align) + tag, the same offset for every variant; delimited =
    base + header then the inner iterator; fixed array = pad(base, SELF.align), element i at base + repeat(elem, i).
    Cross-check: the per-field step composed over a field equals the structure aggregation step of the layout model.
R2  every field / element exactly once, in order: one unconditional yield per iteration, no filtering.
R3  intrinsics: `_offset_` = aggregate of the fields so far, selected by the same union predicate as the final type, without
    the final padding; `_bit_length_` = bit_length_set; `_extent_` = extent; every _attribute override falls back to super();
    a union rejects fields after its offset was computed.
"""
from __future__ import annotations

import ast
from typing import Any, Dict, List, Optional, Tuple

from ..core import AnalysisError, ClassInfo, Ctx, FuncInfo, body_without_docstring, calls_in, dotted, norm, walk_no_nested
from .. import spec_tables as spec
from ..absint import AObj, Evaluator, Raised, construct, make_obj, set_public
from ..fold import Abstract, Folder, Sym, Unfoldable
from ..layout import NotLayout, TBls, bls_term, explore, mentions_only_min_max, show_term, term_str, under
from ..regions import inline_properties, trivial_property_expr
from .c02 import _field_type_grids, _layout_hook, aggregate_term, spec_structure, spec_union

SER = "_serializable."
FIELD = frozenset({"Field", "Attribute", "Any"})


def _run_iterator(ctx: Ctx, cls: ClassInfo, fn: FuncInfo, me: AObj, base: TBls) -> List[Tuple[List[Any], List[Any], Any]]:
    """abstract runs of an offset iterator: [(assumptions, yielded pairs, returned value)]"""
    body = body_without_docstring(ctx.inl(fn))

    def run() -> Any:
        ev = Evaluator({fn.params[0]: me, fn.params[1]: base}, ctx.repo, fn.module, cls, _layout_hook(ctx, fn.module, cls))
        r = ev.run(body)
        return list(ev.yielded), r

    try:
        return [(a, y, r) for a, (y, r) in explore(run)]
    except (Unfoldable, Raised, NotLayout) as ex:
        raise AnalysisError("%s: cannot evaluate over abstract fields: %s" % (fn.short, ex))


def _verdict(ctx: Ctx, fn: FuncInfo, assumptions: List[Any]) -> None:
    kinds = [e for e, _ in assumptions]
    if kinds and not all(mentions_only_min_max(e) or e[0] == "aligned" for e in kinds):
        raise AnalysisError("%s: the offsets are conditional on %s, which this analysis cannot relate to alignment" % (fn.short, [show_term(e) for e in kinds]))


def rule_r1_r2(ctx: Ctx) -> None:
    repo = ctx.repo
    ctx.rule("C08.R1", "offset iterators, evaluated over abstract fields: base padded to the type's alignment, then every field at the position the layout model (the aggregation of the preceding fields) gives it", min_instances=5)
    ctx.rule("C08.R2", "every field / element is yielded exactly once, in order", min_instances=3)
    st = ctx.cls(SER + "_composite.StructureType")
    un = ctx.cls(SER + "_composite.UnionType")
    bases = [TBls.var("BASE", 1), TBls.var("BASE8", 8), TBls.of(0)]
    for c in (st, un):
        fn = repo.lookup_method(c, "iterate_fields_with_offsets")
        agg = repo.lookup_method(c, "aggregate_bit_length_sets")
        if fn is None or agg is None:
            raise AnalysisError("anchor %s.iterate_fields_with_offsets / aggregate_bit_length_sets missing" % c.name)
        bad1, bad2 = [], []
        for ts in _field_type_grids():
            if c is un and len(ts) < 2:
                continue
            fields = [Sym(data_type=t, name="f%d" % i, _isa_=(FIELD | {"PaddingField"}) if (c is st and i == 1) else FIELD) for i, t in enumerate(ts)]
            al = max([8] + [t.alignment_requirement for t in ts])
            tag = Sym(bit_length=max([spec.smallest_standard_width(len(ts) - 1)] + [t.alignment_requirement for t in ts]), alignment_requirement=1)
            for base in bases:
                me = make_obj(ctx, c, fields=fields, alignment_requirement=al, tag_field_type=tag)
                for assumptions, yielded, _ in _run_iterator(ctx, c, fn, me, base):
                    ctx.count()
                    got_fields = [y[0] if isinstance(y, tuple) and len(y) == 2 else None for y in yielded]
                    if [id(x) for x in got_fields] != [id(x) for x in fields]:
                        bad2.append({"field alignments": [t.alignment_requirement for t in ts], "yielded": [getattr(x, "name", "?") for x in got_fields]})
                        continue

                    def expected() -> List[TBls]:
                        out = []
                        start = base.pad_to_alignment(al)
                        for i, t in enumerate(ts):
                            if c is st:
                                # everything before the field, as the layout model aggregates it, then the field's own padding
                                before = start + under(assumptions, lambda i=i: aggregate_term(ctx, agg, ts[:i]))
                                out.append(before.pad_to_alignment(t.alignment_requirement))
                            else:
                                out.append(start + tag.bit_length)
                        return out

                    want = under(assumptions, expected)
                    got = [y[1] for y in yielded]
                    if got != want:
                        _verdict(ctx, fn, assumptions)
                        bad1.append({"field alignments": [t.alignment_requirement for t in ts], "base": repr(base), "assuming": ["%s is %s" % (show_term(e), v) for e, v in assumptions], "found": [repr(x) for x in got], "expected": [repr(x) for x in want]})
        ctx.check(not bad1, fn.short, "offsets over 0..3 abstract fields x 3 abstract bases", "a field's offset is the padded base plus the layout aggregate of the fields before it, padded to the field's own alignment" if c is st else "every variant of a union starts right after the tag, which follows the padded base", fn.where(), bad1[:2], rule="C08.R1")
        ctx.check(not bad2, fn.short, "each field yielded once, in order", "no field may be skipped, repeated or reordered", fn.where(), bad2[:2], rule="C08.R2")

    # the structure aggregation is itself the Specification's (C02.R5): re-stated here because the offsets are defined through it
    bad = []
    agg = st.methods["aggregate_bit_length_sets"]
    for ts in _field_type_grids():
        for assumptions, got in explore(lambda: aggregate_term(ctx, agg, ts)):
            if got != under(assumptions, lambda: spec_structure(ts)):
                _verdict(ctx, agg, assumptions)
                bad.append({"field alignments": [t.alignment_requirement for t in ts], "found": repr(got)})
    ctx.check(not bad, st.short, "iterator step == aggregation step (pad to the field's alignment, then add its set)", "the offsets handed to code generators and the length model are the same computation", st.module.relpath, bad[:2], rule="C08.R1")

    dl = ctx.cls(SER + "_composite.DelimitedType")
    fn = repo.lookup_method(dl, "iterate_fields_with_offsets")
    if fn is None:
        raise AnalysisError("anchor DelimitedType.iterate_fields_with_offsets missing")
    bad = []
    for base in bases:
        class _Inner(Sym):
            def iterate_fields_with_offsets(self, off: Any = 0) -> Any:
                return ("INNER-FIELDS-AT", TBls.of(off))

        inner = _Inner(alignment_requirement=8)
        me = make_obj(ctx, dl, inner_type=inner, delimiter_header_type=Sym(bit_length=spec.DELIMITER_HEADER_BITS, bit_length_set=TBls.of(spec.DELIMITER_HEADER_BITS)), alignment_requirement=8)
        for assumptions, yielded, ret in _run_iterator(ctx, dl, fn, me, base):
            ctx.count()
            want = ("INNER-FIELDS-AT", base + spec.DELIMITER_HEADER_BITS)
            got = ret if not yielded else ("yielded", yielded)
            if got != want:
                bad.append({"base": repr(base), "found": repr(got), "expected": repr(want)})
    ctx.check(not bad, fn.short, "inner iterator at base + header", "a delimited type's fields are those of the inner type, shifted by the delimiter header", fn.where(), bad[:2], rule="C08.R1")

    fa = ctx.cls(SER + "_array.FixedLengthArrayType")
    fn = fa.methods.get("enumerate_elements_with_offsets")
    if fn is None:
        raise AnalysisError("anchor enumerate_elements_with_offsets missing")
    bad1, bad2 = [], []
    for a in (1, 8):
        for cap in (1, 2, 5):
            et = Sym(bit_length_set=TBls.var("E", a), alignment_requirement=a)
            for base in bases:
                me = make_obj(ctx, fa, element_type=et, capacity=cap, alignment_requirement=a)
                for assumptions, yielded, _ in _run_iterator(ctx, fa, fn, me, base):
                    ctx.count()
                    idx = [y[0] if isinstance(y, tuple) and len(y) == 2 else None for y in yielded]
                    if idx != list(range(cap)):
                        bad2.append({"capacity": cap, "yielded": idx})
                        continue
                    want = under(assumptions, lambda: [base.pad_to_alignment(a) + et.bit_length_set.repeat(i) for i in range(cap)])
                    got = [y[1] for y in yielded]
                    if got != want:
                        _verdict(ctx, fn, assumptions)
                        bad1.append({"capacity": cap, "element alignment": a, "base": repr(base), "found": [repr(x) for x in got], "expected": [repr(x) for x in want]})
    ctx.check(not bad1, fn.short, "element offsets over abstract elements", "element i of a fixed array starts at the padded base plus i elements", fn.where(), bad1[:2], rule="C08.R1")
    ctx.check(not bad2, fn.short, "each element yielded once, in order", "no element may be skipped or repeated", fn.where(), bad2[:2], rule="C08.R2")
    # service types have no offsets
    sv = ctx.cls(SER + "_composite.ServiceType")
    m = repo.lookup_method(sv, "iterate_fields_with_offsets")
    ctx.check(m is not None and any(isinstance(x, ast.Raise) for x in ast.walk(m.node)), sv.short + ".iterate_fields_with_offsets", "raises", "a service type has no serializable fields", sv.module.relpath, rule="C08.R1", nontrivial=False)
    ctx.sample({"rule": "C08.R1", "structure over [T0(1), T1(8)] at BASE": [repr(base) for base in bases]})


def _new(ctx: Ctx, cls: ClassInfo) -> AObj:
    try:
        return construct(ctx, cls, hook=_layout_hook(ctx, cls.module, cls))
    except (Unfoldable, Raised) as ex:
        raise AnalysisError("cannot evaluate the constructor of %s: %s" % (cls.name, ex))


def _new_schema(ctx: Ctx, dsb: ClassInfo, union: bool) -> AObj:
    """a fresh schema builder, made a union through its public interface"""
    me = _new(ctx, dsb)
    if union:
        try:
            Folder({"self": me}, ctx.repo, dsb.module, dsb, _layout_hook(ctx, dsb.module, dsb)).fold(ast.parse("self.make_union()", mode="eval").body)
        except (Unfoldable, Raised) as ex:
            raise AnalysisError("DataSchemaBuilder.make_union(): cannot evaluate: %s" % ex)
    return me


def _value_record(kind: str, args: List[Any]) -> Any:
    """an expression value as an inert record of its constructor arguments.  A further argument that merely names the class of
    the elements given (a set told its element type) says nothing the elements do not say: it is dropped when it agrees with
    them and kept - so that the comparison fails - when it does not."""
    args = [tuple(a) if isinstance(a, list) else a for a in args]
    if kind == "Set" and len(args) == 2 and isinstance(args[1], ClassInfo) and isinstance(args[0], tuple) and args[0] and all(isinstance(x, tuple) and x and x[0] == args[1].name for x in args[0]):
        args = args[:1]
    return _ValueRecord((kind,) + tuple(args))


class _ValueRecord(tuple, Abstract):
    """(kind, *constructor arguments): reads, compares and prints as the tuple it is; `isinstance(v, <expression class>)` in
    the evaluated code answers by the kind (every expression value is an `Any`)"""

    @property
    def _isa_(self) -> Any:
        return frozenset({self[0], "Any", "Primitive" if self[0] in ("Rational", "Boolean", "String") else "Container"})


def _expr_hook(ctx: Ctx, mod: Any, cls: Optional[ClassInfo]) -> Any:
    """layout hook + the expression-value constructors as inert records + super()._attribute(x) as a marker"""
    lh = _layout_hook(ctx, mod, cls)

    def hook(e: ast.expr, f: Folder) -> Any:
        r = lh(e, f)
        if r is not NotImplemented:
            return r
        if isinstance(e, ast.Call):
            name = dotted(e.func) or ""
            last = name.split(".")[-1]
            if isinstance(e.func, ast.Attribute) and isinstance(e.func.value, ast.Call) and dotted(e.func.value.func) == "super":
                return ("SUPER", e.func.attr) + tuple(f.fold(a) for a in e.args)
            if last in ("Rational", "Set", "String", "Boolean") and name.split(".")[0] in ("_expression", last):
                return _value_record(last, [f.fold(a) for a in e.args] + [f.fold(k_.value) for k_ in e.keywords])
            if name == "map" and len(e.args) == 2:
                k = None
                try:
                    k = f.fold(e.args[0])
                except Unfoldable:
                    pass
                if isinstance(k, ClassInfo):
                    return [(k.name, x) for x in f.fold(e.args[1])]
        return NotImplemented

    return hook


def rule_identifiers(ctx: Ctx, rule: Optional[str] = None, parts: Tuple[str, ...] = ("offset", "constants")) -> None:
    """identifier resolution on one builder driven through its public callbacks (shared with C03.R7: the evaluated values of a
    section are those of that section's own text); recorded under the current rule, or under `rule` when given"""
    repo = ctx.repo
    # resolve_top_level_identifier
    dtb = ctx.cls("_data_type_builder.DataTypeBuilder")
    rt = dtb.methods.get("resolve_top_level_identifier")
    if rt is None:
        raise AnalysisError("anchor resolve_top_level_identifier missing")
    from . import builder_common as B

    # the same builder, driven through its public callbacks, is asked for `_offset_` and for constants while the current
    # section grows and a new section begins: every answer must be that of the current section as it is *now*
    def T(i: int, a: int = 1) -> Sym:
        return Sym(bit_length_set=TBls.var("T%d" % i, a), alignment_requirement=a, name="T%d" % i)

    VAL1, VAL2 = Sym(_kind_="value", label="K of the request"), Sym(_kind_="value", label="K of the response")

    def fresh() -> Tuple[Any, Any]:
        b_, _run, hook_ = B.make_builder(ctx, base_hook=_expr_hook(ctx, rt.module, dtb))
        return b_, hook_

    def call(b_: Any, hook_: Any, name: str, *args: Any) -> Any:
        env = {"b": b_}
        env.update({"a%d" % i: a for i, a in enumerate(args)})
        try:
            return Folder(env, repo, rt.module, dtb, hook_).fold(ast.parse("b.%s(%s)" % (name, ", ".join("a%d" % i for i in range(len(args)))), mode="eval").body)
        except Raised as r:
            return "raise " + r.cls_name
        except Unfoldable as ex:
            raise AnalysisError("DataTypeBuilder.%s: cannot evaluate over abstract arguments: %s" % (name, ex))

    def elements(term: Any) -> str:
        return repr(("Set", (("Rational", ("ELEMENTS-OF", term.term)),)))

    # a state: which fields the request has, whether the response has begun and which fields it has
    states = {
        "request, 1 field": ([0], None), "request, 2 fields": ([0, 1], None), "response, no field": ([0], []),
        "response, 1 field": ([0, 1], [2]), "response, 2 fields": ([0, 1], [2, 3]),
    }
    bad_seq = []
    for a_label, a_state in states.items():
        for b_label, b_state in states.items():
            if (a_state[1] is not None and b_state[1] is None) or len(b_state[0]) < len(a_state[0]) or (a_state[1] is not None and (b_state[1] is None or len(b_state[1]) < len(a_state[1]) or b_state[0] != a_state[0])):
                continue  # a definition only grows
            b_, hook_ = fresh()
            cur_rq: List[int] = []
            cur_rs: Optional[List[int]] = None
            for label, (rq, rs) in ((a_label, a_state), (a_label + " (asked again)", a_state), (b_label, b_state)):
                for i in rq[len(cur_rq):]:
                    call(b_, hook_, "on_field", T(i), "f%d" % i)
                    call(b_, hook_, "on_attribute_comment", "")
                    cur_rq.append(i)
                if rs is not None and cur_rs is None:
                    call(b_, hook_, "on_service_response_marker")
                    cur_rs = []
                for i in (rs or [])[len(cur_rs or []):]:
                    call(b_, hook_, "on_field", T(i), "f%d" % i)
                    call(b_, hook_, "on_attribute_comment", "")
                    cur_rs.append(i)  # type: ignore
                now = cur_rs if cur_rs is not None else cur_rq
                want = elements(spec_structure([T(i) for i in now]))
                got = call(b_, hook_, "resolve_top_level_identifier", "_offset_")
                ctx.count()
                if repr(got) != want:
                    bad_seq.append({"asked in": "%s, then %s" % (a_label, b_label), "at": label, "found": repr(got)[:140], "expected": want[:140]})
    # constants are looked up in the current section only
    b_, hook_ = fresh()
    call(b_, hook_, "on_constant", T(9), "K", VAL1)
    call(b_, hook_, "on_attribute_comment", "")
    results = {"K in the request": call(b_, hook_, "resolve_top_level_identifier", "K"), "nope": call(b_, hook_, "resolve_top_level_identifier", "nope")}
    call(b_, hook_, "on_service_response_marker")
    results["K in the response before it is defined there"] = call(b_, hook_, "resolve_top_level_identifier", "K")
    call(b_, hook_, "on_constant", T(9), "K", VAL2)
    call(b_, hook_, "on_attribute_comment", "")
    results["K in the response"] = call(b_, hook_, "resolve_top_level_identifier", "K")
    # every value a constant can have is found again by its name - the falsy ones (false, 0, the empty string) included:
    # real instances of the expression classes, whose truth value is the classes' own
    from ..absint import construct

    for cname, arg in (("Boolean", False), ("Boolean", True), ("Rational", 0), ("String", "")):
        kcls = ctx.cls("_expression._primitive." + cname)
        try:
            val = construct(ctx, kcls, arg)
        except (Raised, Unfoldable) as ex:
            raise AnalysisError("%s(%r) cannot be constructed: %s" % (cname, arg, ex))
        b_, hook_ = fresh()
        call(b_, hook_, "on_constant", T(9), "F", val)
        call(b_, hook_, "on_attribute_comment", "")
        key = "F = %s(%r)" % (cname, arg)
        results[key] = call(b_, hook_, "resolve_top_level_identifier", "F")
        ctx.count()
    bad_const = []
    for k in [k for k in results if k.startswith("F = ")]:
        if type(results[k]).__name__ != "AObj" or results[k]._cls_.name != k[4:].split("(")[0]:
            bad_const.append({"constant": k, "found": repr(results[k])[:100], "expected": "the constant's value"})
    ctx.count(4)
    want_r = {"K in the request": VAL1, "nope": "raise UndefinedIdentifierError", "K in the response before it is defined there": "raise UndefinedIdentifierError", "K in the response": VAL2}
    bad_const += [{"identifier": k, "found": repr(getattr(results[k], "label", results[k]))[:80], "expected": repr(getattr(want_r[k], "label", want_r[k]))} for k in want_r if not (results[k] is want_r[k] or results[k] == want_r[k])]
    if "offset" in parts:
        ctx.check(not bad_seq, rt.short, "_offset_ -> Set(map(Rational, current schema's offset)) at every point of a growing two-section definition", "`_offset_` evaluates to the set of lengths of everything before this point in the current schema", rt.where(), {"offset": bad_seq[:3]}, rule=rule)
    if "constants" in parts:
        ctx.check(not bad_const, rt.short, "an identifier is the value of the constant of that name in the current section - whatever the value (false, 0 and the empty string included) - and is undefined otherwise", "identifiers evaluate to the constants of the current schema; unknown identifiers are rejected", rt.where(), bad_const[:4], rule=rule)


def rule_r3(ctx: Ctx) -> None:
    repo = ctx.repo
    ctx.rule("C08.R3", "intrinsics: _offset_ / _bit_length_ / _extent_ are wired to the layout model; attribute lookups fall back to the parent class; unions reject fields after _offset_ was evaluated", min_instances=5)
    dsb = ctx.cls("_data_schema_builder.DataSchemaBuilder")
    off = dsb.methods.get("offset")
    if off is None or not off.is_property:
        raise AnalysisError("anchor DataSchemaBuilder.offset (property) missing")
    bad = []
    hookf = _layout_hook(ctx, off.module, dsb)
    q_off = ast.parse("self.offset", mode="eval").body
    q_add = ast.parse("self.add_field(x)", mode="eval").body
    for union in (False, True):
        for ts in _field_type_grids():
            fields = [Sym(data_type=t, name="f%d" % i, _isa_=FIELD) for i, t in enumerate(ts)]
            # the offset is queried after `cut` fields and again after all of them (a structure may grow between queries)
            for cut in ([len(ts)] if union else range(len(ts) + 1)):
                holder: Dict[str, Any] = {}

                def run() -> Any:
                    me = _new_schema(ctx, dsb, union)  # a fresh schema on every explored run
                    holder["me"] = me
                    out = []
                    done = 0
                    for stop in sorted({cut, len(ts)}):
                        for x in fields[done:stop]:
                            Folder({"self": me, "x": x}, repo, off.module, dsb, hookf).fold(q_add)
                        done = stop
                        out.append((stop, Folder({"self": me}, repo, off.module, dsb, hookf).fold(q_off)))
                    return out

                try:
                    runs = explore(run)
                except (Unfoldable, Raised, NotLayout) as ex:
                    raise AnalysisError("%s: cannot evaluate over abstract fields: %s" % (off.short, ex))
                for assumptions, outs in runs:
                    for stop, got in outs:
                        ctx.count()
                        want = under(assumptions, lambda: (spec_union if union else spec_structure)(ts[:stop]))
                        if got != want:
                            _verdict(ctx, off, assumptions)
                            bad.append({"union": union, "field alignments": [t.alignment_requirement for t in ts], "queried after": sorted({cut, len(ts)}), "at": stop, "found": repr(got), "expected": repr(want)})
                try:
                    now = Folder({"self": holder["me"]}, repo, off.module, dsb, hookf).fold(ast.parse("self.fields", mode="eval").body)
                except (Unfoldable, Raised) as ex:
                    raise AnalysisError("DataSchemaBuilder.fields: cannot evaluate: %s" % ex)
                if [id(x) for x in now] != [id(x) for x in fields]:
                    bad.append({"note": "the field list was modified by the query", "fields": [getattr(x, "name", "?") for x in now]})
    ctx.check(not bad, off.short, "offset over abstract fields, both kinds", "`_offset_` is the layout aggregate of exactly the fields declared so far, of the kind the final type will have, without the final padding", off.where(), bad[:2])
    # observing the offset marks the schema; a union must not grow afterwards
    af = dsb.methods.get("add_field")
    if af is None:
        raise AnalysisError("anchor DataSchemaBuilder.add_field missing")
    outcomes = {}
    F1, F2 = (Sym(data_type=_field_type_grids()[1][0], name=n, _isa_=FIELD) for n in ("x", "y"))
    for union in (False, True):
        for observed in (False, True):
            me = _new_schema(ctx, dsb, union)
            fo = Folder({"self": me, "x": F1, "y": F2}, repo, af.module, dsb, _layout_hook(ctx, af.module, dsb))
            try:
                fo.fold(ast.parse("self.add_field(x)", mode="eval").body)
                if observed:
                    fo.fold(q_off)
                fo.fold(ast.parse("self.add_field(y)", mode="eval").body)
                n_now = len(fo.fold(ast.parse("self.fields", mode="eval").body))
                outcomes[(union, observed)] = "added" if n_now == 2 else "dropped"
            except Raised as r:
                outcomes[(union, observed)] = r.cls_name
            except Unfoldable as ex:
                raise AnalysisError("%s: cannot evaluate: %s" % (af.short, ex))
            ctx.count()
    want_o = {(False, False): "added", (False, True): "added", (True, False): "added", (True, True): "BitLengthAnalysisError"}
    ctx.check(outcomes == want_o, dsb.short, "add_field after the offset was observed: %s" % ({"union=%s,observed=%s" % k: v for k, v in outcomes.items()}), "inter-field offsets are not defined for unions: a union must not grow after its offset was observed", dsb.module.relpath)
    # selection agreement with the final type
    mk = ctx.func("_data_type_builder.DataTypeBuilder._make_composite")
    sel = []
    for n in ast.walk(ctx.inl(mk)):
        test = body = orelse = None
        if isinstance(n, ast.IfExp):
            test, body, orelse = n.test, norm(n.body), norm(n.orelse)
        elif isinstance(n, ast.If) and n.orelse:
            test, body, orelse = n.test, " ".join(norm(x) for x in n.body), " ".join(norm(x) for x in n.orelse)
        if test is not None and "union" in norm(test) and ("UnionType" in body + orelse) and ("StructureType" in body + orelse):
            positive = not (isinstance(test, ast.UnaryOp) and isinstance(test.op, ast.Not))
            sel.append(("UnionType" in body) == positive and ("StructureType" in orelse) == positive)
    if sel:
        ctx.check(all(sel), mk.short, "UnionType iff the schema is a union", "the intrinsic and the final type choose union vs structure by the same flag", mk.where(), nontrivial=False)
    else:
        # the choice is not written as a conditional on the flag (a table, getattr(module, name) ...): that `@union` yields a
        # union whose `_offset_` is tag + union of the variants is decided extensionally, from texts, by C08.R7
        ctx.undecided("C08.R3: the syntactic agreement of the union / structure choice (not written as a conditional on this tree); decided extensionally by C08.R7")
    rule_identifiers(ctx, parts=("offset",))
    rt = ctx.cls("_data_type_builder.DataTypeBuilder").methods["resolve_top_level_identifier"]
    # _bit_length_ / _extent_ / constants as attributes of a type: instances are constructed over abstract arguments and asked
    from . import c05 as M

    lh = _layout_hook(ctx, rt.module, None)

    def records_hook(e: ast.expr, f: Folder) -> Any:
        r = lh(e, f)
        if r is not NotImplemented:
            return r
        if isinstance(e, ast.Call):
            name = dotted(e.func) or ""
            last = name.split(".")[-1]
            if last in ("Rational", "Set", "String", "Boolean") and name.split(".")[0] in ("_expression", last):
                return _value_record(last, [f.fold(a) for a in e.args] + [f.fold(k_.value) for k_ in e.keywords])
            if name == "map" and len(e.args) == 2:
                try:
                    k = f.fold(e.args[0])
                except Unfoldable:
                    k = None
                if isinstance(k, ClassInfo):
                    return [(k.name, x) for x in f.fold(e.args[1])]
        return NotImplemented

    def ask(o: Any, nm: str) -> Any:
        try:
            return Folder({"o": o, "n": Sym(native_value=nm)}, repo, o._cls_.module, o._cls_, records_hook).fold(ast.parse("o._attribute(n)", mode="eval").body)
        except Raised as r:
            return "raise " + r.cls_name
        except Unfoldable as ex:
            raise AnalysisError("%s._attribute(%r): cannot evaluate: %s" % (o._cls_.name, nm, ex))

    VAL = Sym(_kind_="value", label="the constant's value")
    kc = M.attribute_sym(ctx, "Constant", "K")
    kc.value = VAL
    prim = M._construct_outcome(ctx, ctx.cls(SER + "_primitive.UnsignedIntegerType"), 8, "CastMode.TRUNCATED")
    st2 = M.structure(ctx, attributes=[M.attribute_sym(ctx, "Field", "a", bits=8), M.attribute_sym(ctx, "Field", "b", bits=24), kc])
    if isinstance(prim, str) or isinstance(st2, str):
        raise AnalysisError("model instances cannot be constructed over abstract arguments: %s / %s" % (prim, st2))
    dl = M.build_model(ctx, SER + "_composite.DelimitedType", inner=st2, extent=64)
    if isinstance(dl, str):
        raise AnalysisError("DelimitedType(...) over abstract arguments raised %s" % dl)
    set_of = lambda n: ("Set", (("Rational", ("ELEMENTS-OF", ("leaf", frozenset([n])))),))  # noqa: E731
    cases = [
        ("uint8", prim, {"_bit_length_": set_of(8), "_extent_": "raise UndefinedAttributeError", "zzz": "raise UndefinedAttributeError"}),
        ("structure {uint8 a, uint24 b, K}", st2, {"_bit_length_": set_of(32), "_extent_": ("Rational", 32), "K": VAL, "zzz": "raise UndefinedAttributeError"}),
    ]
    for label, o, want_d in cases:
        got_d = {nm: ask(o, nm) for nm in want_d}
        ctx.count(len(want_d))
        good = all((got_d[k] is want_d[k]) or repr(got_d[k]) == repr(want_d[k]) for k in want_d)
        at = repo.lookup_method(o._cls_, "_attribute")
        ctx.check(good, o._cls_.short + "._attribute", "%s: %s" % (label, {k: repr(getattr(v, "label", v))[:50] for k, v in got_d.items()}), "`T._bit_length_` / `T._extent_` / `T.K` are the layout model's answers; anything else is an undefined attribute", at.where() if at else o._cls_.module.relpath, {"expected": {k: repr(getattr(v, "label", v))[:60] for k, v in want_d.items()}})
    ge = ask(dl, "_extent_")
    ctx.count()
    ctx.check(repr(ge) == repr(("Rational", 64)), dl._cls_.short + "._attribute", "delimited: _extent_ -> %r" % (ge,), "`T._extent_` of a delimited type is the declared extent", dl._cls_.module.relpath)


def rule_r5_documents(ctx: Ctx) -> None:
    """`_offset_` where a definition text asks for it: the parser's visitors evaluated over abstract texts (as in C03.R6) into
    the repository's own builder; every `@print _offset_` line must see exactly the fields and paddings above it in its
    section - whether or not they have been committed yet (comment blocks, blank lines, a leading padding, the service
    marker)"""
    from itertools import product

    from .parser_common import Line, ParserModel, read_lines, text_of

    ctx.rule("C08.R5", "`_offset_` evaluated at any line of an abstract definition text (all sequences of field / padding / constant / comment / empty lines around it, messages and services, both endings) is the length of exactly the fields and paddings above it in its section", min_instances=1)
    pm = ParserModel(ctx)
    alphabet = ["F", "P", "K", "C", "B", "O"]
    bound = 3
    bodies = [list(sq) for L in range(1, bound + 1) for sq in product(alphabet, repeat=L) if "O" in sq]
    bodies += [["P", "C", "O"], ["C", "P", "O", "F"], ["B", "P", "B", "O"], ["P", "P", "C", "O"], ["F", "C", "C", "B", "O"]]

    def mk(seq: Any, prefix: str) -> List[Any]:
        return [Line("C", comment=" c%d" % i) if k == "C" else Line(k, "%s%d" % (prefix, i)) for i, k in enumerate(seq)]

    scripts: List[List[Any]] = []
    for body in bodies:
        scripts.append(mk(body, "a") + [Line("D")])
        scripts.append([Line("D")] + mk(body, "a"))
        if len(body) <= 2:
            scripts.append([Line("D"), Line("F", "x")] + [Line("M")] + mk(body, "r") + [Line("D")])
            scripts.append(mk(body, "q") + [Line("D"), Line("M")] + mk(body, "r") + [Line("D")])
    bad = []
    n = 0
    for lines in scripts:
        for final_eol in (False, True):
            r = read_lines(pm, lines, final_eol)
            n += 1
            want, got = [], []
            for idx, v in r.offsets:
                above = 0
                for l2 in lines[:idx][::-1]:
                    if l2.kind == "M":
                        break
                    above += 1 if l2.kind in ("F", "P") else 0
                want.append((idx, frozenset([8 * above])))
                t = v
                for _ in range(6):
                    if getattr(t, "_kind_", None) in ("Set", "Rational") and getattr(t, "payload", None):
                        t = t.payload[0]
                    elif isinstance(t, (tuple, list)) and len(t) == 1:
                        t = t[0]
                    elif isinstance(t, tuple) and len(t) == 2 and t[0] == "ELEMENTS-OF":
                        t = t[1]
                got.append((idx, t[1] if isinstance(t, tuple) and len(t) == 2 and t[0] == "leaf" else repr(v)[:80]))
            n_o = sum(1 for l2 in lines if l2.kind == "O")
            if r.raised or got != want or len(got) != n_o:
                bad.append({"text": text_of(lines, final_eol), "_offset_ read at line": [(i, sorted(x) if isinstance(x, frozenset) else x) for i, x in got], "expected": [(i, sorted(x)) for i, x in want], "raised": r.raised})
    ctx.count(n)
    fn = ctx.func("_data_type_builder.DataTypeBuilder.resolve_top_level_identifier")
    ctx.check(not bad, "_parser._ParseTreeProcessor x _data_type_builder.DataTypeBuilder", "`_offset_` at every line of %d abstract texts" % n, "`_offset_` evaluated at any point of a structure is the set of lengths of everything before that point", fn.where(), bad[:3])


def rule_r4_keys(ctx: Ctx) -> None:
    from . import approx_keys

    ctx.rule("C08.R4", "offsets are computed for the base offset set given: the offset iterators and the `_offset_` intrinsic hold no table or memo keyed by the (approximate) equality of a length set or type", min_instances=1)
    approx_keys.rule(ctx, "C08.R4", ["_serializable", "_data_type_builder"], "two different base offset sets may compare equal (min, max and a few residues): offsets looked up by equality belong to another base", "pydsdl/_serializable/_composite.py", roots=["iterate_fields_with_offsets", "enumerate_elements_with_offsets", "resolve_top_level_identifier", "_attribute"], min_reached=15)


def rule_r6_concrete(ctx: Ctx) -> None:
    """R1 / R2 compare the iterators with the layout model over abstract fields.  Here concrete types are built by the real
    constructors over the real length-set algebra (all evaluated from the source) and the iterators are asked for several
    concrete base sets, repeatedly, with what the public accessors returned modified by the caller in between: the positions
    are those of the wire format on every call."""
    import itertools as _it

    from ..absint import APath, ctor_hook, module_call_hook, path_hook
    from .c01 import _quiet_hook
    from .c11 import _version

    ctx.rule("C08.R6", "concrete structures, unions, delimited types and fixed arrays built by evaluation of the constructors: iterate_fields_with_offsets / enumerate_elements_with_offsets yield every field / element once, in order, at exactly the wire positions, for aligned, unaligned and multi-valued base sets - on every call, also after the caller has modified every list the public accessors hand out [bounded grid, evaluated from the source]", min_instances=2)
    SERP = SER
    prim = ctx.cls(SERP + "_primitive.PrimitiveType")
    bcls = ctx.cls("_bit_length_set._bit_length_set.BitLengthSet")

    def hook_for(c: Any) -> Any:
        return path_hook(ctor_hook(ctx, module_call_hook(ctx, c.module, [], [], results={"check_name": None}, record=["check_name"], base_hook=_quiet_hook)))

    def mk(label: str, short: str, *a: Any, **k: Any) -> Any:
        c = ctx.cls(SERP + short)
        try:
            return construct(ctx, c, *a, hook=hook_for(c), **k)
        except Raised as r:
            raise AnalysisError("%s cannot be constructed: %s" % (label, r.cls_name))
        except Unfoldable as ex:
            raise AnalysisError("%s cannot be constructed over the rule's arguments: %s" % (label, ex))

    try:
        TRU = Folder({}, ctx.repo, prim.module, prim).fold(ast.parse("PrimitiveType.CastMode.TRUNCATED", mode="eval").body)
    except Unfoldable as ex:
        raise AnalysisError("the cast modes cannot be evaluated: %s" % ex)

    def pad(xs: Any, a: int) -> frozenset:
        return frozenset(-(-x // a) * a for x in xs)

    def rep(xs: Any, k: int) -> frozenset:
        return frozenset(sum(c) for c in _it.combinations_with_replacement(sorted(xs), k))

    serial = [0]
    # a type is (object, Specification length set, alignment)
    def uint(n: int) -> Tuple[Any, frozenset, int]:
        return mk("uint%d" % n, "_primitive.UnsignedIntegerType", n, TRU), frozenset({n}), 1

    def void(n: int) -> Tuple[Any, frozenset, int]:
        return mk("void%d" % n, "_void.VoidType", n), frozenset({n}), 1

    def varr(el: Tuple[Any, frozenset, int], cap: int) -> Tuple[Any, frozenset, int]:
        o = mk("variable array", "_array.VariableLengthArrayType", el[0], cap)
        w = next(w for w in (8, 16, 32, 64) if cap < 2**w)
        return o, frozenset(w + x for k in range(cap + 1) for x in rep(el[1], k)), el[2]

    def comp(fields: List[Tuple[str, Tuple[Any, frozenset, int]]], union: bool = False) -> Tuple[Any, frozenset, int, List[Tuple[str, Tuple[Any, frozenset, int]]]]:
        serial[0] += 1
        attrs = [mk("field", "_attribute.PaddingField", t[0]) if nm == "" else mk("field", "_attribute.Field", t[0], nm) for nm, t in fields]
        o = mk("composite", "_composite.UnionType" if union else "_composite.StructureType", name="ns.T%d" % serial[0], version=_version(1, 0), attributes=attrs, deprecated=False, fixed_port_id=None, source_file_path=APath("/r/ns/T%d.1.0.dsdl" % serial[0]), has_parent_service=False, doc="")
        if union:
            sp = pad(frozenset(8 + x for _, t in fields for x in t[1]), 8)
        else:
            cur = frozenset({0})
            for _, t in fields:
                cur = frozenset(x + y for x in pad(cur, t[2]) for y in t[1])
            sp = pad(cur, 8)
        return o, sp, 8, fields

    def positions(c: Any, base: frozenset, union: bool, header: int = 0) -> List[Tuple[str, frozenset]]:
        cur = frozenset(header + x for x in pad(base, 8))
        out = []
        if union:
            return [(nm, frozenset(8 + x for x in cur)) for nm, _ in c[3]]
        for nm, t in c[3]:
            cur = pad(cur, t[2])
            out.append((nm, cur))
            cur = frozenset(x + y for x in cur for y in t[1])
        return out

    u3, u8, u16, b1 = uint(3), uint(8), uint(16), uint(1)
    inner = comp([("p", u8), ("q", varr(u8, 2))])
    st = comp([("a", u3), ("", void(5)), ("b", u16), ("", void(8)), ("c", varr(u8, 2)), ("d", b1), ("e", inner[:3]), ("f", u3)])
    un = comp([("first", u8), ("second", u16), ("third", inner[:3])], union=True)
    dl = mk("delimited", "_composite.DelimitedType", st[0], 8 * ((max(st[1]) + 7) // 8) + 64)
    arr = mk("fixed array", "_array.FixedLengthArrayType", inner[0], 3)
    bases = [frozenset({0}), frozenset({8, 24}), frozenset({3}), frozenset({1, 9, 12}), frozenset({64, 65})]
    MUTATE = """
def mutate(x):
    for got in (x.fields, x.attributes, x.constants, x.fields_except_padding, x.fields, x.attributes):
        if got:
            got.append(got[0])
            got.reverse()
            got.pop(0)
        got.clear()
"""
    mut_body = ast.parse(MUTATE).body[0].body

    def ask(obj: Any, base: frozenset, method: str) -> Any:
        env = {"x": obj}
        try:
            b_ = Folder({}, ctx.repo, bcls.module, None, _quiet_hook).fold(ast.parse("BitLengthSet(%r)" % set(base), mode="eval").body)
            env["base"] = b_
            src = "[(f.name, set(o)) for f, o in x.iterate_fields_with_offsets(base)]" if method == "fields" else "[(i, set(o)) for i, o in x.enumerate_elements_with_offsets(base)]"
            r = Folder(env, ctx.repo, prim.module, None, hook_for(prim)).fold(ast.parse(src, mode="eval").body)
        except Raised as ex:
            return ("raised", ex.cls_name)
        except Unfoldable as ex:
            raise AnalysisError("the offsets of a constructed type cannot be evaluated: %s" % ex)
        return [(n_, frozenset(o_)) for n_, o_ in r]

    def mutate(obj: Any) -> None:
        try:
            Evaluator({"x": obj}, ctx.repo, prim.module, None, hook_for(prim)).run(mut_body)
        except (Raised, Unfoldable) as ex:
            raise AnalysisError("the caller-side modification of the accessors' results cannot be evaluated: %s" % ex)

    n = 0
    for label, obj, c, union, header in (("structure {uint3, void5, uint16, void8, uint8[<=2], bool, Inner, uint3}", st[0], st, False, 0), ("union {uint8, uint16, Inner}", un[0], un, True, 0), ("delimited structure", dl, st, False, 32)):
        bad = []
        for round_ in ("first call", "second call", "after the caller modified the lists the accessors returned"):
            if round_.startswith("after"):
                mutate(obj)
                if header:
                    mutate(st[0])
            for base in bases:
                got = ask(obj, base, "fields")
                want = positions(c, base, union, header)
                n += 1
                if got != want and len(bad) < 4:
                    bad.append({"base": sorted(base), "when": round_, "found": [(a, sorted(b)) for a, b in got] if isinstance(got, list) else got, "wire positions": [(a, sorted(b)) for a, b in want]})
        ctx.check(not bad, label, "iterate_fields_with_offsets for %d base sets x 3 rounds" % len(bases), "every field once, in order, at the set of bit positions at which it can start", "pydsdl/_serializable/_composite.py", bad[:3])
    # a history: the first variant of a union is a composed type that a structure holds too; the union's length set is
    # expanded numerically first (as `_offset_` inside the union, or a caller iterating it, does), then the structure is asked
    first_t = comp([("m", u8), ("n", varr(u16, 2))])
    holder = comp([("x", first_t[:3]), ("y", u8), ("z", varr(u8, 1))])
    un2 = comp([("one", first_t[:3]), ("two", uint(64)), ("three", varr(u8, 3))], union=True)
    bad = []
    for round_ in ("before the union was expanded", "after the union's length set was expanded", "after it was expanded again"):
        if not round_.startswith("before"):
            try:
                got_u = Folder({"u": un2[0]}, ctx.repo, prim.module, None, hook_for(prim)).fold(ast.parse("set(u.bit_length_set)", mode="eval").body)
            except Raised as ex:
                got_u = ("raised", ex.cls_name)
            except Unfoldable as ex:
                raise AnalysisError("the length set of a constructed union cannot be expanded: %s" % ex)
            n += 1
            if got_u != set(un2[1]):
                bad.append({"when": round_, "the union's length set": sorted(got_u) if isinstance(got_u, (set, frozenset)) else got_u, "Specification": sorted(un2[1])})
        for base in bases[:3]:
            got = ask(holder[0], base, "fields")
            want = positions(holder, base, False, 0)
            n += 1
            if got != want and len(bad) < 4:
                bad.append({"base": sorted(base), "when": round_, "found": [(a, sorted(b)) for a, b in got] if isinstance(got, list) else got, "wire positions": [(a, sorted(b)) for a, b in want]})
    ctx.check(not bad, "structure {First, uint8, uint8[<=1]} next to union {First, uint64, uint8[<=3]}", "offsets before and after the union's length set is expanded", "the offsets of a structure do not depend on which other length sets were expanded before", "pydsdl/_serializable/_composite.py", bad[:3])
    bad = []
    for base in bases:
        got = ask(arr, base, "elements")
        start = pad(base, 8)
        want = [(i, frozenset(x + y for x in start for y in rep(inner[1], i))) for i in range(3)]
        n += 1
        if got != want:
            bad.append({"base": sorted(base), "found": [(a, sorted(b)) for a, b in got] if isinstance(got, list) else got, "wire positions": [(a, sorted(b)) for a, b in want]})
    ctx.check(not bad, "Inner[3]", "enumerate_elements_with_offsets for %d base sets" % len(bases), "every element once, in order, at base (padded) + i element lengths", "pydsdl/_serializable/_array.py", bad[:3])
    ctx.count(n)


def run(ctx: Ctx) -> None:
    ctx.attempt(rule_r1_r2, ctx)
    ctx.attempt(rule_r3, ctx)
    ctx.attempt(rule_r4_keys, ctx)
    ctx.attempt(rule_r5_documents, ctx)
    ctx.attempt(rule_r6_concrete, ctx)
    from . import layouttext

    ctx.attempt(layouttext.rule_c08_r7, ctx)
    ctx.assume("the bit-length-set algebra is exact (C01); alignments are powers of two and the delimiter header is a multiple of the alignment (C02)")
    ctx.undecided("numerical equality of the offset sets with the encoder's positions (only the agreement of the traces / terms is decided)")
