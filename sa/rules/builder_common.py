"""
Shared by C03 / C05 / C15: DataTypeBuilder driven abstractly through its public statement-stream interface (the callbacks the
parser invokes) and finalized; the constructors of the model's composite types are *recorded*, not entered, so what the
builder hands to them - names, versions, port-IDs, paths, attributes, documentation, flags - can be compared with the
Specification whatever the internal structure of the builder is.
"""
from __future__ import annotations

import ast
from typing import Any, Dict, List, Optional, Sequence, Tuple

from ..absint import AObj, Raised, construct, ctor_hook, module_call_hook
from ..codec import isa_of
from ..core import AnalysisError, ClassInfo, Ctx, dotted
from ..fold import Folder, Sym, Unfoldable
from .c05 import enum_hook

DTB = "_data_type_builder.DataTypeBuilder"
COMPOSITES = ("StructureType", "UnionType", "DelimitedType", "ServiceType")
ATTRIBUTES = ("Field", "PaddingField", "Constant")


class BuilderRun:
    def __init__(self) -> None:
        self.ctor_log: List[Tuple[str, Dict[str, Any]]] = []
        self.attr_log: List[Tuple[str, Dict[str, Any]]] = []
        self.validity_calls: List[Tuple[str, Tuple[Any, ...]]] = []
        self.result: Any = None
        self.raised: Optional[str] = None
        self.raised_at: Optional[str] = None


def definition_sym(full_name: str = "ns.sub.T", major: int = 1, minor: int = 2, fixed_port_id: Optional[int] = None, path: str = "/root/ns/sub/T.1.2.dsdl") -> Sym:
    from .c11 import _version

    comps = full_name.split(".")
    return Sym(
        full_name=full_name, version=_version(major, minor), fixed_port_id=fixed_port_id, has_fixed_port_id=fixed_port_id is not None, file_path=path,
        full_namespace=".".join(comps[:-1]), root_namespace=comps[0], short_name=comps[-1], name_components=comps, root_namespace_path="/root/" + comps[0], text="",
        _isa_=frozenset({"ReadableDSDLFile", "DSDLDefinition", "DSDLFile"}), _kind_="DSDLDefinition",
    )


def _bind(ctx: Ctx, cls: ClassInfo, args: Sequence[Any], kwargs: Dict[str, Any]) -> Dict[str, Any]:
    init = ctx.repo.lookup_method(cls, "__init__")
    if init is None:
        return dict(kwargs)
    params = init.params[1:]
    out = dict(zip(params, args))
    out.update(kwargs)
    return out


def _hook(ctx: Ctx, run: BuilderRun, mod: Any, valid_subject: bool, valid_service: bool, base_hook: Any = None) -> Any:
    repo = ctx.repo

    def record_models(e: ast.expr, f: Folder) -> Any:
        if isinstance(e, ast.Call) and isinstance(e.func, (ast.Call, ast.Subscript, ast.IfExp)):
            # the predicate reached through a computed callee: getattr(module, name)(...), table[key](...)
            try:
                cv = f.fold(e.func)
            except Unfoldable:
                cv = None
            target_c = getattr(getattr(cv, "fn", cv), "name", None) if type(cv).__name__ in ("FnRef", "FuncInfo") else None
            if target_c in ("is_valid_regulated_subject_id", "is_valid_regulated_service_id"):
                args = tuple(f.fold(a) for a in e.args)
                run.validity_calls.append((target_c, args))
                return valid_service if target_c.endswith("service_id") else valid_subject
        if isinstance(e, ast.Call) and isinstance(e.func, (ast.Name, ast.Attribute)):
            try:
                k = repo.resolve_expr(f.mod, e.func, f.cls) if f.mod is not None and (dotted(e.func) or "").split(".")[0] not in f.env else None
            except Exception:
                k = None
            if k is None and isinstance(e.func, ast.Name) and e.func.id in f.env and isinstance(f.env[e.func.id], ClassInfo):
                k = f.env[e.func.id]
            if k is None and isinstance(e.func, (ast.IfExp, ast.Subscript)):
                # the class is computed in place: `(A if c else B)(...)`, `TABLE[key](...)`
                try:
                    kv = f.fold(e.func)
                except Unfoldable:
                    kv = None
                if isinstance(kv, ClassInfo):
                    k = kv
            if isinstance(k, ClassInfo) and k.name in ATTRIBUTES:
                bound = _bind(ctx, k, [f.fold(a) for a in e.args], {x.arg: f.fold(x.value) for x in e.keywords if x.arg})
                a_ = Sym(_isa_=isa_of(ctx, "_serializable._attribute." + k.name), _kind_=k.name, **bound)
                if not hasattr(a_, "name"):
                    a_.name = ""
                run.attr_log.append((k.name, dict(bound)))
                return a_
            if isinstance(k, ClassInfo) and k.name in COMPOSITES:
                bound = _bind(ctx, k, [f.fold(a) for a in e.args], {x.arg: f.fold(x.value) for x in e.keywords if x.arg})
                run.ctor_log.append((k.name, dict(bound)))
                isa = isa_of(ctx, "_serializable._composite." + k.name)
                s = Sym(_isa_=isa, _kind_=k.name, **bound)
                # what the real objects derive from their arguments and the builder reads back
                if k.name == "DelimitedType":
                    inner = bound.get("inner")
                    for a in ("full_name", "fixed_port_id", "root_namespace", "short_name", "version", "has_parent_service", "deprecated"):
                        if isinstance(inner, Sym) and hasattr(inner, a):
                            setattr(s, a, getattr(inner, a))
                    s.inner_type = inner
                elif k.name == "ServiceType":
                    rq = bound.get("request")
                    nm = getattr(rq, "full_name", "?.Request")
                    s.full_name = ".".join(nm.split(".")[:-1])
                    s.root_namespace = nm.split(".")[0]
                    s.short_name = s.full_name.split(".")[-1]
                    s.request_type, s.response_type = bound.get("request"), bound.get("response")
                    s.version = getattr(rq, "version", None)
                else:
                    nm = bound.get("name", "?")
                    s.full_name = nm
                    s.root_namespace = str(nm).split(".")[0]
                    s.short_name = str(nm).split(".")[-1]
                    s.extent = 64
                return s
            name = dotted(e.func) or ""
            if name.split(".")[-1] in ("is_valid_regulated_subject_id", "is_valid_regulated_service_id") or (isinstance(e.func, ast.Name) and e.func.id in f.env and type(f.env[e.func.id]).__name__ == "FuncInfo"):
                target = name.split(".")[-1]
                if isinstance(e.func, ast.Name) and e.func.id in f.env and type(f.env[e.func.id]).__name__ == "FuncInfo":
                    target = f.env[e.func.id].name
                if target in ("is_valid_regulated_subject_id", "is_valid_regulated_service_id"):
                    args = tuple(f.fold(a) for a in e.args)
                    run.validity_calls.append((target, args))
                    return valid_service if target.endswith("service_id") else valid_subject
        if isinstance(e, (ast.Name, ast.Attribute)):
            # the validity predicates as values (chosen by a conditional expression and called later)
            d = dotted(e) or ""
            if d.split(".")[-1] in ("is_valid_regulated_subject_id", "is_valid_regulated_service_id") and d.split(".")[0] not in f.env:
                r = None
                try:
                    r = repo.resolve_expr(f.mod, e, f.cls) if f.mod is not None else None
                except Exception:
                    r = None
                if type(r).__name__ == "FuncInfo":
                    return r
        return NotImplemented

    base = enum_hook(ctx, mod, None)

    def both(e: ast.expr, f: Folder) -> Any:
        r = record_models(e, f)
        if r is not NotImplemented:
            return r
        if base_hook is not None:
            r = base_hook(e, f)
            if r is not NotImplemented:
                return r
        return base(e, f)

    return ctor_hook(ctx, module_call_hook(ctx, mod, [], [], record=[], base_hook=both))


def make_builder(ctx: Ctx, definition: Optional[Sym] = None, allow_unregulated: bool = False, valid_subject: bool = True, valid_service: bool = True, handler: Any = None, base_hook: Any = None) -> Tuple[Any, BuilderRun, Any]:
    """an abstract DataTypeBuilder built by its own constructor: (builder, the record of what it constructs, the hook)"""
    cls = ctx.cls(DTB)
    run = BuilderRun()
    hook = _hook(ctx, run, cls.module, valid_subject, valid_service, base_hook)
    d = definition if definition is not None else definition_sym()
    try:
        b = construct(ctx, cls, d, [], [], handler if handler is not None else Sym(_kind_="print-handler"), allow_unregulated, hook=hook)
    except (Raised, Unfoldable) as ex:
        raise AnalysisError("cannot evaluate the constructor of DataTypeBuilder: %s" % ex)
    return b, run, hook


def run_builder(ctx: Ctx, script: Sequence[Tuple[str, Tuple[Any, ...]]], definition: Optional[Sym] = None, allow_unregulated: bool = False, valid_subject: bool = True, valid_service: bool = True, handler: Any = None) -> BuilderRun:
    """
    script: the parser's callbacks in order, e.g. [("on_header_comment", ("doc",)), ("on_directive", (3, "sealed", None)),
    ("on_service_response_marker", ()), ...]; then finalize().  Expression values given as ("Rational", n) are built from the
    repository's own value classes.
    """
    cls = ctx.cls(DTB)
    mod = cls.module
    run = BuilderRun()
    hook = _hook(ctx, run, mod, valid_subject, valid_service)
    d = definition if definition is not None else definition_sym()
    try:
        b = construct(ctx, cls, d, [], [], handler if handler is not None else Sym(_kind_="print-handler"), allow_unregulated, hook=hook)
    except (Raised, Unfoldable) as ex:
        raise AnalysisError("cannot evaluate the constructor of DataTypeBuilder: %s" % ex)
    env: Dict[str, Any] = {"b": b}

    def value(v: Any) -> Any:
        if isinstance(v, tuple) and len(v) == 2 and v[0] in ("Rational", "Boolean", "String"):
            k = ctx.cls("_expression._primitive." + v[0])
            return construct(ctx, k, v[1], hook=hook)
        return v

    step = "constructor"
    try:
        for name, args in list(script) + [("finalize", ())]:
            step = name + repr(tuple(a if not isinstance(a, tuple) else a for a in args))[:60]
            env_args = {"a%d" % i: value(a) for i, a in enumerate(args)}
            expr = ast.parse("b.%s(%s)" % (name, ", ".join(sorted(env_args))), mode="eval").body
            r = Folder(dict(env, **env_args), ctx.repo, mod, cls, hook).fold(expr)
            if name == "finalize":
                run.result = r
    except Raised as ex:
        run.raised = ex.cls_name
        run.raised_at = step
    except Unfoldable as ex:
        raise AnalysisError("DataTypeBuilder.%s: cannot evaluate over abstract arguments: %s" % (step, ex))
    return run
